"""Mutants used to validate the checkers in both directions (see DESIGN.md section 7)."""


def M(id, props, file, old, new, expect=None, silent=False):
    if isinstance(props, str):
        props = [props]
    return {"id": id, "props": props, "edits": [{"file": file, "old": old, "new": new}], "expect": expect or {}, "silent": silent}


MUTANTS = [
    M("c05-swap-mplus-dfs-lazy", "C05", "src/stream.rs",
      "Stream::Lazy(lazy_hat) => Stream::lazy_mplus_dfs(lazy_hat, lazy),",
      "Stream::Lazy(lazy_hat) => Stream::lazy_mplus_dfs(lazy, lazy_hat),",
      {"C05": "arm=Stream::Lazy"}),
    M("c05-swap-wrapper", "C05", "src/stream.rs",
      "LazyStream(Box::new(Lazy::MPlusDFS(ls1, ls2)))",
      "LazyStream(Box::new(Lazy::MPlusDFS(ls2, ls1)))",
      {"C05": "merge-dfs"}),
    M("c05-bind-dfs-order", "C05", "src/stream.rs",
      """Stream::Cons(state, lazy) => Stream::lazy_mplus_dfs(
                    LazyStream::pause_dfs(state, goal.clone()),
                    LazyStream::bind_dfs(lazy, goal),
                ),""",
      """Stream::Cons(state, lazy) => Stream::lazy_mplus_dfs(
                    LazyStream::bind_dfs(lazy, goal.clone()),
                    LazyStream::pause_dfs(state, goal),
                ),""",
      {"C05": "bind-dfs"}),
    M("c05-conde-dfs-no-rev", "C05", "src/operator/conde.rs",
      """                for conjunction in dfs
                    .conjunctions
                    .iter()
                    .rev()
                    .take(dfs.conjunctions.len() - 1)""",
      """                for conjunction in dfs
                    .conjunctions
                    .iter()
                    .skip(1)""",
      {"C05": "cond-fold"}),
    M("c05-dfsconj-from-vec-norev", "C05", "src/operator/conj.rs",
      """        let mut p = DFSGoal::succeed();
        for g in v.drain(..).rev() {""",
      """        let mut p = DFSGoal::succeed();
        for g in v.drain(..) {""",
      {"C05": "builder"}),
    M("c05-engine-iter-after", "C05", "src/stream.rs",
      "Some(stream) => Stream::mplus_dfs(stream, LazyStream::iterator(iter)),",
      "Some(stream) => Stream::mplus(stream, LazyStream::iterator(iter)),",
      {"C05": "engine-iter"}),
    M("silent-rename-local", ["C05"], "src/stream.rs",
      "Stream::Cons(head, lazy_hat) => {\n                Stream::cons(head, LazyStream::mplus_dfs(lazy_hat, lazy))",
      "Stream::Cons(hd, rest) => {\n                Stream::cons(hd, LazyStream::mplus_dfs(rest, lazy))",
      silent=True),
    M("silent-inline-wrapper", ["C05"], "src/stream.rs",
      "Stream::Empty => Stream::lazy(lazy),\n            Stream::Lazy(lazy_hat) => Stream::lazy_mplus_dfs(lazy_hat, lazy),",
      "Stream::Empty => Stream::Lazy(lazy),\n            Stream::Lazy(lazy_hat) => Stream::Lazy(LazyStream(Box::new(Lazy::MPlusDFS(lazy_hat, lazy)))),",
      silent=True),
]
