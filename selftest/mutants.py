"""Mutants used to validate the checkers in both directions (see DESIGN.md section 7)."""


def M(id, props, file, old, new, expect=None, silent=False, more=()):
    if isinstance(props, str):
        props = [props]
    edits = [{"file": file, "old": old, "new": new}] + [{"file": f, "old": o, "new": n} for f, o, n in more]
    return {"id": id, "props": props, "edits": edits, "expect": expect or {}, "silent": silent}


MUTANTS = [
    M("c05-swap-mplus-dfs-lazy", "C05", "src/stream.rs",
      "Stream::Lazy(lazy_hat) => Stream::lazy_mplus_dfs(lazy_hat, lazy),",
      "Stream::Lazy(lazy_hat) => Stream::lazy_mplus_dfs(lazy, lazy_hat),",
      {"C05": "arm=Stream::Lazy"}),
    M("c05-swap-wrapper", "C05", "src/stream.rs",
      "LazyStream(Box::new(Lazy::MPlusDFS(ls1, ls2)))",
      "LazyStream(Box::new(Lazy::MPlusDFS(ls2, ls1)))",
      {"C05": "merge-dfs"}),
    M("c05-bind-dfs-order", "C05", "src/stream.rs",
      """Stream::Cons(state, lazy) => Stream::lazy_mplus_dfs(
                    LazyStream::pause_dfs(state, goal.clone()),
                    LazyStream::bind_dfs(lazy, goal),
                ),""",
      """Stream::Cons(state, lazy) => Stream::lazy_mplus_dfs(
                    LazyStream::bind_dfs(lazy, goal.clone()),
                    LazyStream::pause_dfs(state, goal),
                ),""",
      {"C05": "bind-dfs"}),
    M("c05-conde-dfs-no-rev", "C05", "src/operator/conde.rs",
      """                for conjunction in dfs
                    .conjunctions
                    .iter()
                    .rev()
                    .take(dfs.conjunctions.len() - 1)""",
      """                for conjunction in dfs
                    .conjunctions
                    .iter()
                    .skip(1)""",
      {"C05": "cond-fold"}),
    M("c05-dfsconj-from-vec-norev", "C05", "src/operator/conj.rs",
      """        let mut p = DFSGoal::succeed();
        for g in v.drain(..).rev() {""",
      """        let mut p = DFSGoal::succeed();
        for g in v.drain(..) {""",
      {"C05": "builder"}),
    M("c05-engine-iter-after", "C05", "src/stream.rs",
      "Some(stream) => Stream::mplus_dfs(stream, LazyStream::iterator(iter)),",
      "Some(stream) => Stream::mplus(stream, LazyStream::iterator(iter)),",
      {"C05": "engine-iter"}),
    M("silent-rename-local", ["C05"], "src/stream.rs",
      "Stream::Cons(head, lazy_hat) => {\n                Stream::cons(head, LazyStream::mplus_dfs(lazy_hat, lazy))",
      "Stream::Cons(hd, rest) => {\n                Stream::cons(hd, LazyStream::mplus_dfs(rest, lazy))",
      silent=True),
    M("silent-inline-wrapper", ["C05"], "src/stream.rs",
      "Stream::Empty => Stream::lazy(lazy),\n            Stream::Lazy(lazy_hat) => Stream::lazy_mplus_dfs(lazy_hat, lazy),",
      "Stream::Empty => Stream::Lazy(lazy),\n            Stream::Lazy(lazy_hat) => Stream::Lazy(LazyStream(Box::new(Lazy::MPlusDFS(lazy_hat, lazy)))),",
      silent=True),
    M("c06-bind-loses-head", ["C06"], "src/stream.rs",
      """                Stream::Cons(state, lazy) => Stream::lazy_mplus(
                    LazyStream::pause(state, goal.clone()),
                    LazyStream::bind(lazy, goal),
                ),""",
      """                Stream::Cons(_state, lazy) => Stream::lazy_bind(lazy, goal),""",
      {"C06": "K4.linearity"}),
    M("c06-disj-double-pause", ["C06"], "src/operator/disj.rs",
      "LazyStream::pause(Box::new(state), self.goal_2.clone()),",
      "LazyStream::pause(Box::new(state), self.goal_1.clone()),",
      {"C06": "K3.disj"}),
    M("c06-mapsum-skip", ["C06"], "src/state/map_sum.rs",
      "let mut iter = iter.peekable();\n    let mut stream = Stream::empty();",
      "let mut iter = iter.skip(1).peekable();\n    let mut stream = Stream::empty();",
      {"C06": "map-sum"}),
    M("c06-next-loses-residual", ["C06"], "src/solver.rs",
      "                    *stream = Stream::Lazy(lazy_stream);\n",
      "                    let _ = lazy_stream;\n",
      {"C06": "K"}),
    M("c06-conj-new-drops-goal", ["C06"], "src/operator/conj.rs",
      "        Goal::dynamic(Rc::new(Conj { goal_1, goal_2 }))",
      "        Goal::dynamic(Rc::new(Conj { goal_1: goal_2.clone(), goal_2 }))",
      {"C06": "conj-new"}),
    M("c06-eq-duplicates-answer", ["C06"], "src/relation/eq.rs",
      "Ok(state) => Stream::unit(Box::new(state)),",
      "Ok(state) => Stream::cons(Box::new(state.clone()), crate::stream::LazyStream::delay(Stream::unit(Box::new(state)))),",
      {"C06": "clone"}),
    M("c06-engine-wildcard", ["C06"], "src/stream.rs",
      "            Lazy::Delay(stream) => stream,\n",
      "            Lazy::Delay(_) => Stream::empty(),\n",
      {"C06": "K"}),
    M("c06-conde-bfs-drop-first", ["C06"], "src/operator/conde.rs",
      """            if self.conjunctions.len() > 0 {
                let new_stream = bfs.conjunctions[0].solve(solver, state);
                stream = Stream::mplus(new_stream, LazyStream::delay(stream));
            }""",
      """            if self.conjunctions.len() > 0 {
                let new_stream = bfs.conjunctions[0].solve(solver, state);
                stream = Stream::mplus(new_stream, LazyStream::delay(Stream::empty()));
            }""",
      {"C06": "K"}),
    M("c07-unswapped-mplus", ["C07", "C06"], "src/stream.rs",
      "Stream::Lazy(lazy_hat) => Stream::lazy_mplus(lazy, lazy_hat),",
      "Stream::Lazy(lazy_hat) => Stream::lazy_mplus(lazy_hat, lazy),",
      {"C07": "swap", "C06": "merge"}),
    M("c07-unswapped-cons", ["C07"], "src/stream.rs",
      "Stream::Cons(head, lazy_hat) => Stream::cons(head, LazyStream::mplus(lazy, lazy_hat)),",
      "Stream::Cons(head, lazy_hat) => Stream::cons(head, LazyStream::mplus(lazy_hat, lazy)),",
      {"C07": "swap"}),
    M("c07-conj-new-identity", ["C07"], "src/operator/conj.rs",
      """        if goal_1.is_fail() || goal_2.is_fail() {
            return InferredGoal::new(G::fail());
        }
""",
      """        if goal_1.is_fail() || goal_2.is_fail() {
            return InferredGoal::new(G::fail());
        }
        if goal_2.is_succeed() {
            return InferredGoal::new(goal_1);
        }
""",
      {"C07": "always-node"}),
    M("c07-fresh-sync-solve", ["C07"], "src/operator/fresh.rs",
      "Stream::pause(Box::new(state), bfs.body.clone())",
      "bfs.body.solve(_solver, state)",
      {"C07": "suspension"}),
    M("c07-conde-no-delay", ["C07"], "src/operator/conde.rs",
      """                    let new_stream = conjunction.solve(solver, state.clone());
                    stream = Stream::mplus(new_stream, LazyStream::delay(stream));
                }
            }

            if self.conjunctions.len() > 0 {
                let new_stream = bfs.conjunctions[0].solve(solver, state);""",
      """                    let new_stream = conjunction.solve(solver, state.clone());
                    stream = match stream { Stream::Lazy(l) => Stream::mplus(new_stream, l), other => Stream::mplus(new_stream, LazyStream::delay(other)) };
                }
            }

            if self.conjunctions.len() > 0 {
                let new_stream = bfs.conjunctions[0].solve(solver, state);""",
      {"C07": "conde-delay"}),
    M("silent-c06-conj-identity", ["C06"], "src/operator/conj.rs",
      """        if goal_1.is_fail() || goal_2.is_fail() {
            return InferredGoal::new(G::fail());
        }
""",
      """        if goal_1.is_fail() || goal_2.is_fail() {
            return InferredGoal::new(G::fail());
        }
        if goal_2.is_succeed() {
            return InferredGoal::new(goal_1);
        }
""",
      silent=True),
    M("c08-peek-truncates", ["C08"], "src/operator/conda.rs",
      "match solver.peek(&mut stream) {",
      "match solver.trunc(&mut stream) {",
      {"C08": "conda-solve"}),
    M("c08-condu-keeps-all", ["C08"], "src/operator/condu.rs",
      "match solver.trunc(&mut stream) {",
      "match solver.peek(&mut stream) {",
      {"C08": "condu-solve"}),
    M("c08-conda-next-on-used-state", ["C08"], "src/operator/conda.rs",
      "Some(_) => Stream::bind(stream, self.rest.clone()),",
      "Some(_) => Stream::bind(stream, self.next.clone()),",
      {"C08": "conda-solve"}),
    M("c08-trunc-keeps-cons", ["C08"], "src/solver.rs",
      """                Stream::Unit(a) | Stream::Cons(a, _) => {
                    *stream = Stream::Unit(a);
                    return stream.head();
                }""",
      """                Stream::Unit(a) => {
                    *stream = Stream::Unit(a);
                    return stream.head();
                }
                Stream::Cons(a, rest) => {
                    *stream = Stream::Cons(a, rest);
                    return stream.head();
                }""",
      {"C08": "peek-trunc"}),
    M("c08-peek-drops", ["C08"], "src/solver.rs",
      "                _ => return stream.head(),\n            }\n        }\n    }\n\n    /// Truncates",
      "                Stream::Cons(_, _) => { if let Stream::Cons(a, _) = std::mem::replace(stream, Stream::Empty) { *stream = Stream::Unit(a); } return stream.head() }\n                _ => return stream.head(),\n            }\n        }\n    }\n\n    /// Truncates",
      {"C08": "peek-trunc"}),
    M("c08-builder-norev", ["C08"], "src/operator/condu.rs",
      "for clause in body.to_vec().drain(..).rev() {",
      "for clause in body.to_vec().drain(..) {",
      {"C08": "builder"}),
    M("c08-builder-rest-from-2", ["C08"], "src/operator/conda.rs",
      "clause.split_off(1)",
      "clause.split_off(2)",
      {"C08": "builder"}),
    M("c08-onceo-conda", ["C08"], "src/operator/onceo.rs",
      "proto_vulcan!(condu { g })",
      "proto_vulcan!(conda { g })",
      {"C08": "delegation"}, more=[("src/operator/onceo.rs", "use crate::operator::condu;", "use crate::operator::conda;")]),
    M("c08-matchu-conda", ["C08"], "src/operator/matchu.rs",
      "Condu::from_conjunctions(param.arms)",
      "crate::operator::conda::Conda::from_conjunctions(param.arms)",
      {"C08": "delegation"}),
    M("c01-no-walk-v", ["C01"], "src/state/unification.rs",
      "let vwalk = state.smap_ref().walk(v).clone();",
      "let vwalk = v.clone();",
      {"C01": "walk-v"}),
    M("c01-orientation", ["C01"], "src/state/unification.rs",
      "                extension.extend(vwalk.clone(), uwalk.clone());\n                state.smap_to_mut().extend(vwalk, uwalk);",
      "                extension.extend(vwalk.clone(), uwalk.clone());\n                state.smap_to_mut().extend(uwalk, vwalk);",
      {"C01": "oriented-binding"}),
    M("c01-drop-tail", ["C01"], "src/state/unification.rs",
      "                Ok(state) => unify_rec(state, extension, utail, vtail),",
      "                Ok(state) => { let _ = (utail, vtail); Ok(state) }",
      {"C01": "Cons,Cons"}),
    M("c01-no-occurs", ["C01"], "src/state/unification.rs",
      "            if state.smap_ref().occurs_check(&vwalk, &uwalk) {",
      "            if false && state.smap_ref().occurs_check(&vwalk, &uwalk) {",
      {"C01": "occurs-check"}),
    M("c01-occurs-skip-compound", ["C01"], "src/state/substitution.rs",
      "            LTermInner::Compound(compound) => self.occurs_check_compound(x, compound.as_ref()),\n            _ => false,\n        }\n    }\n\n    fn reify_compound",
      "            _ => false,\n        }\n    }\n\n    fn reify_compound",
      {"C01": "occurs"}),
    M("c01-occurs-head-only", ["C01"], "src/state/substitution.rs",
      "self.occurs_check(x, head) || self.occurs_check(x, tail)",
      "self.occurs_check(x, head)",
      {"C01": "occurs"}),
    M("c01-no-mirror", ["C01"], "src/state/unification.rs",
      "                extension.extend(uwalk.clone(), vwalk.clone());\n",
      "",
      {"C01": "mirrored"}),
    M("c01-compound-no-typeid", ["C01"], "src/state/unification.rs",
      "    if ucompound.type_id() != vcompound.type_id() {\n        return Err(());\n    }\n",
      "",
      {"C01": "type-id"}),
    M("c01-compound-arity-ok", ["C01"], "src/state/unification.rs",
      "            (None, None) => return Ok(state),\n            _ => return Err(()),",
      "            (None, None) => return Ok(state),\n            (None, Some(_)) => return Ok(state),\n            _ => return Err(()),",
      {"C01": "compound"}),
    M("c01-val-no-guard", ["C01"], "src/state/unification.rs",
      "(LTermInner::Val(uval), LTermInner::Val(vval)) if uval == vval => {",
      "(LTermInner::Val(uval), LTermInner::Val(vval)) if uval == vval || true => {",
      {"C01": "Val,Val"}),
    M("c01-fresh-ext-lost", ["C01"], "src/state/mod.rs",
      "unify_rec(self, &mut extension, u, v)?.process_extension(extension)",
      "unify_rec(self, &mut extension, u, v)?.process_extension(SMap::new())",
      {"C01": "pipeline"}),
    M("c01-walk-one-step", ["C01"], "src/state/substitution.rs",
      "                        Some(s) => k = s, // recurse for variable-kind",
      "                        Some(s) => return s,",
      {"C01": "walk"}),
    M("silent-c01-question-mark", ["C01"], "src/state/unification.rs",
      """            match unify_rec(state, extension, uhead, vhead) {
                Ok(state) => unify_rec(state, extension, utail, vtail),
                Err(err) => Err(err),
            }""",
      """            let s = unify_rec(state, extension, uhead, vhead)?;
            unify_rec(s, extension, utail, vtail)""",
      silent=True),
    M("silent-c01-tail-first", ["C01"], "src/state/unification.rs",
      """            match unify_rec(state, extension, uhead, vhead) {
                Ok(state) => unify_rec(state, extension, utail, vtail),""",
      """            match unify_rec(state, extension, utail, vtail) {
                Ok(state) => unify_rec(state, extension, uhead, vhead),""",
      silent=True),
    M("c02-f1-returns", ["C02"], "src/state/constraint/store.rs",
      "                    if !tree_newc.subsumes(tree_storec) {",
      "                    if !tree_storec.subsumes(tree_newc) && !tree_newc.subsumes(tree_storec) {",
      {"C02": "weakens-store"}),
    M("c02-new-never-inserted-when-any", ["C02"], "src/state/constraint/store.rs",
      "                    .map_or(false, |tree_storec| tree_storec.subsumes(tree_newc))",
      "                    .map_or(false, |tree_storec| tree_newc.subsumes(tree_storec))",
      {"C02": "new-left-out"}),
    M("c02-disunify-returns-unified", ["C02"], "src/state/mod.rs",
      """            Ok(_) => {
                if extension.is_empty() {""",
      """            Ok(unified) => {
                let _ = &unified;
                if extension.is_empty() {""",
      {"C02": "disunify"}, more=[("src/state/mod.rs", "                    Ok(self.with_constraint(c))", "                    Ok(unified.with_constraint(c))")]),
    M("c02-run-returns-test-state", ["C02"], "src/relation/diseq.rs",
      "            Ok(state.with_constraint(c))\n        }\n    }\n\n    fn operands",
      "            Ok(test_state.with_constraint(c))\n        }\n    }\n\n    fn operands",
      {"C02": "constraint-run"}),
    M("c02-subsumes-direction", ["C02"], "src/relation/diseq.rs",
      """                let mut state = State::new(Default::default()).with_smap(other.smap_ref().clone());
                for (u, v) in self.0.iter() {""",
      """                let mut state = State::new(Default::default()).with_smap(self.smap_ref().clone());
                for (u, v) in other.0.iter() {""",
      {"C02": "subsumes"}),
    M("c02-empty-ext-swapped", ["C02"], "src/state/mod.rs",
      "                if extension.is_empty() {\n                    // Unification succeeded without extending",
      "                if !extension.is_empty() {\n                    // Unification succeeded without extending",
      {"C02": "disunify"}),
    M("c02-run-entailed-fails", ["C02"], "src/relation/diseq.rs",
      "                Err(_) => return Ok(state),\n                Ok(new_state) => test_state = new_state,",
      "                Err(_) => return Err(()),\n                Ok(new_state) => test_state = new_state,",
      {"C02": "entailed"}),
    M("c22-silent-drop-returns", ["C22"], "src/state/mod.rs",
      """        for constraint in dropped.iter() {
            // Constraints dropped as redundant leave the store like taken ones.
            U::take_constraint(&mut self, constraint);
        }
""",
      "        let _ = dropped;\n",
      {"C22": "pairing"}),
    M("c22-retain-outside", ["C22"], "src/state/constraint/store.rs",
      "    pub fn is_empty(&self) -> bool {\n        self.0.is_empty()\n    }",
      "    pub fn is_empty(&self) -> bool {\n        self.0.is_empty()\n    }\n\n    pub fn forget_disequalities(&mut self) {\n        self.0.retain(|c| c.downcast_ref::<DisequalityConstraint<U, E>>().is_none());\n    }",
      {"C22": "no-silent-removal"}),
    M("c22-second-doorway", ["C22"], "src/state/mod.rs",
      "    pub fn remove_domain(mut self, x: &LTerm<U, E>) -> SResult<U, E> {",
      "    pub fn clear_constraints(mut self) -> State<U, E> {\n        *self.cstore_to_mut() = ConstraintStore::new();\n        self\n    }\n\n    pub fn remove_domain(mut self, x: &LTerm<U, E>) -> SResult<U, E> {",
      {"C22": "doorway"}),
    M("c22-hook-after-insert", ["C22"], "src/state/mod.rs",
      "        U::with_constraint(&mut self, &constraint);\n        let dropped = self.cstore_to_mut().push_and_normalize(constraint);",
      "        let dropped = self.cstore_to_mut().push_and_normalize(constraint.clone());\n        U::with_constraint(&mut self, &constraint);",
      {"C22": "pairing"}),
    M("c22-take-hook-always", ["C22"], "src/state/mod.rs",
      "            None => (self, None),\n        }\n    }\n\n    /// Adds a new domain",
      "            None => {\n                U::take_constraint(&mut self, constraint);\n                (self, None)\n            }\n        }\n    }\n\n    /// Adds a new domain",
      {"C22": "pairing"}),
    M("c22-drained-unaccounted", ["C22"], "src/state/constraint/store.rs",
      "                    } else {\n                        dropped.push(storec);\n                    }",
      "                    }",
      {"C22": "drained-accounted"}),
    M("c22-stage-order", ["C22"], "src/state/mod.rs",
      """        self.process_extension_diseq(&extension)?
            .process_extension_fd(&extension)?
            .process_extension_user(&extension)""",
      """        self.process_extension_user(&extension)?
            .process_extension_diseq(&extension)?
            .process_extension_fd(&extension)""",
      {"C22": "extension-hook"}),
    M("c03-f2-returns", ["C03"], "src/lterm.rs",
      "            LTermInner::Compound(compound) => LTerm::anyvars_compound(compound.as_ref()),\n",
      "",
      {"C03": "anyvars|variant=Compound"}),
    M("c03-f3-returns", ["C03"], "src/state/reification.rs",
      """            (LTermInner::<U, E>::Compound(compound), _) => {
                // Label the fields of a compound term like the elements of a list.
                let mut fields: Vec<LTerm<U, E>> = vec![];
                compound_terms(compound.as_ref(), &mut fields);
                let g: Goal<U, E> = Conj::from_iter(fields.into_iter().map(|field| force_ans(field)));
                g.solve(solver, state)
            },
""",
      "",
      {"C03": "force_ans|variant=Compound"}, more=[("src/state/reification.rs", "#[cfg(feature = \"clpfd\")]\nuse crate::operator::conj::Conj;\n", "")]),
    M("c03-reify-on-unwalked", ["C03"], "src/state/reification.rs",
      "            let r = smap.reify(&v);",
      "            let r = smap.reify(&x);",
      {"C03": "reify-goal"}),
    M("c03-results-reversed", ["C03"], "src/query.rs",
      "                    .variables\n                    .iter()\n                    .map(|v| {",
      "                    .variables\n                    .iter()\n                    .rev()\n                    .map(|v| {",
      {"C03": "result-iterator"}),
    M("c03-results-walk-once", ["C03"], "src/query.rs",
      "LResult::<U, E>(state.smap_ref().walk_star(v), Rc::clone(&reified_cstore))",
      "LResult::<U, E>(state.smap_ref().walk(v).clone(), Rc::clone(&reified_cstore))",
      {"C03": "result-iterator"}),
    M("c03-walkstar-skips-tail", ["C03"], "src/state/substitution.rs",
      "LTermInner::Cons(head, tail) => LTerm::cons(self.walk_star(head), self.walk_star(tail)),",
      "LTermInner::Cons(head, tail) => LTerm::cons(self.walk_star(head), tail.clone()),",
      {"C03": "walk_star|variant=Cons"}),
    M("c03-shared-any", ["C03"], "src/state/substitution.rs",
      "                let mut c = self.clone();\n                c.extend(walkv.clone(), LTerm::any());\n                c",
      "                let mut c = self.clone();\n                c.extend(walkv.clone(), walkv.clone());\n                c",
      {"C03": "fresh-any"}),
    M("c03-reify-compound-skip", ["C03"], "src/state/substitution.rs",
      "        for child in compound.children() {\n            match child.as_term() {\n                Some(v) => smap = smap.reify(v),",
      "        for child in compound.children().skip(1) {\n            match child.as_term() {\n                Some(v) => smap = smap.reify(v),",
      {"C03": "reify_compound"}),
    M("c03-constraints-not-anyvars", ["C03"], "src/lresult.rs",
      "        let anyvars = self.0.anyvars();\n        self.1.relevant(&anyvars)",
      "        let anyvars = vec![self.0.clone()];\n        self.1.relevant(&anyvars)",
      {"C03": "lresult"}),
    M("c03-hash-skips-tail", ["C03"], "src/lterm.rs",
      "                head.hash(state);\n                tail.hash(state);",
      "                head.hash(state);",
      {"C03": "hash|variant=Cons"}),
    M("c19-f11-returns", ["C19"], "src/relation/clpz/plusz.rs",
      "if u + v == *w {", "if u * v == *w {", {"C19": "equation=NNN"}),
    M("c19-f10-returns", ["C19"], "src/relation/clpz/plusz.rs",
      "            (LTermInner::Var(_, _), LTermInner::Var(_, _), LTermInner::Var(_, _))\n            | (LTermInner::Var(_, _), LTermInner::Var(_, _), LTermInner::Val(LValue::Number(_)))",
      "            (LTermInner::Var(_, _), LTermInner::Var(_, _), LTermInner::Val(LValue::Number(_)))",
      {"C19": "covers=VVV"}),
    M("c19-f12-inexact", ["C19"], "src/relation/clpz/timesz.rs",
      "                        (Some(0), Some(v)) => {", "                        (Some(_), Some(v)) => {", {"C19": "equation=NVN"}),
    M("c19-f12-zero-drops-constraint", ["C19"], "src/relation/clpz/timesz.rs",
      "                        /* u * 0 = 0 holds for every u: keep the constraint. */\n                        Ok(state.with_constraint(self))",
      "                        /* u * 0 = 0 holds for every u: keep the constraint. */\n                        Ok(state)",
      {"C19": "VNN"}),
    M("c19-wrong-inverse", ["C19"], "src/relation/clpz/plusz.rs",
      "LTerm::from(w - u)", "LTerm::from(u - w)", {"C19": "equation=NVN"}),
    M("c19-no-rerun", ["C19", "C04"], "src/relation/clpz/plusz.rs",
      "                    .extend(wwalk.clone(), LTerm::from(u + v));\n                state.run_constraints()",
      "                    .extend(wwalk.clone(), LTerm::from(u + v));\n                Ok(state)",
      {"C19": "rerun", "C04": "rerun"}),
    M("c19-binds-wrong-operand", ["C19"], "src/relation/clpz/timesz.rs",
      "                    .extend(wwalk.clone(), LTerm::from(u * v));",
      "                    .extend(vwalk.clone(), LTerm::from(u * v));",
      {"C19": "equation=NNV"}),
    M("c19-plain-div-guarded-ok", ["C19"], "src/relation/clpz/timesz.rs",
      """                    match (w.checked_rem(*v), w.checked_div(*v)) {
                        (Some(0), Some(u)) => {
                            state.smap_to_mut().extend(uwalk.clone(), LTerm::from(u));
                            state.run_constraints()
                        }
                        /* No integer u with u * v = w. */
                        _ => Err(()),
                    }""",
      """                    if w % v == 0 {
                        state.smap_to_mut().extend(uwalk.clone(), LTerm::from(w / v));
                        state.run_constraints()
                    } else {
                        Err(())
                    }""",
      silent=True),
    M("c04-no-rerun-after-singleton", ["C04"], "src/state/mod.rs",
      "                // The substitution has been modified, re-run constraints.\n                self.run_constraints()",
      "                // The substitution has been modified, re-run constraints.\n                Ok(self)",
      {"C04": "extend-then-rerun"}),
    M("c04-diseq-stage-noop", ["C04"], "src/state/mod.rs",
      "    fn process_extension_diseq(self, _extension: &SMap<U, E>) -> SResult<U, E> {\n        self.run_constraints()",
      "    fn process_extension_diseq(self, _extension: &SMap<U, E>) -> SResult<U, E> {\n        Ok(self)",
      {"C04": "reruns"}),
    M("c04-fallback-forgets", ["C04"], "src/relation/clpfd/ltefd.rs",
      "                // the store waiting for the domains to be assigned later.\n                Ok(state.with_constraint(self))",
      "                // the store waiting for the domains to be assigned later.\n                Ok(state)",
      {"C04": "fallback-readds"}),
    M("c04-fd-stage-no-rerun", ["C04"], "src/state/mod.rs",
      "                        .remove_domain(x)?\n                        .run_constraints()?",
      "                        .remove_domain(x)?",
      {"C04": "bound-var-domain"}),
    M("c04-new-unify-caller", ["C04"], "src/relation/eq.rs",
      "        match state.unify(&self.u, &self.v) {",
      "        match crate::state::unify_rec(state, &mut crate::state::SMap::new(), &self.u, &self.v) {",
      {"C04": "calls-unify_rec"}),
    M("c04-plusz-fallback-forgets", ["C19"], "src/relation/clpz/plusz.rs",
      "                /* Not enough terms grounded to verify constraint. */\n                Ok(state.with_constraint(self))",
      "                /* Not enough terms grounded to verify constraint. */\n                Ok(state)",
      {"C19": "keeps="}),
    M("c18-f7-returns", ["C18"], "src/state/fd.rs",
      "self.diff(other).is_none() && other.diff(self).is_none()", "self.diff(other).is_none()", {"C18": "symmetric"}),
    M("c18-f8-returns", ["C18"], "src/state/fd.rs",
      "        v.sort();\n        v.dedup();\n", "        v.sort();\n", {"C18": "sparse-site"}),
    M("c18-f9-returns", ["C18"], "src/state/fd.rs",
      "FiniteDomain::Interval(r) => r.start() == r.end(),", "FiniteDomain::Interval(r) => (r.end() - r.start()).saturating_add(1) == 1,", {"C18": ""}),
    M("c18-diff-swapped-cmp", ["C18"], "src/state/fd.rs",
      """                (Some(s), Some(o)) if s < o => {
                    maybe_s = siter.next();
                    difference.push(s);
                }""",
      """                (Some(s), Some(o)) if s > o => {
                    maybe_s = siter.next();
                    difference.push(s);
                }""",
      {"C18": "merge-discipline"}),
    M("c18-intersect-strict", ["C18"], "src/state/fd.rs",
      "if max_start <= min_end {", "if max_start < min_end {", {"C18": "interval-interval"}),
    M("c18-take-while-inclusive", ["C18"], "src/state/fd.rs",
      ".take_while(|u| u <= r.end())", ".take_while(|u| u < r.end())", {"C18": "sparse-interval"}),
    M("c18-drop-before-polarity", ["C18"], "src/state/fd.rs",
      "v.iter().copied().skip_while(|u| !predicate(u)).collect();", "v.iter().copied().skip_while(|u| predicate(u)).collect();", {"C18": "before-polarity"}),
    M("c18-some-empty", ["C18"], "src/state/fd.rs",
      """        if difference.is_empty() {
            None
        } else {
            Some(FiniteDomain::Sparse(difference))
        }""",
      "        Some(FiniteDomain::Sparse(difference))", {"C18": ""}),
    M("c18-disjoint-eq-continues", ["C18"], "src/state/fd.rs",
      """                (Some(s), Some(o)) if s == o => {
                    return false;
                }""",
      """                (Some(s), Some(o)) if s == o => {
                    maybe_s = siter.next();
                }""",
      {"C18": "merge-discipline"}),
    M("c18-next-back-wrong-end", ["C18"], "src/state/fd.rs",
      "            FiniteDomainIter::SparseIter(v) => v.copied().next_back(),", "            FiniteDomainIter::SparseIter(v) => v.copied().next(),", {"C18": "delegation"}),
    M("c18-unsorted-push", ["C18"], "src/state/fd.rs",
      """                            maybe_o = oiter.next();
                            maybe_s = siter.next();
                            intersection.push(s);""",
      """                            maybe_o = oiter.next();
                            maybe_s = siter.next();
                            intersection.insert(0, s);""",
      {"C18": ""}),
    M("c18-max-first", ["C18"], "src/state/fd.rs",
      "FiniteDomain::Sparse(v) => v.last().copied().unwrap(),", "FiniteDomain::Sparse(v) => v.first().copied().unwrap(),", {"C18": "delegation"}),
    M("c16-registry-line-removed", ["C16"], "src/state/mod.rs",
      "            || constraint.is::<crate::relation::clpfd::minusfd::MinusFdConstraint<U, E>>()\n", "", {"C16": "registry"}),
    M("c16-f5-no-rewalk", ["C16"], "src/state/mod.rs",
      "        let x = &self.smap_ref().walk(x).clone();\n", "", {"C16": "walks-operand"}),
    M("c16-f5-no-fixpoint", ["C16"], "src/state/mod.rs",
      "            if self.smap_ref().len() == bindings {\n                return Ok(self);\n            }",
      "            if self.smap_ref().len() >= bindings {\n                return Ok(self);\n            }",
      {"C16": "fixpoint"}),
    M("c16-f5-no-recheck", ["C16"], "src/state/reification.rs",
      "            match state.run_constraints() {\n                Ok(state) => Stream::unit(Box::new(state)),",
      "            match Ok::<State<U, E>, ()>(state) {\n                Ok(state) => Stream::unit(Box::new(state)),",
      {"C16": "recheck-before-labeling"}, more=[("src/state/reification.rs", "use crate::stream::Stream;", "use crate::stream::Stream;\nuse crate::state::State;")]),
    M("c16-minus-ground-plus", ["C16"], "src/relation/clpfd/minusfd.rs",
      "uwalk.get_number().unwrap() - vwalk.get_number().unwrap()", "uwalk.get_number().unwrap() + vwalk.get_number().unwrap()", {"C16": "ground-test"}),
    M("c16-ltefd-cut-wrong-side", ["C16"], "src/relation/clpfd/ltefd.rs",
      "Rc::new(udomain.copy_before(|u| vmax < *u).ok_or(())?),", "Rc::new(udomain.copy_before(|u| umin < *u).ok_or(())?),", {"C16": "ltefd"}),
    M("c16-singleton-keeps-domain", ["C16"], "src/state/mod.rs",
      "                // Remove domain information from store\n                let _ = self.dstore_to_mut().remove(x);\n", "", {"C16": "bound-implies-no-domain"}),
    M("c16-update-no-intersect", ["C16"], "src/state/mod.rs",
      "            Some(old_domain) => match old_domain.intersect(domain.as_ref()) {\n                Some(intersection) => self.resolve_storable_domain(x, Rc::new(intersection)),\n                None => Err(()), /* disjoint domains */\n            },",
      "            Some(_old_domain) => self.resolve_storable_domain(x, domain),",
      {"C16": "intersects"}),
    M("c17-f6-returns", ["C17"], "src/relation/clpfd/timesfd.rs",
      "                let wlow = corners.iter().copied().min().unwrap();", "                let wlow = corners[0];", {"C17": "bounds=w"}),
    M("c17-times-unguarded-quotient", ["C17"], "src/relation/clpfd/timesfd.rs",
      "                let (ulow, uhigh) = if nonnegative && vmin > 0 {", "                let (ulow, uhigh) = if vmin > 0 {", {"C17": "bounds=u"}),
    M("c17-plus-bounds-swapped", ["C17"], "src/relation/clpfd/plusfd.rs",
      "wmin.saturating_sub(vmax)..=wmax.saturating_sub(vmin),", "wmin.saturating_sub(vmin)..=wmax.saturating_sub(vmax),", {"C17": "bounds=u"}),
    M("c17-label-skips-last", ["C17"], "src/state/reification.rs",
      "                }, xdomain.iter().rev())", "                }, xdomain.iter().rev().skip(1))", {"C17": "one-branch-per-value"}),
    M("c17-hidden-not-once", ["C17"], "src/state/reification.rs",
      "proto_vulcan!( onceo { force_ans(bound_x) } ).solve(engine, state)", "force_ans(bound_x).solve(engine, state)", {"C17": "hidden"}),
    M("c17-force-ans-head-only", ["C17"], "src/state/reification.rs",
      "                    force_ans(head),\n                    force_ans(tail),", "                    force_ans(head),", {"C17": "labeling-coverage"}),
    M("silent-c17-unnarrowed-u", ["C17", "C16"], "src/relation/clpfd/plusfd.rs",
      "wmin.saturating_sub(vmax)..=wmax.saturating_sub(vmin),", "umin..=umax,", silent=True),
    M("c23-new-unwrap-in-next", ["C23"], "src/solver.rs",
      "                Stream::Lazy(LazyStream(lazy)) => *stream = self.engine.step(self, *lazy),\n                Stream::Cons(state, lazy_stream) => {",
      "                Stream::Lazy(LazyStream(lazy)) => *stream = self.engine.step(self, *lazy),\n                Stream::Cons(state, lazy_stream) => {\n                    let _ = stream.head().unwrap();",
      {"C23": "Solver::next|unwrap"}),
    M("c23-f13-returns", ["C23"], "src/state/mod.rs",
      "            _ if domain.is_empty() => Err(()),\n", "", {"C23": ""}),
    M("silent-c23-guarded-plain-division", ["C23", "C19"], "src/relation/clpz/timesz.rs",
      """                    match (w.checked_rem(*u), w.checked_div(*u)) {
                        (Some(0), Some(v)) => {
                            state.smap_to_mut().extend(vwalk.clone(), LTerm::from(v));
                            state.run_constraints()
                        }
                        /* No integer v with u * v = w. */
                        _ => Err(()),
                    }""",
      """                    if w % u == 0 {
                        state.smap_to_mut().extend(vwalk.clone(), LTerm::from(w / u));
                        state.run_constraints()
                    } else {
                        Err(())
                    }""",
      silent=True),
    M("c23-f12-div-returns", ["C23"], "src/relation/clpz/timesz.rs",
      """                if *u == 0 {
                    if *w == 0 {
                        /* 0 * v = 0 holds for every v: keep the constraint. */
                        Ok(state.with_constraint(self))
                    } else {
                        Err(())
                    }
                } else {""",
      """                if *u == 0 && false {
                    if *w == 0 {
                        /* 0 * v = 0 holds for every v: keep the constraint. */
                        Ok(state.with_constraint(self))
                    } else {
                        Err(())
                    }
                } else {""",
      {"C23": ""}, more=[("src/relation/clpz/timesz.rs", """                    match (w.checked_rem(*u), w.checked_div(*u)) {
                        (Some(0), Some(v)) => {
                            state.smap_to_mut().extend(vwalk.clone(), LTerm::from(v));
                            state.run_constraints()
                        }
                        /* No integer v with u * v = w. */
                        _ => Err(()),
                    }""", """                    if w % u == 0 {
                        state.smap_to_mut().extend(vwalk.clone(), LTerm::from(w / u));
                        state.run_constraints()
                    } else {
                        Err(())
                    }""")]),
    M("c23-unguarded-get-number", ["C23"], "src/relation/clpfd/ltefd.rs",
      "            (Some(udomain), None) if vwalk.is_number() => {", "            (Some(udomain), None) if !vwalk.is_var() => {", {"C23": "ltefd"}),
    M("c23-index-in-engine", ["C23"], "src/operator/conde.rs",
      "            if self.conjunctions.len() > 0 {\n                let new_stream = bfs.conjunctions[0].solve(solver, state);",
      "            if self.conjunctions.len() > 0 || true {\n                let new_stream = bfs.conjunctions[0].solve(solver, state);",
      {"C23": ""}),
    M("c23-second-caller-of-update", ["C23"], "src/state/mod.rs",
      "    pub fn remove_domain(mut self, x: &LTerm<U, E>) -> SResult<U, E> {",
      "    pub fn set_domain(self, x: &LTerm<U, E>, d: Rc<FiniteDomain>) -> SResult<U, E> {\n        self.update_var_domain(x, d)\n    }\n\n    pub fn remove_domain(mut self, x: &LTerm<U, E>) -> SResult<U, E> {",
      {"C23": "callers"}),
    M("c10-cell-in-goal", ["C10"], "src/operator/conda.rs",
      "    // Next conda clause\n    next: Goal<U, E>,\n}", "    // Next conda clause\n    next: Goal<U, E>,\n    hits: std::cell::Cell<usize>,\n}",
      {"C10": "interior-mutability"}, more=[("src/operator/conda.rs", "next = Goal::dynamic(Rc::new(Conda { first, rest, next }));", "next = Goal::dynamic(Rc::new(Conda { first, rest, next, hits: std::cell::Cell::new(0) }));")]),
    M("c10-as-ptr-write-in-constraint", ["C10", "C11"], "src/relation/clpfd/distinctfd.rs",
      "        let mut mself = Rc::make_mut(&mut self);", "        let mut mself = unsafe { &mut *(Rc::as_ptr(&self) as *mut Self) };",
      {"C10": "no-back-door", "C11": ""}),
    M("c10-refcell-in-closure", ["C10"], "src/relation/eq.rs",
      "        match state.unify(&self.u, &self.v) {", "        let seen = std::rc::Rc::new(std::cell::RefCell::new(0usize));\n        let s2 = seen.clone();\n        let bump = move || { *s2.borrow_mut() += 1; };\n        bump();\n        match state.unify(&self.u, &self.v) {",
      {"C10": "interior-mutability"}),
    M("c11-project-shallow-walk", ["C11"], "src/operator/project.rs",
      "v.project(|x| state.smap_ref().walk_star(x));", "v.project(|x| state.smap_ref().walk(x).clone());", {"C11": "what-is-projected"}),
    M("c09-eager-construction", ["C09"], "src/query.rs",
      "        let stream = solver.start(&goal, initial_state);\n        ResultIterator {",
      "        let mut stream = solver.start(&goal, initial_state);\n        let _ = solver.peek(&mut stream);\n        ResultIterator {",
      {"C09": "starts-once"}),
    M("c09-clock-in-solver", ["C09"], "src/solver.rs",
      "    pub fn next(&mut self, stream: &mut Stream<U, E>) -> Option<Box<State<U, E>>> {\n        loop {",
      "    pub fn next(&mut self, stream: &mut Stream<U, E>) -> Option<Box<State<U, E>>> {\n        if std::time::Instant::now().elapsed().as_secs() > 3600 { return None; }\n        loop {",
      {"C09": "calls=std::time"}),
    M("c09-next-steps-twice", ["C09"], "src/solver.rs",
      "                Stream::Cons(state, lazy_stream) => {\n                    *stream = Stream::Lazy(lazy_stream);",
      "                Stream::Cons(state, lazy_stream) => {\n                    *stream = self.engine.step(self, *lazy_stream.0);",
      {"C09": "one-step-per-iteration"}),
    M("c09-none-not-absorbing", ["C09"], "src/solver.rs",
      "                Stream::Unit(state) => {\n                    #[cfg(feature = \"debugger\")]\n                    if self.debug_enabled {\n                        self.debugger.new_solution(stream, &state);\n                    }\n                    return Some(state);",
      "                Stream::Unit(state) => {\n                    if false { return Some(state); }\n                    *stream = Stream::Unit(state);\n                    return None;",
      {"C09": "none-leaves-empty"}),
    M("c21-hash-name", ["C21"], "src/lterm.rs",
      "            LTermInner::Var(uid, _) => uid.hash(state),", "            LTermInner::Var(uid, name) => { uid.hash(state); name.hash(state) }", {"C21": "variant=Var"}),
    M("c21-eq-by-name", ["C21"], "src/lterm.rs",
      "(LTermInner::Var(self_uid, _), LTermInner::Var(other_uid, _)) => self_uid == other_uid,", "(LTermInner::Var(_, a), LTermInner::Var(_, b)) => a == b,", {"C21": "variant=Var"}),
    M("c21-eq-head-only", ["C21"], "src/lterm.rs",
      "                (self_head == other_head) & (self_tail == other_tail)", "                self_head == other_head", {"C21": "variant=Cons"}),
    M("c21-f14-returns", ["C21"], "src/lterm.rs",
      """        let current = self.maybe_next.take()?;
        if current.is_empty() {
            // Iterator is finished
            return None;
        }
        if !current.is_non_empty_list() {
            // If the list is improper, it ends in non-cons term.
            return Some(current);
        }
        match current.as_mut() {
            LTermInner::Cons(head, tail) => {
                if !tail.is_empty() {
                    // Otherwise the iterator has finished the list after this one
                    self.maybe_next = Some(tail);
                }

                Some(head)
            }
            _ => None,
        }""",
      """        match self.maybe_next.take().map(|x| x.as_mut()) {
            Some(LTermInner::Cons(head, tail)) => {
                if tail.is_empty() {
                    self.maybe_next = None;
                } else {
                    let _ = self.maybe_next.replace(tail);
                }
                Some(head)
            }
            Some(LTermInner::Empty) => {
                self.maybe_next = None;
                None
            }
            Some(_) => self.maybe_next.take(),
            _ => None,
        }""",
      {"C21": "LTermIterMut"}),
    M("c21-from-array-norev", ["C21"], "src/lterm.rs",
      "            for t in a.to_vec().into_iter().rev() {", "            for t in a.to_vec().into_iter() {", {"C21": "from_array"}),
    M("c21-mixed-equal", ["C21"], "src/lterm.rs",
      "            (LTermInner::Empty, LTermInner::Empty) => true,", "            (LTermInner::Empty, LTermInner::Empty) => true,\n            (LTermInner::Empty, LTermInner::Val(_)) => true,", {"C21": ""}),
    # ---- C14: macro translation ------------------------------------------------------------
    M("c14-eq-emits-diseq", ["C14"], "macros/src/lib.rs",
      "let output = quote! { ::proto_vulcan::relation::eq::eq ( #left, #right ) };",
      "let output = quote! { ::proto_vulcan::relation::diseq::diseq ( #left, #right ) };",
      {"C14": "construct|Eq"}),
    M("c14-inop-fail-succeed", ["C14"], "macros/src/lib.rs",
      "let output = quote! { &[ ::proto_vulcan::GoalCast::cast_into(::proto_vulcan::relation::fail()) ] };",
      "let output = quote! { &[ ::proto_vulcan::GoalCast::cast_into(::proto_vulcan::relation::succeed()) ] };",
      {"C14": "ClauseInOperator|variant=Fail"}),
    M("c14-inner-improper-as-proper", ["C14"], "macros/src/lib.rs",
      """            TreeTerm::ImproperList { items } => {
                let items: Vec<&InnerTreeTerm> = items.iter().collect();
                let output = quote! { ::proto_vulcan::lterm::LTerm::improper_from_array( &[ #(#items),* ] ) };
                output.to_tokens(tokens);
            }
            TreeTerm::ProperList { items } => {
                let items: Vec<&InnerTreeTerm> = items.iter().collect();
                let output =
                    quote! { ::proto_vulcan::lterm::LTerm::from_array( &[ #(#items),* ] ) };""",
      """            TreeTerm::ImproperList { items } => {
                let items: Vec<&InnerTreeTerm> = items.iter().collect();
                let output = quote! { ::proto_vulcan::lterm::LTerm::from_array( &[ #(#items),* ] ) };
                output.to_tokens(tokens);
            }
            TreeTerm::ProperList { items } => {
                let items: Vec<&InnerTreeTerm> = items.iter().collect();
                let output =
                    quote! { ::proto_vulcan::lterm::LTerm::from_array( &[ #(#items),* ] ) };""",
      {"C14": "InnerTreeTerm|variant=ImproperList"}),
    M("c14-query-vars-rev", ["C14"], "macros/src/lib.rs",
      "let query: Vec<Ident> = self.variables.iter().map(|x| &x.name).cloned().collect();",
      "let query: Vec<Ident> = self.variables.iter().rev().map(|x| &x.name).cloned().collect();",
      {"C14": "list-discipline"}),
    M("c14-from-vec-next-back", ["C14"], "macros/src/lib.rs",
      "#( #query: vi.next().unwrap(), )*", "#( #query: vi.next_back().unwrap(), )*",
      {"C14": "from_vec-positional"}),
    M("c14-litbool-inverted", ["C14"], "macros/src/lib.rs",
      "            if b.value {\n                Ok(Clause::Succeed(b))", "            if !b.value {\n                Ok(Clause::Succeed(b))",
      {"C14": "Clause::parse|literal"}),
    M("c14-improper-flag-kept", ["C14"], "macros/src/lib.rs",
      "                    is_proper = false;", "                    is_proper = true;",
      {"C14": "improper-on-bar"}),
    M("c14-fresh-body-rev", ["C14"], "macros/src/lib.rs",
      "self.variables.iter().map(|x| &x.path).cloned().collect();\n        let body: Vec<&Clause> = self.body.iter().collect();\n        let output = quote! {{\n            #( let #variables: #variable_types",
      "self.variables.iter().map(|x| &x.path).cloned().collect();\n        let body: Vec<&Clause> = self.body.iter().rev().collect();\n        let output = quote! {{\n            #( let #variables: #variable_types",
      {"C14": "list-discipline"}),
    M("c14-inferredconj-from-array-norev", ["C14"], "src/operator/conj.rs",
      "        let mut p = G::succeed();\n        for g in goals.to_vec().drain(..).rev() {",
      "        let mut p = G::succeed();\n        for g in goals.to_vec().drain(..) {",
      {"C14": "conjunction-builder"}),
    M("c14-loop-emits-conde", ["C14"], "macros/src/lib.rs",
      "::proto_vulcan::operator::anyo::anyo(::proto_vulcan::operator::OperatorParam::new( &[ #( #body ),* ] ))",
      "::proto_vulcan::operator::conde::conde(::proto_vulcan::operator::OperatorParam::new( &[ #( #body ),* ] ))",
      {"C14": "construct|Loop"}),
    M("c14-diseq-solve-unifies", ["C14"], "src/relation/diseq.rs",
      "        match state.disunify(&self.u, &self.v) {", "        match state.unify(&self.u, &self.v) {",
      {"C14": "diseq|solve-calls"}),
    M("silent-c14-rename-local", ["C14"], "macros/src/lib.rs",
      "        let body: Vec<&Clause> = self.body.iter().collect();\n        let output = quote! { &[ #( ::proto_vulcan::GoalCast::cast_into(#body) ),* ] };",
      "        let goals: Vec<&Clause> = self.body.iter().collect();\n        let output = quote! { &[ #( ::proto_vulcan::GoalCast::cast_into(#goals) ),* ] };",
      silent=True),
    M("silent-c14-eq-operands-swapped", ["C14"], "macros/src/lib.rs",
      "let output = quote! { ::proto_vulcan::relation::eq::eq ( #left, #right ) };",
      "let output = quote! { ::proto_vulcan::relation::eq::eq ( #right, #left ) };",
      silent=True),
    M("silent-c14-no-empty-list-split", ["C14"], "macros/src/lib.rs",
      "                if items.is_empty() {\n                    output = quote! { ::proto_vulcan::lterm::LTerm::empty_list() };\n                } else {\n                    output =\n                        quote! { ::proto_vulcan::lterm::LTerm::from_array( &[ #(#items),* ] ) };\n                }",
      "                output = quote! { ::proto_vulcan::lterm::LTerm::from_array( &[ #(#items),* ] ) };",
      silent=True),
    # ---- C12 / C13 / C15 / C20 -------------------------------------------------------------
    M("c12-everyg-skip-first", ["C12"], "src/operator/everyg.rs",
      "let goal_iter = term_iter.map(|term| (*self.g)(term.clone()));",
      "let goal_iter = term_iter.skip(1).map(|term| (*self.g)(term.clone()));",
      {"C12": "every-element-once"}),
    M("c12-from-iter-unit-fail", ["C12"], "src/operator/conj.rs",
      "        let mut p = G::succeed();\n        for g in iter {",
      "        let mut p = G::fail();\n        for g in iter {",
      {"C12": "unit-is-succeed"}),
    M("c12-for-body-outside-closure", ["C12"], "macros/src/lib.rs",
      "Box::new(|#pattern| ::proto_vulcan::GoalCast::cast_into(::proto_vulcan::operator::conj::InferredConj::from_conjunctions(&[ #( #body ),* ]))),",
      "Box::new(|#pattern| ::proto_vulcan::GoalCast::cast_into(::proto_vulcan::operator::conj::InferredConj::from_conjunctions(&[ #( #body ),* ][1..]))),",
      {"C12": "For"}),
    M("c13-term-alias-after-vars", ["C13", "C15"], "macros/src/lib.rs",
      """                        let __term__ = #term;
                        // Define new variables found in the pattern
                        #( let #vars = ::proto_vulcan::lterm::LTerm::var(stringify!(#vars)); )*
                        #( let #compounds = ::proto_vulcan::compound::CompoundTerm::new_var(stringify!(#compounds)); )*
                        let __pattern__ = #patterns;
                        [::proto_vulcan::GoalCast::cast_into(
                            ::proto_vulcan::relation::eq(__term__, __pattern__)),
                         #clauses]
                    } ),* ],
                )
            }
        } else {""",
      """                        // Define new variables found in the pattern
                        #( let #vars = ::proto_vulcan::lterm::LTerm::var(stringify!(#vars)); )*
                        #( let #compounds = ::proto_vulcan::compound::CompoundTerm::new_var(stringify!(#compounds)); )*
                        let __term__ = #term;
                        let __pattern__ = #patterns;
                        [::proto_vulcan::GoalCast::cast_into(
                            ::proto_vulcan::relation::eq(__term__, __pattern__)),
                         #clauses]
                    } ),* ],
                )
            }
        } else {""",
      {"C13": "arm-block|match", "C15": "creation-per-scope"}),
    M("c13-arm-clauses-skip-first", ["C13"], "macros/src/lib.rs",
      "                for clause in arm.body.iter() {\n                    let tokens = quote! {",
      "                for clause in arm.body.iter().skip(1) {\n                    let tokens = quote! {",
      {"C13": "list=clauses"}),
    M("c13-compound-wildcard-shared", ["C13"], "macros/src/lib.rs",
      "                TreeTerm::Any(_) => {\n                    let output = quote! { ::proto_vulcan::compound::CompoundTerm::new_wildcard() };\n                    output.to_tokens(tokens);\n                }\n                term if term.is_empty() => {\n                    let output = quote! { ::proto_vulcan::compound::CompoundTerm::new_none() };",
      "                TreeTerm::Any(_) => {\n                    let output = quote! { ::proto_vulcan::compound::CompoundTerm::new_none() };\n                    output.to_tokens(tokens);\n                }\n                term if term.is_empty() => {\n                    let output = quote! { ::proto_vulcan::compound::CompoundTerm::new_none() };",
      {"C13": "CompoundArgument|Any"}),
    M("c15-var-reuses-id", ["C15"], "src/lterm.rs",
      "    pub fn any() -> LTerm<U, E> {\n        LTerm {\n            inner: Rc::new(LTermInner::Var(VarID::new(), \"_\")),",
      "    pub fn any() -> LTerm<U, E> {\n        LTerm {\n            inner: Rc::new(LTermInner::Var(VarID(0), \"_\")),",
      {"C15": "unique-ids"}),
    M("c15-name-used-in-eq", ["C15"], "src/lterm.rs",
      "            (LTermInner::Var(self_uid, _), LTermInner::Var(other_uid, _)) => self_uid == other_uid,",
      "            (LTermInner::Var(self_uid, a), LTermInner::Var(other_uid, b)) => self_uid == other_uid && a == b,",
      {"C15": "reads-name"}),
    M("c15-closure-body-hoisted", ["C15", "C14"], "macros/src/lib.rs",
      """        let output = quote! {{
            ::proto_vulcan::operator::closure::Closure::new(
                ::proto_vulcan::operator::ClosureOperatorParam::new(
                    Box::new(move || ::proto_vulcan::GoalCast::cast_into(::proto_vulcan::operator::conj::InferredConj::from_array( &[ #( ::proto_vulcan::GoalCast::cast_into( #body ) ),* ] ) ))
                )
            )
        }};""",
      """        let output = quote! {{
            let __goal__ = ::proto_vulcan::GoalCast::cast_into(::proto_vulcan::operator::conj::InferredConj::from_array( &[ #( ::proto_vulcan::GoalCast::cast_into( #body ) ),* ] ) );
            ::proto_vulcan::operator::closure::Closure::new(
                ::proto_vulcan::operator::ClosureOperatorParam::new(
                    Box::new(move || ::std::clone::Clone::clone(&__goal__))
                )
            )
        }};""",
      {"C15": "creation-per-unfolding", "C14": "construct|Closure"}),
    M("c20-derive-eq-cross-fields", ["C20"], "macros/src/lib.rs",
      "                    #( ::std::cmp::PartialEq::eq(&self.#field_indices, &other.#field_indices) &&)* true",
      "                    #( ::std::cmp::PartialEq::eq(&self.#field_indices, &self.#field_indices) &&)* true",
      {"C20": "PartialEq::eq|pairwise"}),
    M("c20-derive-children-skip", ["C20"], "macros/src/lib.rs",
      "    let field_names: Vec<syn::Ident> = itemstruct\n        .fields\n        .iter()\n        .map(",
      "    let field_names: Vec<syn::Ident> = itemstruct\n        .fields\n        .iter()\n        .skip(1)\n        .map(",
      {"C20": "field-list-complete"}),
    M("c20-tuple-children-one", ["C20"], "src/compound.rs",
      "            &self.0 as &dyn CompoundObject<U, E>,\n            &self.1 as &dyn CompoundObject<U, E>,",
      "            &self.0 as &dyn CompoundObject<U, E>,\n            &self.0 as &dyn CompoundObject<U, E>,",
      {"C20": "tuple|children"}),
    M("c20-option-none-not-empty", ["C20"], "src/compound.rs",
      "            None => LTerm::empty_list(),\n        }\n    }\n}\n\nimpl<U, E> CompoundTerm<U, E> for LTerm<U, E>",
      "            None => LTerm::any(),\n        }\n    }\n}\n\nimpl<U, E> CompoundTerm<U, E> for LTerm<U, E>",
      {"C20": "Option|into-term"}),
    M("silent-c13-lets-order", ["C13", "C15"], "macros/src/lib.rs",
      """                        #( let #vars = ::proto_vulcan::lterm::LTerm::var(stringify!(#vars)); )*
                        #( let #compounds = ::proto_vulcan::compound::CompoundTerm::new_var(stringify!(#compounds)); )*
                        let __pattern__ = #patterns;
                        [::proto_vulcan::GoalCast::cast_into(
                            ::proto_vulcan::relation::eq(__term__, __pattern__)),
                         #clauses]
                    } ),* ],
                )
            }
        } else {""",
      """                        #( let #compounds = ::proto_vulcan::compound::CompoundTerm::new_var(stringify!(#compounds)); )*
                        #( let #vars = ::proto_vulcan::lterm::LTerm::var(stringify!(#vars)); )*
                        let __pattern__ = #patterns;
                        [::proto_vulcan::GoalCast::cast_into(
                            ::proto_vulcan::relation::eq(__term__, __pattern__)),
                         #clauses]
                    } ),* ],
                )
            }
        } else {""",
      silent=True),
    M("silent-c12-rename-closure-local", ["C12"], "src/operator/everyg.rs",
      "        let term_iter = IntoIterator::into_iter(&self.coll);\n        let goal_iter = term_iter.map(|term| (*self.g)(term.clone()));\n        InferredConj::from_iter(goal_iter).goal.solve(solver, state)",
      "        let elements = (&self.coll).into_iter();\n        let goals = elements.map(|t| (self.g)(t.clone()));\n        let conjunction = InferredConj::from_iter(goals);\n        conjunction.goal.solve(solver, state)",
      silent=True),
    # ---- C09: reverse of fix aa63fca --------------------------------------------------------
    M("c09-hidden-vars-hash-order", ["C09"], "src/state/reification.rs",
      "            hidden.sort_by_key(|v| match v.as_ref() {\n                LTermInner::Var(id, _) => Some(*id),\n                _ => None,\n            });\n",
      "",
      {"C09": "hash-order-into-committed-choice"}),
    # ---- behaviour-preserving edits for the kind tables / shared rules -------------------------
    M("silent-is-list-arm-order", ["C21", "C01"], "src/lterm.rs",
      "            LTermInner::Empty => true,\n            LTermInner::Cons(_, _) => true,\n            _ => false,",
      "            LTermInner::Cons(_, _) | LTermInner::Empty => true,\n            _ => false,",
      silent=True),
    M("silent-goal-solve-arm-order", ["C06", "C14"], "src/goal.rs",
      "            Goal::Succeed => Stream::unit(Box::new(state)),\n            Goal::Fail => Stream::empty(),\n            Goal::Breakpoint(_) => Stream::unit(Box::new(state)),",
      "            Goal::Fail => Stream::empty(),\n            Goal::Succeed | Goal::Breakpoint(_) => Stream::unit(Box::new(state)),",
      silent=True),
    M("silent-conde-builder-rename", ["C13", "C14", "C05", "C06"], "src/operator/conde.rs",
      "        for conjunction_goals in goals {\n            conjunctions.push(GoalCast::cast_into(InferredConj::from_array(\n                conjunction_goals,\n            )));\n        }",
      "        for clause in goals.iter() {\n            let conjunction = InferredConj::from_array(clause);\n            conjunctions.push(GoalCast::cast_into(conjunction));\n        }",
      silent=True),
    M("silent-is-improper-as-match", ["C21"], "src/lterm.rs",
      "                if tail.is_empty() {\n                    false\n                } else {\n                    if tail.is_list() {\n                        tail.is_improper()\n                    } else {\n                        true\n                    }\n                }",
      "                match tail.as_ref() {\n                    LTermInner::Empty => false,\n                    LTermInner::Cons(_, _) => tail.is_improper(),\n                    _ => true,\n                }",
      silent=True),
    M("silent-verify-all-bound-rename", ["C16", "C23"], "src/state/mod.rs",
      "                let uwalk = self.smap_ref().walk(u);\n                if uwalk.is_var() && !self.dstore_ref().contains_key(uwalk) {",
      "                let representative = self.smap_ref().walk(u);\n                if representative.is_var() && !self.dstore_ref().contains_key(representative) {",
      silent=True),
    M("silent-plusfd-ctor-field-order", ["C16"], "src/relation/clpfd/plusfd.rs",
      "        InferredGoal::new(G::dynamic(Rc::new(PlusFd { u, v, w })))",
      "        InferredGoal::new(G::dynamic(Rc::new(PlusFd { w, v, u })))",
      silent=True),
    # ---- round 4: value-level slips (one operand / seed / default / type changed, shape kept) -------
    M("c02-run-rechecks-each-pair-alone", ["C02", "C04"], "src/relation/diseq.rs",
      "                Ok(new_state) => test_state = new_state,",
      "                Ok(_) => test_state = state.clone(),",
      {"C02": "threads-unified-state", "C04": "threads-unified-state"}),
    M("c02-subsumes-state-not-threaded", ["C02"], "src/relation/diseq.rs",
      "                        Ok(s) => state = s,",
      "                        Ok(_) => state = State::new(Default::default()).with_smap(other.smap_ref().clone()),",
      {"C02": "subsumes"}),
    M("c04-implied-default-true", ["C04", "C02", "C19"], "src/state/constraint/store.rs",
      ".map_or(false, |tree_storec| tree_storec.subsumes(tree_newc))",
      ".map_or(true, |tree_storec| tree_storec.subsumes(tree_newc))",
      {"C04": "new-left-out", "C02": "new-left-out", "C19": "new-left-out"}),
    M("c03-operands-lists-key-twice", ["C03", "C23"], "src/state/substitution.rs",
      "            operands.push(k.clone());\n            if v.is_var() {\n                operands.push(v.clone());",
      "            operands.push(k.clone());\n            if v.is_var() {\n                operands.push(k.clone());",
      {"C03": "operands-complete", "C23": "operands-complete"}),
    M("c03-plusfd-operands-u-twice", ["C03", "C23"], "src/relation/clpfd/plusfd.rs",
      "        vec![self.u.clone(), self.v.clone(), self.w.clone()]",
      "        vec![self.u.clone(), self.u.clone(), self.w.clone()]",
      {"C03": "PlusFdConstraint|lists", "C23": "PlusFdConstraint|lists"}),
    M("c05-or-pattern-alternatives-reversed", ["C05", "C13", "C14"], "macros/src/lib.rs",
      "            let pattern: Pattern = input.parse()?;\n            patterns.push(pattern);",
      "            let pattern: Pattern = input.parse()?;\n            patterns.insert(0, pattern);",
      {"C05": "front-end-only-appends", "C13": "front-end-only-appends", "C14": "front-end-only-appends"}),
    M("c08-conj-from-vec-swapped", ["C08", "C14", "C06"], "src/operator/conj.rs",
      "        let mut p = Goal::succeed();\n        for g in v.drain(..).rev() {\n            p = Conj::new(g, p);",
      "        let mut p = Goal::succeed();\n        for g in v.drain(..).rev() {\n            p = Conj::new(p, g);",
      {"C08": "builders", "C14": "builders", "C06": "builders"}),
    M("c10-dfsdisj-from-conjunctions-seed", ["C10", "C05", "C06"], "src/operator/disj.rs",
      "    pub fn from_conjunctions(conjunctions: &[&[DFSGoal<U, E>]]) -> DFSGoal<U, E> {\n        let mut p = DFSGoal::fail();",
      "    pub fn from_conjunctions(conjunctions: &[&[DFSGoal<U, E>]]) -> DFSGoal<U, E> {\n        let mut p = DFSGoal::succeed();",
      {"C10": "unit=fail", "C05": "", "C06": "unit=fail"}),
    M("c07-matche-depth-first", ["C07", "C05", "C06"], "src/operator/matche.rs",
      "pub fn matche<U, E>(param: PatternMatchOperatorParam<U, E, Goal<U, E>>) -> Goal<U, E>",
      "pub fn matche<U, E>(param: PatternMatchOperatorParam<U, E, crate::goal::DFSGoal<U, E>>) -> crate::goal::DFSGoal<U, E>",
      {"C07": "operator-search-kind", "C05": "operator-search-kind", "C06": "operator-search-kind"}),
    M("c07-conde-from-array-one-conjunction", ["C07", "C06"], "src/operator/conde.rs",
      "        InferredGoal::new(G::dynamic(Rc::new(Conde {\n            conjunctions: goals.to_vec(),\n            _phantom: PhantomData,\n            _phantom2: PhantomData,\n        })))",
      "        Conde::from_conjunctions(&[goals])",
      {"C07": "one-branch-per-goal", "C06": "one-branch-per-goal"}),
    M("c04-timesfd-quotient-bound", ["C04", "C17"], "src/relation/clpfd/timesfd.rs",
      "                        wmax.checked_div(umin).unwrap_or(vmax),",
      "                        wmax.checked_div(umax).unwrap_or(vmax),",
      {"C04": "sound-bounds", "C17": "sound-bounds"}),
    M("c11-pair-walk-star-first-twice", ["C11", "C20"], "src/compound.rs",
      "(smap.walk_star(&self.0), smap.walk_star(&self.1))",
      "(smap.walk_star(&self.0), smap.walk_star(&self.0))",
      {"C11": "library-impls", "C20": "library-impls"}),
    M("c12-iter-stops-at-nil-element", ["C12", "C21"], "src/lterm.rs",
      "            Some(LTermInner::Cons(head, tail)) => {\n                if tail.is_empty() {\n                    // The iterator has finished the list after this one",
      "            Some(LTermInner::Cons(head, tail)) => {\n                if head.is_empty() {\n                    // The iterator has finished the list after this one",
      {"C12": "sibling-iterators", "C21": "sibling-iterators"}),
    M("c06-false-clause-succeeds", ["C06", "C14"], "macros/src/lib.rs",
      "quote! { &[ ::proto_vulcan::GoalCast::cast_into(::proto_vulcan::relation::fail()) ] }",
      "quote! { &[ ::proto_vulcan::GoalCast::cast_into(::proto_vulcan::relation::succeed()) ] }",
      {"C06": "clause-table", "C14": "clause-table"}),
    # behaviour-preserving counterparts
    M("silent-implied-as-is-some-and", ["C02", "C04", "C19"], "src/state/constraint/store.rs",
      ".map_or(false, |tree_storec| tree_storec.subsumes(tree_newc))",
      ".is_some_and(|tree_storec| tree_storec.subsumes(tree_newc))",
      silent=True),
    M("silent-operands-renamed", ["C03", "C23"], "src/state/substitution.rs",
      "        let mut operands = vec![];\n        for (k, v) in self.0.iter() {\n            operands.push(k.clone());\n            if v.is_var() {\n                operands.push(v.clone());\n            }\n        }\n        operands",
      "        let mut out = Vec::new();\n        for (key, value) in self.0.iter() {\n            out.push(key.clone());\n            if value.is_var() {\n                out.push(value.clone());\n            }\n        }\n        out",
      silent=True),
    M("silent-conde-from-array-collect", ["C07", "C06", "C13"], "src/operator/conde.rs",
      "            conjunctions: goals.to_vec(),",
      "            conjunctions: goals.iter().cloned().collect(),",
      silent=True),
    # reverse of fix commits F17 / F18
    M("c18-copy-before-saturating", ["C18"], "src/state/fd.rs",
      "                Some(u) => match u.checked_sub(1) {\n                    Some(last) if *r.start() <= last => {\n                        Some(FiniteDomain::Interval(*r.start()..=last))\n                    }\n                    _ => None,\n                },",
      "                Some(u) => {\n                    let r = *r.start()..=u.saturating_sub(1);\n                    if r.is_empty() {\n                        None\n                    } else {\n                        Some(FiniteDomain::Interval(r))\n                    }\n                }",
      {"C18": "saturating_sub"}),
    M("c20-option-term-wrapped-opaque", ["C20", "C11", "C21"], "src/compound.rs",
      "            Some(x) => match x.as_term() {\n                // A term is its own upcast. Wrapped as an opaque object it would have no\n                // children, and `Some(1)` would unify with `Some(2)`.\n                Some(term) => term.clone(),\n                None => LTerm::from(Rc::new(x) as Rc<dyn CompoundObject<U, E>>),\n            },",
      "            Some(x) => LTerm::from(Rc::new(x) as Rc<dyn CompoundObject<U, E>>),",
      {"C20": "term-payload-is-not-wrapped", "C11": "term-payload-is-not-wrapped", "C21": "term-payload-is-not-wrapped"}),
    M("c18-merge-cursor-steps-backwards", ["C18", "C09"], "src/state/fd.rs",
      "                        (Some(s), Some(o)) if s > o => maybe_o = oiter.next(),\n                        (Some(s), Some(o)) if s == o => {\n                            maybe_o = oiter.next();\n                            maybe_s = siter.next();\n                            intersection.push(s);",
      "                        (Some(s), Some(o)) if s > o => maybe_o = oiter.next_back(),\n                        (Some(s), Some(o)) if s == o => {\n                            maybe_o = oiter.next();\n                            maybe_s = siter.next();\n                            intersection.push(s);",
      {"C18": "cursor-steps-forward", "C09": "cursor-steps-forward"}),
    # ---- round 5: the slip is in a helper / conversion / trait impl the anchored code relies on ------
    M("c20-compound-hash-own-hasher", ["C20", "C21"], "src/compound.rs",
      "    fn compound_hash(&self, mut state: &mut dyn Hasher) {\n        self.hash(&mut state);\n    }",
      "    fn compound_hash(&self, state: &mut dyn Hasher) {\n        let mut hasher = std::hash::BuildHasher::build_hasher(&std::collections::hash_map::RandomState::new());\n        self.hash(&mut hasher);\n        state.write_u64(hasher.finish());\n    }",
      {"C20": "library-impls", "C21": "library-impls"}),
    M("c09-labelling-sort-keyed-on-name", ["C09"], "src/state/reification.rs",
      "                LTermInner::Var(id, _) => Some(*id),",
      "                LTermInner::Var(_, name) => Some(*name),",
      {"C09": "sort-key-is-the-variable-id"}),
    M("c20-is-term-flipped", ["C20", "C01"], "src/compound.rs",
      "        match self.as_term() {\n            Some(_) => true,\n            None => false,\n        }",
      "        match self.as_term() {\n            Some(_) => false,\n            None => true,\n        }",
      {"C20": "is_term", "C01": "is_term"}),
    M("c21-user-terms-equal-when-different", ["C21"], "src/lterm.rs",
      "(LTermInner::User(self_user), LTermInner::User(other_user)) => self_user == other_user,",
      "(LTermInner::User(self_user), LTermInner::User(other_user)) => self_user != other_user,",
      {"C21": "eq-hash"}),
    M("c21-number-literal-eq-default-true", ["C21"], "src/lterm.rs",
      "    fn eq(&self, other: &isize) -> bool {\n        match self.as_ref() {\n            LTermInner::Val(LValue::Number(x)) => x == other,\n            _ => false,",
      "    fn eq(&self, other: &isize) -> bool {\n        match self.as_ref() {\n            LTermInner::Val(LValue::Number(x)) => x == other,\n            _ => true,",
      {"C21": "literal-comparisons"}),
    M("c23-minusfd-assert-unsatisfiable", ["C23"], "src/relation/clpfd/minusfd.rs",
      "        assert!(u.is_var() || u.is_number());",
      "        assert!(u.is_var() && u.is_number());",
      {"C23": "precondition-asserts"}),
    M("c19-rerun-only-if-extension-mentions-operand", ["C19", "C04"], "src/state/mod.rs",
      "    fn process_extension_diseq(self, _extension: &SMap<U, E>) -> SResult<U, E> {\n        self.run_constraints()",
      "    fn process_extension_diseq(self, extension: &SMap<U, E>) -> SResult<U, E> {\n        if self.cstore_ref().relevant(&extension.operands()).next().is_none() {\n            return Ok(self);\n        }\n        self.run_constraints()",
      {"C19": "rerun-after-binding", "C04": "reruns"}),
    M("c09-disj-depth-first-merge", ["C09", "C07", "C10"], "src/operator/disj.rs",
      "        Stream::lazy_mplus(\n            LazyStream::pause(Box::new(state.clone()), self.goal_1.clone()),",
      "        Stream::lazy_mplus_dfs(\n            LazyStream::pause(Box::new(state.clone()), self.goal_1.clone()),",
      {"C09": "K3.disj", "C07": "K3.disj", "C10": "K3.disj"}),
    M("c03-is-constrained-never", ["C03"], "src/lresult.rs",
      "        self.constraints().any(|_| true)",
      "        self.constraints().any(|_| false)",
      {"C03": "iff-some-constraint"}),
    M("c12-project-shallow-walk", ["C12", "C11"], "src/operator/project.rs",
      "            v.project(|x| state.smap_ref().walk_star(x));",
      "            v.project(|x| state.smap_ref().walk(x).clone());",
      {"C12": "what-is-projected", "C11": "what-is-projected"}),
    M("c08-conj-new-keeps-the-true", ["C08", "C13", "C06"], "src/operator/conj.rs",
      "    pub fn new(goal_1: Goal<U, E>, goal_2: Goal<U, E>) -> Goal<U, E> {\n        if goal_1.is_succeed() && goal_2.is_succeed() {\n            return Goal::succeed();\n        }",
      "    pub fn new(goal_1: Goal<U, E>, goal_2: Goal<U, E>) -> Goal<U, E> {\n        if goal_1.is_succeed() {\n            return goal_1;\n        }",
      {"C08": "conj-new", "C13": "conj-new", "C06": "conj-new"}),
    M("c17-infd-builds-sparse-directly", ["C17", "C18"], "src/relation/clpfd/infd.rs",
      "    if u.is_list() {\n        let goals = u\n            .iter()\n            .map(|v| DomFd::new(v.clone(), FiniteDomain::from(domain)).cast_into())\n            .collect();\n        InferredConj::from_vec(goals)\n    } else {\n        DomFd::new(u, FiniteDomain::from(domain))\n    }\n}\n\npub fn infdrange",
      "    if u.is_list() {\n        let shared = FiniteDomain::Sparse(domain.to_vec());\n        let goals = u\n            .iter()\n            .map(|v| DomFd::new(v.clone(), shared.clone()).cast_into())\n            .collect();\n        InferredConj::from_vec(goals)\n    } else {\n        DomFd::new(u, FiniteDomain::from(domain))\n    }\n}\n\npub fn infdrange",
      {"C17": "builds-Sparse-directly", "C18": "builds-Sparse-directly"}),
    M("silent-is-term-via-is-some", ["C20", "C01"], "src/compound.rs",
      "        match self.as_term() {\n            Some(_) => true,\n            None => false,\n        }",
      "        self.as_term().is_some()",
      silent=True),
]
