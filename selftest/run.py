#!/usr/bin/env python3
"""Self-test of the checkers (not a registered command).

For each mutant in selftest/mutants.py: copy /repo to a scratch dir, apply the textual edit,
run ./check <prop> against the copy (PV_REPO), require exit 1 and a VIOLATION whose report key
contains the expected substring. `--silent` entries must stay silent (behaviour-preserving edits).
Usage: selftest/run.py [--seeded | --seeded-silent] [id-substring ...] [-j N]
"""
import json
import os
import shutil
import subprocess
import sys
import tempfile
from concurrent.futures import ThreadPoolExecutor

HERE = os.path.dirname(os.path.abspath(__file__))
VERIF = os.path.dirname(HERE)
sys.path.insert(0, HERE)
import mutants  # noqa: E402


def run_one(m):
    d = tempfile.mkdtemp(prefix="pvmut-")
    try:
        repo = os.path.join(d, "repo")
        shutil.copytree(os.environ.get("PV_BASE", "/repo"), repo, ignore=shutil.ignore_patterns("target", ".git"))
        if m.get("patch"):
            r = subprocess.run(["patch", "-p1", "-s", "-i", m["patch"]], cwd=repo, capture_output=True, text=True)
            if r.returncode != 0:
                return (m["id"], "BROKEN-MUTANT", "patch does not apply: %s" % (r.stdout + r.stderr)[-200:])
        for ed in m["edits"]:
            p = os.path.join(repo, ed["file"])
            s = open(p).read()
            if s.count(ed["old"]) != 1:
                return (m["id"], "BROKEN-MUTANT", "old text occurs %d times in %s" % (s.count(ed["old"]), ed["file"]))
            open(p, "w").write(s.replace(ed["old"], ed["new"]))
        env = dict(os.environ, PV_REPO=repo, PV_OUT=os.path.join(d, "out"), PV_CACHE=os.path.join(d, "cache"))
        outs = []
        status = "OK"
        for prop in m["props"]:
            r = subprocess.run([os.path.join(VERIF, "check"), prop], env=env, capture_output=True, text=True, cwd=VERIF)
            out = r.stdout + r.stderr
            keys = []
            for line in out.splitlines():
                if line.startswith("VIOLATION"):
                    rp = line.split("replay=")[1].strip()
                    try:
                        keys.append(json.load(open(rp))["key"])
                    except Exception:
                        keys.append(rp)
            if "cargo check failed" in out:
                status = "BROKEN-MUTANT"
                outs.append("does not compile")
                continue
            if m.get("silent"):
                if r.returncode != 0:
                    status = "FALSE-ALARM"
                    outs.append("%s: %s" % (prop, keys or out[-300:]))
            else:
                exp = m.get("expect", {}).get(prop, "")
                if r.returncode != 1 or not any(exp in k for k in keys):
                    status = "MISSED"
                    outs.append("%s rc=%d keys=%s tail=%s" % (prop, r.returncode, keys[:4], out[-200:] if r.returncode not in (0, 1) else ""))
                else:
                    outs.append("%s caught: %s" % (prop, [k for k in keys if exp in k][:2]))
        return (m["id"], status, "; ".join(outs))
    finally:
        shutil.rmtree(d, ignore_errors=True)


def main():
    args = [a for a in sys.argv[1:] if not a.startswith("-")]
    jobs = 4
    if "-j" in sys.argv:
        jobs = int(sys.argv[sys.argv.index("-j") + 1])
        args = [a for a in args if a != str(jobs)]
    pool = list(mutants.MUTANTS)
    if "--seeded" in sys.argv:
        # regression corpus: every confirmed seeded change must still be caught by the checks that caught it
        import glob

        pool = []
        for d in sorted(glob.glob(os.path.join(VERIF, "seeded", "*"))):
            try:
                meta = json.load(open(os.path.join(d, "meta.json")))
            except Exception:
                continue
            det = meta.get("detected_by") or []
            if not meta.get("valid") or not det:
                continue
            own = meta["property"] if meta["property"] in det else det[0]
            pool.append({"id": "seeded-" + os.path.basename(d), "props": [own], "edits": [], "patch": os.path.join(d, "patch.diff"), "expect": {own: ""}, "silent": False})
    if "--seeded-silent" in sys.argv:
        # regression corpus, other direction: every confirmed behaviour-preserving refactoring that left the checks
        # silent (seeded_silent/*, DESIGN 7.4) must stay silent on the checks that were run on it
        import glob

        pool = []
        for d in sorted(glob.glob(os.path.join(VERIF, "seeded_silent", "*"))):
            try:
                meta = json.load(open(os.path.join(d, "meta.json")))
            except Exception:
                continue
            if meta.get("valid") and meta.get("alarms") == {}:
                pool.append({"id": "silent-" + os.path.basename(d), "props": meta.get("checks_run") or [meta["property"]], "edits": [], "patch": os.path.join(d, "patch.diff"), "expect": {}, "silent": True})
    ms = [m for m in pool if not args or any(a in m["id"] for a in args)]
    bad = 0
    with ThreadPoolExecutor(max_workers=jobs) as ex:
        for mid, status, info in ex.map(run_one, ms):
            print("%-12s %-40s %s" % (status, mid, info[:300]))
            if status != "OK":
                bad += 1
    print("%d mutants, %d not as expected" % (len(ms), bad))
    sys.exit(1 if bad else 0)


if __name__ == "__main__":
    main()
