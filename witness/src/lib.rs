//! Compile-fail witnesses (rule kind K13). Each witness is a `compile_fail,E0xxx` doc-test that names
//! proto-vulcan as an external user would, paired with a compiling twin that differs only in the
//! offending line (a witness whose path is merely wrong would also "fail to compile" and pass).
//! Run with `cargo +nightly test --doc --offline` (the stable toolchain ignores the error code).
//! Nothing here calls into the solver: the tests only have to type-check (`no_run` twins).

/// W1 (C05): an interleaving `conde` must not type-check inside a depth-first `dfs` block - there
/// is no `GoalCast<Goal -> DFSGoal>`.
/// ```compile_fail,E0308
/// use proto_vulcan::prelude::*;
/// use proto_vulcan::operator::dfs::dfs;
/// use proto_vulcan::operator::conde::cond;
/// let _g: Goal<DefaultUser, DefaultEngine<DefaultUser>> = proto_vulcan!(dfs { conde { true } });
/// ```
pub mod w1_dfs_barrier {}

/// Twin of W1: the depth-first disjunction `cond` is accepted in the same place.
/// ```no_run
/// use proto_vulcan::prelude::*;
/// use proto_vulcan::operator::dfs::dfs;
/// use proto_vulcan::operator::conde::cond;
/// let _g: Goal<DefaultUser, DefaultEngine<DefaultUser>> = proto_vulcan!(dfs { cond { true } });
/// ```
pub mod w1_dfs_barrier_twin {}

/// W2 (C15): variable identities can only come from the global counter - the tuple constructor of
/// `VarID` is private.
/// ```compile_fail,E0603
/// let _id = proto_vulcan::lterm::VarID(0);
/// ```
pub mod w2_varid_private {}

/// Twin of W2.
/// ```no_run
/// let _id = proto_vulcan::lterm::VarID::new();
/// ```
pub mod w2_varid_private_twin {}

/// W3 (C15): the id counter itself is not reachable from outside the crate.
/// ```compile_fail,E0603
/// let _c = &proto_vulcan::lterm::UNIQUE_ID_COUNTER;
/// ```
pub mod w3_counter_private {}

/// Twin of W3: the module path is right (a public item of the same module resolves).
/// ```no_run
/// let _t: proto_vulcan::lterm::LTerm = proto_vulcan::lterm::LTerm::any();
/// ```
pub mod w3_counter_private_twin {}

/// W4 (C10): a `State` is not `Copy` - a search branch that wants to keep using a state after
/// handing it on has to `clone()` it explicitly (use after move is rejected).
/// ```compile_fail,E0382
/// use proto_vulcan::prelude::*;
/// use proto_vulcan::state::State;
/// fn take(_s: State<DefaultUser, DefaultEngine<DefaultUser>>) {}
/// let s: State<DefaultUser, DefaultEngine<DefaultUser>> = State::new(Default::default());
/// take(s);
/// take(s);
/// ```
pub mod w4_state_not_copy {}

/// Twin of W4.
/// ```no_run
/// use proto_vulcan::prelude::*;
/// use proto_vulcan::state::State;
/// fn take(_s: State<DefaultUser, DefaultEngine<DefaultUser>>) {}
/// let s: State<DefaultUser, DefaultEngine<DefaultUser>> = State::new(Default::default());
/// take(s.clone());
/// take(s);
/// ```
pub mod w4_state_not_copy_twin {}

/// W5 (C10): the substitution of a state cannot be replaced in place from outside - its fields are
/// not writable through a shared reference (no interior mutability is exposed).
/// ```compile_fail,E0594
/// use proto_vulcan::prelude::*;
/// use proto_vulcan::state::{State, SMap};
/// fn poke(s: &State<DefaultUser, DefaultEngine<DefaultUser>>) { s.smap = std::rc::Rc::new(SMap::new()); }
/// ```
pub mod w5_state_shared_ref_readonly {}

/// Twin of W5: with a unique reference the same assignment is accepted.
/// ```no_run
/// use proto_vulcan::prelude::*;
/// use proto_vulcan::state::{State, SMap};
/// fn poke(s: &mut State<DefaultUser, DefaultEngine<DefaultUser>>) { s.smap = std::rc::Rc::new(SMap::new()); }
/// ```
pub mod w5_state_shared_ref_readonly_twin {}

/// W6 (C22): the constraint store of a state is a private field - user code can reach it only
/// through `with_constraint` / `take_constraint`, which run the user hooks.
/// ```compile_fail,E0616
/// use proto_vulcan::prelude::*;
/// use proto_vulcan::state::State;
/// fn peek(s: &State<DefaultUser, DefaultEngine<DefaultUser>>) { let _ = &s.cstore; }
/// ```
pub mod w6_cstore_private {}

/// Twin of W6: a public field of the same struct is readable in the same way.
/// ```no_run
/// use proto_vulcan::prelude::*;
/// use proto_vulcan::state::State;
/// fn peek(s: &State<DefaultUser, DefaultEngine<DefaultUser>>) { let _ = &s.smap; }
/// ```
pub mod w6_cstore_private_twin {}
