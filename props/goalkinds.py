"""Shared rule: the four goal kinds (Succeed, Fail, Breakpoint, Dynamic) mean what every other table
assumes.  `succeed()` / `fail()` / `dynamic(x)` build their own variant; `is_succeed` / `is_fail` answer
true for exactly that variant (the constant folding of Conj::new / Disj::new rests on them); solving
Succeed yields exactly the incoming state, Fail nothing, Dynamic(d) what d.solve yields; casting a goal
between kinds (DFSGoal -> Goal, InferredGoal<G> -> G, identity) keeps the variant and its payload.
Decided by finite case analysis over the enum's variants (explicit arms + the complement covered by a
wildcard arm)."""
import streams
import sym
import tables
from report import site_of
from sym import show, suffix_match


def _variants(lib, adt_path):
    adt = lib.adts.get(adt_path)
    return [v.get("name") for v in (adt or {}).get("variants", [])]


def _arm_table(m, variants):
    """variant -> result term of the arm that handles it (wildcard arms cover the complement)."""
    out = {}
    for p, g, b in m[2]:
        if g is not None:
            return None
        cs = tables.pat_ctors(p)
        if cs == ["*"]:
            for v in variants:
                out.setdefault(v, b)
        else:
            for c in cs:
                out.setdefault(c.split("::")[-1], b)
    return out


def check_goal_kinds(ctx, lib, rule):
    ev = sym.Evaluator(lib, inline=lambda p, f: False)
    for G in ("Goal", "DFSGoal"):
        path = "crate::goal::%s" % G
        V = _variants(lib, path)
        if not ctx.expect(set(V) >= {"Succeed", "Fail", "Dynamic"}, rule, "%s|variants" % G, "src/goal.rs", "cannot enumerate the variants of %s" % G):
            continue
        for meth, want in (("succeed", "Succeed"), ("fail", "Fail")):
            fn = streams.getfn(ctx, lib, rule, "<%s as crate::goal::AnyGoal>::%s" % (path, meth))
            if fn:
                r = tables.result(ev.fn_term(fn))
                ctx.expect(r[0] == "ctor" and r[1].endswith("%s::%s" % (G, want)) and not r[2], rule, "%s::%s|builds=%s" % (G, meth, want), site_of(fn), "%s::%s() must be %s::%s; found %s" % (G, meth, G, want, show(r, maxdepth=3)))
        fn = streams.getfn(ctx, lib, rule, "<%s as crate::goal::AnyGoal>::dynamic" % path)
        if fn:
            r = tables.result(ev.fn_term(fn))
            ctx.expect(r[0] == "ctor" and r[1].endswith("%s::Dynamic" % G) and len(r[2]) == 1 and r[2][0][:2] == ("param", 0), rule, "%s::dynamic|wraps-argument" % G, site_of(fn), "%s::dynamic(x) must be Dynamic(x)" % G)
        for meth, only in (("is_succeed", "Succeed"), ("is_fail", "Fail"), ("is_breakpoint", "Breakpoint")):
            if meth == "is_breakpoint":
                fn = lib.fn("<%s as crate::goal::AnyGoal>::%s" % (path, meth))
                if fn is not None:
                    ctx.fn_seen(fn["npath"])
            else:
                fn = streams.getfn(ctx, lib, rule, "<%s as crate::goal::AnyGoal>::%s" % (path, meth))
            if not fn:
                continue
            t = ev.fn_term(fn)
            eff, m = tables.flatten(t)
            ok = bool(m) and m[0] == "match" and m[1][:2] == ("param", 0)
            why = ""
            if ok:
                tab = _arm_table(m, V)
                ok = tab is not None and set(tab) >= set(V)
                if ok:
                    for v in V:
                        val = str(tables.result(tab[v]))
                        is_true = "true" in val and "false" not in val
                        if is_true != (v == only):
                            ok = False
                            why += " %s->%s" % (v, "true" if is_true else "false")
            elif m and m[0] == "call" and suffix_match(m[1], "matches"):
                ok = False
            ctx.expect(ok, rule, "%s::%s|true-iff=%s" % (G, meth, only), site_of(fn), "%s::%s must be true for %s and false for every other variant;%s" % (G, meth, only, why or " found " + show(t, maxdepth=4)[:160]))
        fn = streams.getfn(ctx, lib, rule, "<%s as crate::goal::AnyGoal>::solve" % path)
        if fn:
            t = ev.fn_term(fn)
            eff, m = tables.flatten(t)
            ok = bool(m) and m[0] == "match" and m[1][:2] == ("param", 0) and not [e for e in eff if not tables.harmless_effect(e)]
            why = ""
            if ok:
                tab = _arm_table(m, V)
                ok = tab is not None and set(tab) >= set(V)
                if ok:
                    for v in V:
                        r = tables.result(tab[v])
                        if v in ("Succeed", "Breakpoint"):
                            good = r[0] in ("call", "ctor") and (suffix_match(r[1], "unit") or r[1].endswith("Stream::Unit")) and len(r[2]) == 1 and r[2][0][:2] == ("param", 2)
                        elif v == "Fail":
                            good = (r[0] == "call" and suffix_match(r[1], "empty") and not r[2]) or (r[0] == "ctor" and r[1].endswith("Stream::Empty"))
                        else:
                            good = r[0] == "call" and suffix_match(r[1], "solve") and len(r[2]) == 3 and r[2][0][0] == "proj" and r[2][0][1] == m[1] and r[2][1][:2] == ("param", 1) and r[2][2][:2] == ("param", 2)
                        if not good:
                            ok = False
                            why += " %s->%s" % (v, show(r, maxdepth=3)[:60])
            ctx.expect(ok, rule, "%s::solve|table" % G, site_of(fn), "%s::solve: Succeed/Breakpoint -> exactly the incoming state, Fail -> nothing, Dynamic(d) -> d.solve(solver, state);%s" % (G, why))
    # casts keep the variant
    fn = streams.getfn(ctx, lib, rule, "<crate::goal::DFSGoal as std::convert::Into<crate::goal::Goal>>::into")
    if fn:
        t = ev.fn_term(fn)
        eff, m = tables.flatten(t)
        V = _variants(lib, "crate::goal::DFSGoal")
        ok = bool(m) and m[0] == "match" and m[1][:2] == ("param", 0)
        why = ""
        if ok:
            tab = _arm_table(m, V)
            ok = tab is not None and set(tab) >= set(V)
            if ok:
                for v in V:
                    r = tables.result(tab[v])
                    good = r[0] == "ctor" and r[1].endswith("Goal::%s" % v) and not r[1].endswith("DFSGoal::%s" % v)
                    if good and r[2]:
                        good = len(r[2]) == 1 and r[2][0][0] == "proj" and r[2][0][1] == m[1]
                    if not good:
                        ok = False
                        why += " %s->%s" % (v, show(r, maxdepth=3)[:60])
        ctx.expect(ok, rule, "DFSGoal->Goal|variant-preserving", site_of(fn), "casting a depth-first goal to the general kind must keep its variant and payload;%s" % why)
    casts = [p for p in lib.fns if p.endswith("::cast_into") and "GoalCast" in p and "hir" in lib.fns[p] and not lib.fns[p].get("in_test_mod")]
    ctx.floor(rule, len(casts), 3, "GoalCast impls")
    for p in sorted(casts):
        fn = lib.fns[p]
        ctx.fn_seen(p)
        r = tables.result(ev.fn_term(fn))
        S = ("param", 0, "self")
        ok = r[:2] == ("param", 0) or (r[0] == "call" and suffix_match(r[1], "into") and len(r[2]) == 1 and r[2][0][:2] == ("param", 0)) or r == ("field", S, "goal") or (r[0] == "call" and suffix_match(r[1], "cast_into") and len(r[2]) == 1 and r[2][0] == ("field", S, "goal"))
        ctx.expect(ok, rule, "%s|identity-or-into" % p, site_of(fn), "a goal cast must hand the goal on unchanged (self, self.into(), self.goal); found %s" % show(r, maxdepth=4)[:160])
