"""C12 - `for x in coll { body }` is the conjunction of its body over the collection.

Decided (structural):
 * `Everyg::solve` (K3): iterates `&self.coll` through 1:1 adaptors only, calls the stored body
   generator once per element (on that element) and solves the conjunction of exactly those goals
   on the incoming state;
 * `InferredConj::from_iter` and its siblings `Conj::from_iter`, `DFSConj::from_iter` (K6): the
   accumulator starts as `succeed`, every item is conjoined, no path skips one - so an empty
   collection is `succeed` (exactly one answer) and n elements give an n-fold conjunction;
 * `{InferredConj, Conj, DFSConj}::new` (K6): both `succeed` -> `succeed`; either `fail` -> `fail`;
   otherwise a node holding parameter 0 as goal_1 and parameter 1 as goal_2 (a "simplification"
   that drops a conjunct would invent answers);
 * `everyg` / `ForOperatorParam::new` / `Everyg::new` keep collection and generator (K3);
 * `For::to_tokens` (K12): the loop variable is the parameter of the closure given to
   `ForOperatorParam::new`, the body (all clauses, in order, each clause array a conjunction) is
   inside that closure; `InferredConj::from_conjunctions` keeps every goal of every clause array.
 (round 4, shared) list iterators stop only at the end of the spine (with C21); all conjunction
   builders (builders.check_all).
 (round 5, shared with C11) a collection handed to `for` through `project` is the walk*-ed list.
"""
import C14
import macrolib
import streams
import sym
import tables
from macrolib import check_adaptors, check_shape
from pat import pat
from report import site_of
from sym import show, suffix_match, unify

EXPLANATION = (
    "Typed-HIR tables for Everyg::solve (1:1 generator over the collection), the from_iter folds and the conjunction node constructors, "
    "plus the syn-extracted template of the `for` construct (loop variable = closure parameter, body inside the closure)."
)
NOT_DECIDED = "equality of the answer multisets with the explicit conjunction for all bodies (needs execution); termination"
TECHNIQUE = "static analysis: typed-HIR provenance / fold tables via rustc_private driver + syntax-tree template rule (syn)"

FOR_SHAPE = ["EVERYG(ForOperatorParam::new(#coll, |#x| CONJC([#(#body),*])))"]


def check_everyg(ctx, lib):
    R = "C12.K3.everyg"
    fn = streams.getfn(ctx, lib, R, "<crate::operator::everyg::Everyg as crate::solver::Solve>::solve")
    if fn:
        t = sym.Evaluator(lib, extra_identity=streams.GOAL_CAST).fn_term(fn)
        key = fn["npath"]
        site = site_of(fn)
        r = tables.result(t)
        ok = r[0] == "call" and suffix_match(r[1], "solve") and len(r[2]) == 3 and r[2][1][:2] == ("param", 1) and r[2][2][:2] == ("param", 2)
        ctx.expect(ok and not [e for e in tables.semis(t) if not tables.harmless_effect(e)], R, key + "|solves-on-incoming-state", site, "Everyg::solve must solve the built conjunction with the given solver and state; found %s" % show(r, maxdepth=4)[:200])
        if ok:
            g = r[2][0]
            while g[0] == "field" and g[2] == "goal":
                g = g[1]
            okb = g[0] == "call" and (suffix_match(g[1], "InferredConj::from_iter") or suffix_match(g[1], "Conj::from_iter")) and len(g[2]) == 1
            ctx.expect(okb, R, key + "|conjunction-of-all", site, "the goals must be combined with a from_iter conjunction; found %s" % show(g, maxdepth=4)[:200])
            if okb:
                src, chain = streams.iter_chain(g[2][0])
                names = [n for n, _ in chain]
                lossy = [n for n in names if n not in streams.ONE_TO_ONE and n != "into_iter"]
                oks = unify(pat("@0.coll"), src) is not None
                ctx.expect(oks and not lossy, R, key + "|every-element-once", site, "the body must be instantiated for every element of self.coll exactly once (1:1 adaptors only); iterates %s through %s" % (show(src, maxdepth=3), names))
                maps = [c for n, c in chain if n == "map"]
                okm = len(maps) == 1 and maps[0][2][1][0] == "closure"
                if okm:
                    clo = maps[0][2][1]
                    body = tables.result(clo[3])
                    elem = ("cparam", clo[1], 0)
                    okm = body[0] == "callv" and body[1] == ("field", ("param", 0, "self"), "g") and len(body[2]) == 1 and body[2][0] == elem and not [e for e in tables.flatten(clo[3])[0] if not tables.harmless_effect(e)]
                ctx.expect(okm, R, key + "|generator-per-element", site, "each element must be passed, as is, to the stored body generator (self.g)(element)")
    fn = streams.getfn(ctx, lib, R, "crate::operator::everyg::everyg")
    if fn:
        t = streams.plain_evaluator(lib).fn_term(fn)
        nodes = [s for s in sym.subterms(t) if s[0] == "struct" and suffix_match(s[1], "everyg::Everyg")]
        ok = len(nodes) == 1
        if ok:
            f = dict(nodes[0][2])
            ok = f.get("coll") == ("field", ("param", 0, "param"), "coll") and f.get("g") == ("field", ("param", 0, "param"), "g")
        ctx.expect(ok, R, "everyg|keeps-param", site_of(fn), "everyg(param) must build Everyg { coll: param.coll, g: param.g }; found %s" % show(t, maxdepth=6)[:200])
    fn = streams.getfn(ctx, lib, R, "crate::operator::ForOperatorParam::new")
    if fn:
        t = streams.plain_evaluator(lib).fn_term(fn)
        nodes = [s for s in sym.subterms(t) if s[0] == "struct" and suffix_match(s[1], "ForOperatorParam")]
        ok = len(nodes) == 1
        if ok:
            f = dict(nodes[0][2])
            ok = f.get("coll", (0, 0))[:2] == ("param", 0) and f.get("g", (0, 0))[:2] == ("param", 1)
        ctx.expect(ok, R, "ForOperatorParam::new|keeps-args", site_of(fn), "ForOperatorParam::new(coll, g) must keep both")


def check_from_iter(ctx, lib):
    R = "C12.K6.from-iter"
    for ty, new in (("InferredConj", "InferredConj::new"), ("Conj", "Conj::new"), ("DFSConj", "DFSConj::new")):
        fn = streams.getfn(ctx, lib, R, "crate::operator::conj::%s::from_iter" % ty)
        if not fn:
            continue
        t = sym.Evaluator(lib, extra_identity=streams.GOAL_CAST).fn_term(fn)
        key = fn["npath"]
        site = site_of(fn)
        fors = list(dict.fromkeys(s for s in sym.subterms(t) if s[0] == "for"))
        if not ctx.expect(len(fors) == 1, R, key + "|shape", site, "expected one fold loop, found %d" % len(fors)):
            continue
        f = fors[0]
        src, chain = streams.iter_chain(f[1])
        lossy = [n for n, _ in chain if n not in streams.ONE_TO_ONE and n != "rev"]
        ctx.expect(src[:2] == ("param", 0) and not lossy, R, key + "|every-item", site, "the fold must consume every item of its iterator; adaptors %s" % [n for n, _ in chain])
        body = [e for e in tables.stmts_of(f[3]) if not tables.harmless_effect(e)]
        ok = len(body) == 1 and body[0][0] == "assign" and body[0][1][0] == "var"
        acc = body[0][1] if ok else None
        if ok:
            news = list(dict.fromkeys(c for c in sym.calls(body[0][2], new)))
            item = ("item", f[1])
            ok = len(news) == 1 and sorted(map(str, news[0][2])) == sorted(map(str, (item, acc)))
        ctx.expect(ok, R, key + "|conjoins-each", site, "each iteration must be acc = %s(item, acc) (either operand order) with nothing skipped; found %s" % (new, show(f[3], maxdepth=5)[:200]))
        if acc is not None:
            inits = [st[2] for s in sym.subterms(t) if s[0] == "seq" for st in s[1] if st[0] == "let" and st[1][0] == "pbind" and st[1][1] == acc[1]]
            inits = list(dict.fromkeys(inits))
            oki = len(inits) == 1 and (any(suffix_match(c[1], "succeed") for c in sym.calls(inits[0])) or any(suffix_match(c[1], "Succeed") for c in sym.ctors(inits[0])))
            ctx.expect(oki, R, key + "|unit-is-succeed", site, "the empty conjunction must be `succeed` (an empty collection succeeds exactly once); starts as %s" % (show(inits[0], maxdepth=4) if inits else "?"))
            res = tables.result(t)
            ctx.expect(any(s == acc for s in sym.subterms(res)) and not [s for s in sym.subterms(t) if s[0] == "ret"], R, key + "|returns-accumulator", site, "the fold's result must be the accumulator")


def check_new(ctx, lib):
    R = "C12.K6.conj-new"
    streams.check_conj_new(ctx, lib, R, "crate::operator::conj::InferredConj::new", "G", "InferredConj")
    streams.check_conj_new(ctx, lib, R, "crate::operator::conj::Conj::new", "Goal", "conj::Conj")
    streams.check_conj_new(ctx, lib, R, "crate::operator::conj::DFSConj::new", "DFSGoal", "DFSConj")


def check_template(ctx, S):
    R = "C12.K12.for-template"
    a = macrolib.single_alt(ctx, S, R, "For")
    if a is None:
        return
    check_shape(ctx, R, "For", a, FOR_SHAPE, {"coll": "self.coll", "x": "self.pattern", "body": "self.body"}, "`for x in coll { body }` = everyg(coll, |x| conjunction(body)): the loop variable is the closure parameter and the whole body is inside the closure")
    check_adaptors(ctx, "C12.K12.list-discipline", "For", a)


def run(ctx, fb, cfg):
    lib = fb.lib
    check_everyg(ctx, lib)
    check_from_iter(ctx, lib)
    check_new(ctx, lib)
    # the array-of-arrays conjunction builder used by the template keeps every goal of every clause
    for tyname, new in (("InferredConj", "InferredConj::new"),):
        C14.check_fold(ctx, lib, "C12.K6.clause-builder", "crate::operator::conj::%s::from_array" % tyname, new)
        C14.check_fold(ctx, lib, "C12.K6.clause-builder", "crate::operator::conj::%s::from_conjunctions" % tyname, new, inner="%s::from_array" % tyname)
    import builders

    builders.check_all(ctx, lib, "C12.K6.builders", only=("Conj", "DFSConj", "InferredConj"))
    # `for x in &coll` over an LTerm list visits every element: the list iterators step head by head and
    # stop only at the end of the spine (shared with C21)
    import C21

    C21.check_iterators(ctx, lib, "C12.K6.sibling-iterators")
    # a collection handed to `for` through `project` is the fully walked list (shared with C11)
    import C11

    C11.check_what_is_projected(ctx, lib, "C12.K3.what-is-projected")
    if cfg == "lib-default":
        S = macrolib.load_sem(ctx, fb)
        if S is not None:
            check_template(ctx, S)
