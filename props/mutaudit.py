"""K9 mutation audit shared by C10 and C11."""
import hirwalk
from facts import norm

CONTAINERS = {
    "std::rc::Rc", "std::boxed::Box", "std::vec::Vec", "std::collections::HashMap", "std::collections::HashSet",
    "std::option::Option", "std::result::Result", "std::ops::RangeInclusive", "std::string::String", "std::marker::PhantomData",
    "std::collections::BTreeMap", "std::collections::BTreeSet", "std::collections::VecDeque", "std::vec::IntoIter", "std::slice::Iter",
    "std::rc::Weak", "std::ops::Range", "std::collections::hash_map::RandomState", "std::alloc::Global", "std::hash::RandomState",
    "std::iter::Peekable", "std::iter::Rev", "std::iter::Map", "std::iter::Cloned", "std::iter::Copied",
}
FORBIDDEN_SUBSTR = ("UnsafeCell", "::Cell", "RefCell", "OnceCell", "OnceLock", "LazyCell", "LazyLock", "Mutex", "RwLock", "sync::atomic", "Atomic", "Condvar")

ROOT_ADTS = [
    "crate::state::State", "crate::state::substitution::SMap", "crate::state::constraint::store::ConstraintStore", "crate::state::fd::FiniteDomain",
    "crate::stream::Stream", "crate::stream::Lazy", "crate::stream::LazyStream", "crate::goal::Goal", "crate::goal::DFSGoal", "crate::goal::InferredGoal",
    "crate::lterm::LTerm", "crate::lterm::LTermInner", "crate::lvalue::LValue", "crate::lterm::VarID",
]
ROOT_TRAITS = ["state::constraint::Constraint", "solver::Solve", "compound::CompoundObject", "stream::StreamIterator"]


def type_closure(crate, extra_crates=()):
    """Walk field types from the roots. Returns (visited adts, findings) where a finding is
    (kind, where, what): kind in {'interior-mutability', 'raw-pointer', 'unresolved-foreign'}."""
    adts = dict(crate.adts)
    for c in extra_crates:
        for k, v in c.adts.items():
            adts.setdefault(k.replace("crate::", c.name + "::"), v)
    roots = list(ROOT_ADTS)
    for im in crate.impls:
        t = norm(im.get("trait")) or ""
        if any(t.endswith(r) for r in ROOT_TRAITS) and im.get("self_adt"):
            roots.append(norm(im["self_adt"]))
    visited = set()
    findings = []
    work = [(r, "root") for r in roots]

    def visit_ty(tys, where):
        if not isinstance(tys, dict):
            return
        if "adt" in tys:
            a = norm(tys["adt"])
            if a in adts:
                work.append((a, where))
            else:
                if any(f in a for f in FORBIDDEN_SUBSTR):
                    findings.append(("interior-mutability", where, a))
                elif a not in CONTAINERS:
                    findings.append(("unresolved-foreign", where, a))
            for x in tys.get("args", []):
                visit_ty(x, where)
        elif "rawptr" in tys:
            findings.append(("raw-pointer", where, tys.get("str") or "raw pointer"))
        elif "ref" in tys:
            visit_ty(tys["ref"], where)
        elif "tuple" in tys:
            for x in tys["tuple"]:
                visit_ty(x, where)
        elif "slice" in tys:
            visit_ty(tys["slice"], where)
        elif "array" in tys:
            visit_ty(tys["array"], where)
        # dyn / param / fnptr / closure / prim: leaves (dyn impls are roots themselves)

    while work:
        a, frm = work.pop()
        if a in visited:
            continue
        visited.add(a)
        adt = adts.get(a)
        if adt is None:
            continue
        for v in adt["variants"]:
            for f in v["fields"]:
                visit_ty(f["tys"], "%s.%s" % (a, f["name"]))
    # closures stored in goals: their captured variables
    for p, c in crate.closures.items():
        if c.get("in_test_mod"):
            continue
        for u in c.get("upvars", []):
            visit_ty(u["tys"], "%s captures %s" % (p, u["name"]))
    return visited, findings


def statics_with_interior_mutability(crate):
    out = []
    for s in crate.statics:
        if any(f in s["ty"] for f in FORBIDDEN_SUBSTR) or "mut " in s["ty"]:
            out.append(s)
    return out


BACKDOOR_CALLS = ("get_mut", "get_mut_unchecked", "as_ptr", "into_raw", "from_raw", "write", "write_volatile", "transmute", "transmute_copy", "read", "copy", "copy_nonoverlapping", "swap", "replace", "increment_strong_count", "decrement_strong_count")


def backdoors(crate):
    """User-written unsafe blocks / unsafe fns, and calls of Rc/ptr back-door APIs, per function."""
    out = {}
    for p, fn in hirwalk.fns_nontest(crate):
        for n in hirwalk.nodes(fn["hir"]):
            if n.get("k") == "Block" and n.get("unsafe") == "UserProvided":
                out.setdefault(p, []).append(("unsafe-block", n["sp"]))
        if fn.get("unsafe"):
            out.setdefault(p, []).append(("unsafe-fn", fn["span"]))
        for c, r, n in hirwalk.calls(fn):
            c = c or ""
            last = c.split("::")[-1]
            if (c.startswith("std::rc::Rc") or c.startswith("std::sync::Arc")) and last in ("get_mut", "get_mut_unchecked", "as_ptr", "into_raw", "from_raw", "increment_strong_count", "decrement_strong_count"):
                out.setdefault(p, []).append(("rc-" + last, n["sp"]))
            if (c.startswith("std::ptr") or c.startswith("core::ptr")) and last in ("write", "write_volatile", "read", "copy", "copy_nonoverlapping", "swap", "replace", "write_bytes"):
                out.setdefault(p, []).append(("ptr-" + last, n["sp"]))
            if c.startswith("std::mem::transmute") or c.startswith("core::mem::transmute") or c.startswith("std::intrinsics::transmute"):
                out.setdefault(p, []).append(("transmute", n["sp"]))
    return out
