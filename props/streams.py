"""Stream-monad equation tables shared by C05 (DFS), C06 (BFS) and C07 (fairness).

Every equation is compared on the symbolic term of the function (rules/sym.py), after
inlining the pure constructor wrappers (`Stream::lazy`, `LazyStream::mplus_dfs`, ...), so a
wrapper may be renamed, removed or introduced without changing the verdict, and a swap inside
a wrapper shows up at every caller.
"""
import sym
import tables
from pat import pat
from report import site_of
from sym import Evaluator, inline_also, show, suffix_match, unify

DFS = {
    "name": "dfs",
    "MPlus": "Lazy::MPlusDFS",
    "Bind": "Lazy::BindDFS",
    "Pause": "Lazy::PauseDFS",
    "mplus": "crate::stream::Stream::mplus_dfs",
    "bind": "crate::stream::Stream::bind_dfs",
    "lazy_bind": "crate::stream::Stream::lazy_bind_dfs",
    "start": "crate::solver::Solver::start_dfs",
    "goal": "DFSGoal",
    "residual_second": False,
}
BFS = {
    "name": "bfs",
    "MPlus": "Lazy::MPlus",
    "Bind": "Lazy::Bind",
    "Pause": "Lazy::Pause",
    "mplus": "crate::stream::Stream::mplus",
    "bind": "crate::stream::Stream::bind",
    "lazy_bind": "crate::stream::Stream::lazy_bind",
    "start": "crate::solver::Solver::start",
    "goal": "Goal",
    "residual_second": True,
}

GOAL_CAST = {"crate::GoalCast::cast_into"}


def evaluator(lib):
    return Evaluator(
        lib,
        extra_identity=GOAL_CAST,
        inline=inline_also("Stream::lazy_bind", "Stream::lazy_bind_dfs"),
    )


def plain_evaluator(lib):
    return Evaluator(lib, extra_identity=GOAL_CAST)


def getfn(ctx, lib, rule, suffix):
    fn = lib.fn(suffix)
    if fn is None or "hir" not in fn:
        ctx.violation(rule, "anchor-missing|%s" % suffix, "", "function %s not found in the resolved program" % suffix)
        return None
    ctx.fn_seen(fn["npath"])
    return fn


def L(mode, kind, *args):
    return "LazyStream(%s(%s))" % (mode[kind], ", ".join(args))


def check_mplus(ctx, lib, mode, rule):
    """merge(stream s, later lazy l):  Empty->Lazy(l); Lazy(r)->Lazy(MPlus(..)); Unit(a)->Cons(a,l);
    Cons(h,r)->Cons(h, MPlus(..)) with the residual r first (DFS) or second (BFS swap)."""
    fn = getfn(ctx, lib, rule, mode["mplus"])
    if not fn:
        return
    t = evaluator(lib).fn_term(fn)
    r_lazy, r_cons = "@0.Stream::Lazy#0", "@0.Stream::Cons#1"
    if mode["residual_second"]:
        m_lazy, m_cons = L(mode, "MPlus", "@1", r_lazy), L(mode, "MPlus", "@1", r_cons)
    else:
        m_lazy, m_cons = L(mode, "MPlus", r_lazy, "@1"), L(mode, "MPlus", r_cons, "@1")
    tables.check_match_table(
        ctx,
        rule,
        fn["npath"],
        site_of(fn),
        t,
        "@0",
        {
            "Stream::Empty": "Stream::Lazy(@1)",
            "Stream::Lazy": "Stream::Lazy(%s)" % m_lazy,
            "Stream::Unit": "Stream::Cons(@0.Stream::Unit#0, @1)",
            "Stream::Cons": "Stream::Cons(@0.Stream::Cons#0, %s)" % m_cons,
        },
    )


def general_branch(ctx, rule, fnkey, site, t, goal_pat, identity_pat):
    g, b, errs = tables.strip_shortcuts(t, goal_pat, identity_pat)
    for e in errs:
        ctx.violation(rule, "%s|shortcut" % fnkey, site, e)
    if not errs:
        ctx.ok(rule, "%s|shortcut" % fnkey, site, "succeed/fail shortcuts absent or correct")
    return g


def check_bind(ctx, lib, mode, rule):
    """bind(stream s, goal g): Empty->Empty; Lazy(r)->Lazy(Bind(r,g)); Unit(a)->Lazy(Pause(a,g));
    Cons(h,r)->Lazy(MPlus(Pause(h,g), Bind(r,g)))."""
    fn = getfn(ctx, lib, rule, mode["bind"])
    if not fn:
        return
    ev = evaluator(lib)
    t = ev.fn_term(fn)
    key = fn["npath"]
    site = site_of(fn)
    g = general_branch(ctx, rule, key, site, t, "@1", "@0")

    def lazy_arm(body, b):
        gen, b2, errs = tables.strip_shortcuts(body, "@1", "Stream::Lazy(@0.Stream::Lazy#0)", b=b)
        if errs:
            return (None, "; ".join(errs))
        r = unify(pat("Stream::Lazy(%s)" % L(mode, "Bind", "@0.Stream::Lazy#0", "@1")), tables.result(gen), b2)
        return (r, "general branch is %s" % show(tables.result(gen), maxdepth=6)[:200])

    tables.check_match_table(
        ctx,
        rule,
        key,
        site,
        g,
        "@0",
        {
            "Stream::Empty": "Stream::Empty",
            "Stream::Lazy": lazy_arm,
            "Stream::Unit": "Stream::Lazy(%s)" % L(mode, "Pause", "@0.Stream::Unit#0", "@1"),
            "Stream::Cons": "Stream::Lazy(%s)"
            % L(mode, "MPlus", L(mode, "Pause", "@0.Stream::Cons#0", "@1"), L(mode, "Bind", "@0.Stream::Cons#1", "@1")),
        },
    )
    # lazy_bind itself
    fn2 = getfn(ctx, lib, rule, mode["lazy_bind"])
    if fn2:
        t2 = plain_evaluator(lib).fn_term(fn2)
        g2 = general_branch(ctx, rule, fn2["npath"], site_of(fn2), t2, "@1", "Stream::Lazy(@0)")
        r = unify(pat("Stream::Lazy(%s)" % L(mode, "Bind", "@0", "@1")), tables.result(g2))
        ctx.expect(r is not None, rule, "%s|general" % fn2["npath"], site_of(fn2), "lazy bind of l with g must be Lazy(%s(l, g)); found %s" % (mode["Bind"], show(tables.result(g2), maxdepth=6)[:200]))


def check_conj_solve(ctx, lib, mode, rule, fn_suffix, selfpat="@0"):
    """conjunction.solve(state) = Lazy(Bind(Pause(state, goal_1), goal_2))."""
    fn = getfn(ctx, lib, rule, fn_suffix)
    if not fn:
        return
    t = evaluator(lib).fn_term(fn)
    _check_conj_term(ctx, mode, rule, fn, t, selfpat)


def _check_conj_term(ctx, mode, rule, fn, t, selfpat, keyx=""):
    key = fn["npath"] + keyx
    site = site_of(fn)
    pause = L(mode, "Pause", "@2", "%s.goal_1" % selfpat)
    g = general_branch(ctx, rule, key, site, t, "%s.goal_2" % selfpat, "Stream::Lazy(%s)" % pause)
    want = "Stream::Lazy(%s)" % L(mode, "Bind", pause, "%s.goal_2" % selfpat)
    r = unify(pat(want), tables.result(g))
    ctx.expect(r is not None, rule, "%s|equation" % key, site, "conjunction must solve to Bind(Pause(state, goal_1), goal_2) in %s mode; found %s" % (mode["name"], show(tables.result(g), maxdepth=7)[:300]), detail=want)


def check_inferred_conj(ctx, lib, rule, want_modes):
    """InferredConj::solve: one branch per goal kind, selected by a downcast to that kind."""
    fn = getfn(ctx, lib, rule, "<crate::operator::conj::InferredConj as crate::solver::Solve>::solve")
    if not fn:
        return
    t = evaluator(lib).fn_term(fn)
    found = set()
    cur = tables.result(t)
    while isinstance(cur, tuple) and cur and cur[0] == "if":
        cond, then, els = cur[1], cur[2], cur[3]
        mode = None
        if cond[0] == "iflet":
            init = cond[2]
            if init[0] == "call" and "downcast_ref" in init[1]:
                if "InferredConj<crate::goal::DFSGoal>" in init[1] or "InferredConj<goal::DFSGoal>" in init[1]:
                    mode = DFS
                elif "InferredConj<crate::goal::Goal>" in init[1] or "InferredConj<goal::Goal>" in init[1]:
                    mode = BFS
                if mode is not None and mode["name"] in want_modes:
                    # self in the equations is the downcast payload
                    selfterm = ("proj", init, ANYP, 0)
                    _check_conj_term_with_self(ctx, mode, rule, fn, then, init)
                    found.add(mode["name"])
        cur = tables.result(els) if els is not None else None
    for m in want_modes:
        if m not in found:
            ctx.violation(rule, "%s|branch=%s" % (fn["npath"], m), site_of(fn), "no branch selected by a downcast to InferredConj<%s goal> found" % m)


ANYP = sym.ANY


def _check_conj_term_with_self(ctx, mode, rule, fn, t, downcast_call):
    key = fn["npath"] + "|" + mode["name"]
    site = site_of(fn)
    s = sym.V("self_" + mode["name"])
    selfp = ("proj", s, sym.P("Some"), 0)

    def fld(name):
        return ("field", selfp, name)

    def LS(kind, *a):
        return ("ctor", sym.P("LazyStream"), (("ctor", sym.P(mode[kind]), tuple(a)),))

    pause = LS("Pause", ("param", 2, sym.ANY), fld("goal_1"))
    ident = ("ctor", sym.P("Stream::Lazy"), (pause,))
    g, b, errs = tables.strip_shortcuts(t, fld("goal_2"), ident)
    for e in errs:
        ctx.violation(rule, "%s|shortcut" % key, site, e)
    want = ("ctor", sym.P("Stream::Lazy"), (LS("Bind", pause, fld("goal_2")),))
    r = unify(want, tables.result(g), b)
    ok = r is not None and r.get("self_" + mode["name"]) == downcast_call
    ctx.expect(ok, rule, "%s|equation" % key, site, "the %s branch must solve to Bind(Pause(state, goal_1), goal_2) of the downcast conjunction; found %s" % (mode["name"], show(tables.result(g), maxdepth=7)[:300]))


def check_disj_solve(ctx, lib, mode, rule, fn_suffix):
    fn = getfn(ctx, lib, rule, fn_suffix)
    if not fn:
        return
    t = evaluator(lib).fn_term(fn)
    want = "Stream::Lazy(%s)" % L(mode, "MPlus", L(mode, "Pause", "@2", "@0.goal_1"), L(mode, "Pause", "@2", "@0.goal_2"))
    eff, res = tables.flatten(t)
    r = unify(pat(want), res)
    bad = [e for e in eff if not tables.harmless_effect(e)]
    ctx.expect(r is not None and not bad, rule, "%s|equation" % fn["npath"], site_of(fn), "binary disjunction must solve to MPlus(Pause(state, goal_1), Pause(state, goal_2)) in %s mode; found %s" % (mode["name"], show(res, maxdepth=7)[:300]))


def check_engine_step(ctx, lib, rule, modes):
    """Engine::step arms: MPlus(s1,s2) -> merge(step(s1), s2); Bind(s,g) -> bind(step(s), g);
    Pause(st,g) -> start(g, st); Delay(s) -> s; Iterator(it) -> next: Some(s) -> merge_dfs(s, Iterator(it)), None -> Empty.
    No wildcard arm."""
    fn = getfn(ctx, lib, rule, "<crate::stream::StreamEngine as crate::engine::Engine>::step")
    if not fn:
        return
    t = plain_evaluator(lib).fn_term(fn)
    key = fn["npath"]
    site = site_of(fn)
    eff, m = tables.flatten(t)
    if not (m and m[0] == "match"):
        ctx.violation(rule, key + "|shape", site, "Engine::step is not a match over the lazy node")
        return
    wild = [p for p, g, b in m[2] if "*" in tables.pat_ctors(p)]
    ctx.expect(not wild, rule, key + "|no-wildcard", site, "Engine::step has a catch-all arm: a Lazy variant could be dropped silently")
    table = {}
    for mode in modes:
        step1 = "step(@0, @1, @2.%s#0.0)" % mode["MPlus"]
        table[mode["MPlus"]] = "%s(%s, @2.%s#1)" % (mode["mplus"], step1, mode["MPlus"])
        stepb = "step(@0, @1, @2.%s#0.0)" % mode["Bind"]
        table[mode["Bind"]] = "%s(%s, @2.%s#1)" % (mode["bind"], stepb, mode["Bind"])
        table[mode["Pause"]] = "%s(@1, @2.%s#1, @2.%s#0)" % (mode["start"], mode["Pause"], mode["Pause"])
    tables.check_match_table(ctx, rule, key, site, t, "@2", table)
    return m


def check_engine_delay_iter(ctx, lib, rule):
    fn = getfn(ctx, lib, rule, "<crate::stream::StreamEngine as crate::engine::Engine>::step")
    if not fn:
        return
    t = evaluator(lib).fn_term(fn)

    def iter_arm(body, b):
        eff, res = tables.flatten(body)
        if not (res and res[0] == "match"):
            return (None, "Iterator arm is not a match on next()")
        nxt = pat("next(@2.Lazy::Iterator#0, @1)")
        if unify(nxt, res[1], b) is None:
            return (None, "Iterator arm does not match on iter.next(solver): %s" % show(res[1], maxdepth=4))
        some = tables.find_arm(res, "Some")
        none = tables.find_arm(res, "None")
        if len(some) != 1 or len(none) != 1:
            return (None, "Iterator arm needs exactly Some/None arms")
        want = pat("Stream::mplus_dfs($n.Some#0, LazyStream(Lazy::Iterator(@2.Lazy::Iterator#0)))")
        r = unify(want, tables.result(some[0][2]), b)
        if r is None:
            return (None, "Some(stream) must be merged depth-first *before* the rest of the iterator; found %s" % show(tables.result(some[0][2]), maxdepth=6)[:240])
        if unify(pat("Stream::Empty"), tables.result(none[0][2]), b) is None:
            return (None, "exhausted iterator must give the empty stream")
        return (r, "")

    tables.check_match_table(ctx, rule, fn["npath"], site_of(fn), t, "@2", {"Lazy::Delay": "@2.Lazy::Delay#0", "Lazy::Iterator": iter_arm})


def check_start(ctx, lib, mode, rule):
    """Solver::start(goal, state): Succeed->Unit(state); Fail->Empty; Breakpoint->Unit(state); Dynamic(d)->d.solve(self,state)."""
    for suffix, gpos, spos, selfpos in ((mode["start"], 1, 2, 0),):
        fn = getfn(ctx, lib, rule, suffix)
        if not fn:
            continue
        t = plain_evaluator(lib).fn_term(fn)
        G = mode["goal"]
        tables.check_match_table(
            ctx,
            rule,
            fn["npath"],
            site_of(fn),
            t,
            "@%d" % gpos,
            {
                G + "::Succeed": "Stream::Unit(@%d)" % spos,
                G + "::Fail": "Stream::Empty",
                G + "::Breakpoint": "Stream::Unit(@%d)" % spos,
                G + "::Dynamic": "solve(@%d.%s::Dynamic#0, @%d, @%d)" % (gpos, G, selfpos, spos),
            },
        )
    # <Goal as AnyGoal>::solve  (self, solver, state)
    fn = getfn(ctx, lib, rule, "<crate::goal::%s as crate::goal::AnyGoal>::solve" % mode["goal"])
    if fn:
        t = plain_evaluator(lib).fn_term(fn)
        G = mode["goal"]
        tables.check_match_table(
            ctx,
            rule,
            fn["npath"],
            site_of(fn),
            t,
            "@0",
            {
                G + "::Succeed": "Stream::Unit(@2)",
                G + "::Fail": "Stream::Empty",
                G + "::Breakpoint": "Stream::Unit(@2)",
                G + "::Dynamic": "solve(@0.%s::Dynamic#0, @1, @2)" % G,
            },
        )


# ----------------------------------------------------------------------
# folds
ONE_TO_ONE = ("iter", "into_iter", "drain", "to_vec", "cloned", "copied", "map", "iter_mut", "by_ref", "into_vec")
REVERSING = ("rev",)
LOSSY = ("filter", "skip", "take", "step_by", "zip", "filter_map", "take_while", "skip_while", "flat_map", "chain", "dedup", "peekable", "fuse", "enumerate", "cycle", "flatten", "scan", "inspect")


def iter_chain(t):
    """Decompose an iterator expression into (source, [adaptor names outermost-last])."""
    names = []
    while isinstance(t, tuple) and t and t[0] == "call" and t[2]:
        name = t[1].split("::")[-1]
        names.append((name, t))
        t = t[2][0]
    names.reverse()
    return t, names


def classify_iter(t, source_pat):
    """-> (ok, reversed?, message). ok iff every adaptor is 1:1 or reversing and source matches."""
    src, chain = iter_chain(t)
    rev = False
    for name, node in chain:
        if name in REVERSING:
            rev = not rev
        elif name in ONE_TO_ONE:
            continue
        else:
            return (False, rev, "adaptor `%s` is not known to keep every element exactly once" % name)
    sp = pat(source_pat) if isinstance(source_pat, str) else source_pat
    if unify(sp, src) is None:
        return (False, rev, "iterates %s, expected %s" % (show(src, maxdepth=4), source_pat))
    return (True, rev, "")


def check_right_fold(ctx, lib, rule, fn_suffix, unit_pat, new_suffix, must_reverse=True, source="@0", elem_wrap=None):
    """`let p = UNIT; for g in ITER { p = NEW(g', p) }; p`  where ITER visits every element of the
    input exactly once, in reverse order (right fold keeps written order)."""
    fn = getfn(ctx, lib, rule, fn_suffix)
    if not fn:
        return
    t = plain_evaluator(lib).fn_term(fn)
    key = fn["npath"]
    site = site_of(fn)
    eff, res = tables.flatten(t)
    lets = [e for e in eff if e[0] == "let"]
    fors = [e for e in eff if e[0] == "for"]
    others = [e for e in eff if e[0] not in ("let", "for") and not tables.harmless_effect(e)]
    ok = True
    if len(fors) != 1 or others or not (res and res[0] == "var"):
        ctx.violation(rule, key + "|shape", site, "expected `acc = unit; for x in items { acc = new(x, acc) }; acc`, found %s" % show(t, maxdepth=4)[:300])
        return
    acc = res
    init = [l for l in lets if l[1][0] == "pbind" and l[1][1] == acc[1]]
    if not init or unify(pat(unit_pat), init[0][2]) is None:
        ctx.violation(rule, key + "|unit", site, "accumulator must start as %s, found %s" % (unit_pat, show(init[0][2], maxdepth=4) if init else "nothing"))
        ok = False
    f = fors[0]
    okc, rev, msg = classify_iter(f[1], source)
    if not okc:
        ctx.violation(rule, key + "|iteration", site, "fold does not visit every element exactly once: " + msg)
        ok = False
    elif must_reverse is not None and rev != must_reverse:
        ctx.violation(rule, key + "|order", site, "fold must iterate %s so that the written order is kept" % ("in reverse" if must_reverse else "forwards"))
        ok = False
    # loop body: exactly one assignment acc = NEW(item, acc)
    beff, bres = tables.flatten(f[3])
    assigns = [e for e in beff if e[0] == "assign"]
    extra = [e for e in beff if e[0] != "assign" and not tables.harmless_effect(e)]
    item = ("item", f[1])
    good = False
    if len(assigns) == 1 and not extra and assigns[0][1] == acc:
        rhs = assigns[0][2]
        if rhs[0] == "call" and suffix_match(rhs[1], new_suffix) and len(rhs[2]) == 2:
            a0, a1 = rhs[2]
            if elem_wrap is not None:
                a0 = elem_wrap(a0)
            if a0 == item and a1 == acc:
                good = True
        else:
            # `new` inlined (it is a pure constructor wrapper): the node must hold (element, acc)
            nodes = [s for s in sym.subterms(rhs) if s[0] == "struct" and dict(s[2]).get("goal_1") is not None]
            if len(nodes) == 1 and suffix_match(nodes[0][1], new_suffix.split("::")[0]):
                f = dict(nodes[0][2])
                good = f.get("goal_1") == item and f.get("goal_2") == acc
    if not good:
        ctx.violation(rule, key + "|step", site, "every iteration must do acc = %s(element, acc) and nothing else; found %s" % (new_suffix, show(f[3], maxdepth=5)[:300]))
        ok = False
    if ok:
        ctx.ok(rule, key + "|fold", site, "right fold, reversed=%s" % rev)


def check_conj_new(ctx, lib, rule, fn_suffix, goalpath, node_suffix):
    """new(g1, g2): both succeed -> succeed; either fail -> fail; else a node holding g1 as goal_1, g2 as goal_2."""
    fn = getfn(ctx, lib, rule, fn_suffix)
    if not fn:
        return
    t = plain_evaluator(lib).fn_term(fn)
    key = fn["npath"]
    site = site_of(fn)
    ctx.tabled_exits.add(key)  # every early return below is validated against the identities of conjunction
    eff, res = tables.flatten(t)
    # final result: node with goal_1=@0 goal_2=@1 (possibly wrapped by dynamic(...)/InferredGoal{goal:..})
    node = [s for s in sym.subterms(res) if s[0] == "struct" and suffix_match(s[1], node_suffix)]
    good = False
    if len(node) == 1:
        f = dict(node[0][2])
        good = f.get("goal_1") == ("param", 0, f.get("goal_1", (0, 0, 0))[2]) and f.get("goal_2", ("", -1))[0:2] == ("param", 1) and f.get("goal_1", ("", -1))[0:2] == ("param", 0)
    ctx.expect(good, rule, key + "|node", site, "the conjunction node must keep parameter 0 as goal_1 and parameter 1 as goal_2; found %s" % show(res, maxdepth=6)[:240])
    # shortcuts: every early return is guarded correctly
    for e in eff:
        if e[0] != "if":
            if not tables.harmless_effect(e):
                ctx.violation(rule, key + "|stmt", site, "unexpected statement %s" % show(e, maxdepth=4)[:160])
            continue
        cond, then = e[1], e[2]
        rets = [s for s in sym.subterms(then) if s[0] == "ret"]
        if not rets:
            continue
        rv = rets[0][1]
        kind = "succeed" if any(suffix_match(c[1], "Succeed") for c in sym.ctors(rv)) or any(suffix_match(c[1], "succeed") for c in sym.calls(rv)) else ("fail" if any(suffix_match(c[1], "Fail") for c in sym.ctors(rv)) or any(suffix_match(c[1], "fail") for c in sym.calls(rv)) else "?")
        c = cond
        if kind == "succeed":
            want = unify(pat("is_succeed(@0)"), c[2] if c[0] == "binop" else None) is not None and unify(pat("is_succeed(@1)"), c[3]) is not None and c[1] == "And" if c[0] == "binop" else False
            ctx.expect(want, rule, key + "|shortcut-succeed", site, "`succeed` may be returned only when *both* goals succeed trivially; condition is %s" % show(c, maxdepth=4))
        elif kind == "fail":
            calls_ = [x for x in sym.calls(c)]
            allfail = all(suffix_match(x[1], "is_fail") for x in calls_) and calls_
            neg = any(s[0] == "unop" for s in sym.subterms(c))
            ctx.expect(bool(allfail) and not neg, rule, key + "|shortcut-fail", site, "`fail` may be returned only when a goal is `fail`; condition is %s" % show(c, maxdepth=4))
        else:
            # identity shortcut: `if other.is_succeed() { return this }` keeps the answers (the lost
            # suspension is C07's concern, not this rule's)
            inner = rv
            if inner[0] == "struct" and dict(inner[2]).get("goal") is not None:
                inner = dict(inner[2])["goal"]
            okid = False
            if inner[0] == "param" and inner[1] in (0, 1):
                other = 1 - inner[1]
                okid = unify(pat("is_succeed(@%d)" % other), c) is not None
            ctx.expect(okid, rule, key + "|shortcut", site, "early return of %s under %s is not an identity of conjunction" % (show(rv, maxdepth=4), show(c, maxdepth=4)))


def check_disj_new(ctx, lib, rule, fn_suffix, node_suffix):
    """Disj::new(g1, g2): a node holding g1 as goal_1 and g2 as goal_2. The only sound constant
    folding of a disjunction (as a multiset of answers) is dropping a `fail` operand; `succeed or g`
    is NOT `succeed` (the answers of g would be lost)."""
    fn = getfn(ctx, lib, rule, fn_suffix)
    if not fn:
        return
    t = plain_evaluator(lib).fn_term(fn)
    key = fn["npath"]
    site = site_of(fn)
    ctx.tabled_exits.add(key)  # every early return below is validated against the identities of disjunction
    eff, res = tables.flatten(t)
    node = [s for s in sym.subterms(res) if s[0] == "struct" and suffix_match(s[1], node_suffix)]
    good = False
    if len(node) == 1:
        f = dict(node[0][2])
        good = f.get("goal_1", ("", -1))[:2] == ("param", 0) and f.get("goal_2", ("", -1))[:2] == ("param", 1)
    ctx.expect(good, rule, key + "|node", site, "the disjunction node must keep parameter 0 as goal_1 and parameter 1 as goal_2; found %s" % show(res, maxdepth=6)[:240])
    for e in eff:
        if tables.harmless_effect(e):
            continue
        if e[0] != "if":
            ctx.violation(rule, key + "|stmt", site, "unexpected statement %s" % show(e, maxdepth=4)[:160])
            continue
        rets = [s for s in sym.subterms(e[2]) if s[0] == "ret"]
        if not rets:
            continue
        rv = rets[0][1]
        okid = False
        if rv is not None and rv[0] == "param" and rv[1] in (0, 1):
            okid = unify(pat("is_fail(@%d)" % (1 - rv[1])), e[1]) is not None
        ctx.expect(okid, rule, key + "|shortcut", site, "early return of %s under %s is not an identity of disjunction (only `fail or g = g` keeps the answer multiset)" % (show(rv, maxdepth=4) if rv else "()", show(e[1], maxdepth=4)))


def census(ctx, lib, rule, allowed, floors):
    """Every construction site of the listed Lazy variants lies in a function covered by a table."""
    ev = evaluator(lib)
    counts = {k: 0 for k in allowed}
    for p, fn in sorted(lib.fns.items()):
        if "hir" not in fn or fn.get("in_test_mod") or fn["span"].endswith("!"):
            continue
        t = ev.fn_term(fn)
        for variant, okfns in allowed.items():
            n = len(list(sym.ctors(t, variant)))
            if not n:
                continue
            counts[variant] += n
            ctx.fn_seen(p)
            if any(p.endswith(s) or s in p for s in okfns):
                ctx.ok(rule, "%s|constructs=%s" % (p, variant), site_of(fn), "%d site(s)" % n)
            else:
                ctx.violation(rule, "%s|constructs=%s" % (p, variant), site_of(fn), "function builds a %s node but is not covered by an equation table (unrecognised construction site)" % variant)
    for variant, n in counts.items():
        ctx.floor(rule, n, floors[variant], "%s construction sites" % variant)


def check_conde_fold(ctx, lib, rule, mode):
    """Conde::solve, branch of `mode`: stream = Empty; for c in clauses[1..] reversed: stream = merge(solve(c, state.clone()), Delay(stream));
    then stream = merge(solve(clauses[0], state), Delay(stream))."""
    fn = getfn(ctx, lib, rule, "<crate::operator::conde::Conde as crate::solver::Solve>::solve")
    if not fn:
        return
    t = plain_evaluator(lib).fn_term(fn)
    key = fn["npath"] + "|" + mode["name"]
    site = site_of(fn)
    # find the branch
    cur = tables.result(t)
    branch = None
    dc = None
    goalname = "goal::%s>" % mode["goal"]
    while isinstance(cur, tuple) and cur and cur[0] == "if":
        cond = cur[1]
        if cond[0] == "iflet" and cond[2][0] == "call" and "downcast_ref" in cond[2][1] and ("Conde<crate::goal::%s>" % mode["goal"] in cond[2][1] or "Conde<goal::%s>" % mode["goal"] in cond[2][1]):
            branch, dc = cur[2], cond[2]
            break
        cur = tables.result(cur[3]) if cur[3] is not None else None
    if branch is None:
        ctx.violation(rule, key + "|branch", site, "no branch selected by a downcast to Conde<%s> found" % mode["goal"])
        return
    eff, res = tables.flatten(branch)
    clauses = ("field", ("proj", dc, sym.ANY, 0), "conjunctions")
    if not (res and res[0] == "var"):
        ctx.violation(rule, key + "|shape", site, "branch does not return its accumulated stream: %s" % show(res, maxdepth=3))
        return
    acc = res
    merge = mode["mplus"]
    steps = []  # (kind, clause-source, node)

    def visit(e, guard):
        if e[0] == "if":
            for sub in tables.stmts_of(e[2]):
                visit(sub, e[1])
        elif e[0] == "for":
            for sub in tables.stmts_of(e[3]):
                if sub[0] == "assign" and sub[1] == acc:
                    steps.append(("loop", e[1], sub[2], ("item", e[1])))
        elif e[0] == "assign" and e[1] == acc:
            steps.append(("single", None, e[2], None))

    for e in eff:
        visit(e, None)
    init = [e for e in eff if e[0] == "let" and e[1][0] == "pbind" and e[1][1] == acc[1]]
    ctx.expect(bool(init) and unify(pat("Stream::Empty"), init[0][2]) is not None, rule, key + "|init", site, "accumulator must start as the empty stream")
    ok = True
    order = []
    for kind, it, rhs, item in steps:
        want_new = sym.V("new")
        shape = ("call", sym.P(merge), (want_new, ("ctor", sym.P("LazyStream"), (("ctor", sym.P("Lazy::Delay"), (acc,)),))))
        b = unify(shape, rhs)
        if b is None:
            ctx.violation(rule, key + "|step", site, "each step must be acc = %s(<stream of the clause>, Delay(acc)): new stream first, accumulated alternatives delayed second; found %s" % (merge, show(rhs, maxdepth=5)[:300]))
            ok = False
            continue
        new = b["new"]
        if not (new[0] == "call" and suffix_match(new[1], "solve") and len(new[2]) == 3):
            ctx.violation(rule, key + "|step-solve", site, "the merged stream must be clause.solve(solver, state): %s" % show(new, maxdepth=4)[:200])
            ok = False
            continue
        who = new[2][0]
        if kind == "loop":
            if who != item:
                ctx.violation(rule, key + "|step-item", site, "loop step solves %s instead of the loop's clause" % show(who, maxdepth=3))
                ok = False
            src, chain = iter_chain(it)
            names = [n for n, _ in chain]
            rev = names.count("rev") % 2 == 1
            # acceptable: iter().rev().take(len-1) | iter().skip(1).rev() | iter().rev() (no separate first)
            lossy = [n for n in names if n not in ONE_TO_ONE and n != "rev"]
            good_src = unify(clauses, src) is not None
            desc = None
            # `if let Some((first, rest)) = clauses.split_first()`: the loop runs over `rest` (= clauses[1..]) reversed
            sf_rest = ("proj", ("proj", ("call", sym.P("split_first"), (clauses,)), sym.P("Some"), 0), "tuple", 1)
            if unify(sf_rest, src) is not None and rev and not lossy:
                desc = "reversed-without-first"
            elif good_src and rev and not lossy:
                desc = "all-reversed"
            elif good_src and rev and lossy == ["take"] and names.index("take") > names.index("rev"):
                tk = [n for n in chain if n[0] == "take"][0][1]
                cnt = tk[2][1]
                if cnt[0] == "binop" and cnt[1] == "Sub" and cnt[3] == ("lit", cnt[3][1]) and "Pu128(1)" in cnt[3][1] and cnt[2][0] == "call" and suffix_match(cnt[2][1], "len"):
                    desc = "reversed-without-first"
            elif good_src and rev and lossy == ["skip"] and names.index("skip") < names.index("rev"):
                sk = [n for n in chain if n[0] == "skip"][0][1]
                if "Pu128(1)" in str(sk[2][1]):
                    desc = "reversed-without-first"
            if desc is None:
                ctx.violation(rule, key + "|iteration", site, "clauses must be folded from the last to the second (reverse iteration, nothing skipped but clause 0): %s" % show(it, maxdepth=6)[:240])
                ok = False
            order.append(desc)
        else:
            first = ("index", clauses, sym.ANY)
            sf_first = ("proj", ("proj", ("call", sym.P("split_first"), (clauses,)), sym.P("Some"), 0), "tuple", 0)
            fst = ("proj", ("call", sym.P("first"), (clauses,)), sym.P("Some"), 0)
            if unify(sf_first, who) is not None or unify(fst, who) is not None:
                pass  # clause 0 by split_first() / first()
            elif unify(first, who) is None or "Pu128(0)" not in str(who[2]):
                ctx.violation(rule, key + "|first", site, "the separately handled clause must be clause 0: %s" % show(who, maxdepth=4))
                ok = False
            order.append("first")
    if ok:
        if order == ["reversed-without-first", "first"] or order == ["all-reversed"]:
            ctx.ok(rule, key + "|fold", site, "clauses folded n-1..1 then 0; each new clause stream merged in front of the delayed accumulator")
        else:
            ctx.violation(rule, key + "|fold-order", site, "unrecognised fold sequence %s (expected reversed clauses 1.. then clause 0 last)" % order)




# operator entry point -> (goal kind of its body parameter, goal kind it returns)
OPERATOR_KINDS = {
    "conde::conde": ("Goal", "Goal"),
    "matche::matche": ("Goal", "Goal"),
    "conda::conda": ("Goal", "Goal"),
    "condu::condu": ("Goal", "Goal"),
    "matcha::matcha": ("Goal", "Goal"),
    "matchu::matchu": ("Goal", "Goal"),
    "anyo::anyo": ("Goal", "Goal"),
    "onceo::onceo": ("Goal", "Goal"),
    "dfs::dfs": ("DFSGoal", "InferredGoal"),
    "conde::cond": ("G", "InferredGoal"),
    "everyg::everyg": ("G", "InferredGoal"),
}


def check_operator_kinds(ctx, lib, rule):
    """Which search a disjunction runs is decided by the *type* of the goals it was built from (Conde::solve
    downcasts to Conde<Goal> / Conde<DFSGoal>; a DFSGoal casts silently into any Goal context).  So the
    named operators' signatures are part of the semantics: conde / matche / conda / condu / matcha / matchu /
    anyo / onceo take and return interleaving goals, `dfs` is the only one whose body is depth-first, and
    `cond` / `for` inherit the kind of their context (generic G).  Read from the typed signatures."""
    n = 0
    for name, (pk, rk) in sorted(OPERATOR_KINDS.items()):
        fn = lib.fn("crate::operator::" + name)
        if fn is None:
            continue
        n += 1
        ctx.fn_seen(fn["npath"])
        ins = fn.get("inputs") or []
        out = fn.get("output") or ""

        def kind_of(ty):
            # last generic argument of the parameter struct / the returned goal type itself
            if "goal::DFSGoal<" in ty:
                return "DFSGoal"
            if "goal::Goal<" in ty:
                return "Goal"
            if "goal::InferredGoal<" in ty:
                return "InferredGoal"
            return "G"

        pin = kind_of(ins[0]) if len(ins) == 1 else "?"
        pout = kind_of(out)
        ctx.expect((pin, pout) == (pk, rk), rule, "operator::%s|body=%s,result=%s" % (name, pk, rk), site_of(fn), "operator `%s` must take %s clauses and return %s (the goal type selects interleaving vs depth-first search); signature is (%s) -> %s" % (name.split("::")[-1], pk, rk, ", ".join(ins), out))
    ctx.floor(rule, n, 10, "operator entry points")
