"""C14 - Surface syntax translates to the documented goals and terms.

The translation is a finite set of context-free templates (`quote!` bodies of the macro crate), so
"for every program" reduces to "for every template" by induction over the clause grammar.  Decided
(structural, nothing is expanded or run):

 * emitter agreement (K11): every `Clause` variant has exactly one arm in `Clause::to_tokens` and
   one in `ClauseInOperator::to_tokens`; the latter is `[ T ]` with T the former's emission for the
   same variant (the bare goal array for `Conjunction`);
 * constructor classes (K12): `==` -> relation::eq, `!=` -> relation::diseq, true/false ->
   succeed/fail, `[..]` -> a conjunction builder over the clauses in written order, `|x| {..}` ->
   fresh lets + Fresh::new(vars, conjunction(body)), `closure {..}` -> Closure::new(.. move ||
   conjunction(body)), `loop {..}` -> anyo, `op {..}` -> op(OperatorParam::new(..)), relation call
   -> name(args in order); term templates of TreeTerm / InnerTreeTerm (sibling agreement);
 * list discipline: every interpolated list reaches its template through 1:1 order-preserving
   adaptors; the query's one identifier list feeds lets, __vars__, the unified tuple, the QResult
   fields and the positional from_vec;
 * parser dispatch (typed HIR of the macro crate): LitBool.value selects Succeed/Fail; `|` inside
   brackets selects ImproperList, each parsed item is kept;
 * library side (typed HIR): eq/diseq build goals holding their operands and solve with
   State::unify / State::disunify; succeed/fail; the conjunction builders used by the templates
   are total order-preserving folds; Fresh::solve / Closure::solve run the body on the incoming
   state.
 (round 4) builders.check_all with neutral-element check; macro front end only appends.
 (round 5, shared with C02) `!=`: normalisation and subsumes direction.
"""
import macrolib
import streams
import sym
import tables
import tmpl
import tmplsem
from macrolib import check_adaptors, check_shape, payload
from pat import pat
from report import site_of
from sym import show, suffix_match, unify

EXPLANATION = (
    "Template rules over the macro crate's quote! token trees (extracted with syn, canonicalised: interpolations resolved to their source "
    "list / arm payload, denotation-preserving wrappers removed) compared with a table of constructor classes per surface construct; "
    "emitter agreement Clause vs ClauseInOperator; same-list discipline of the query template; parser-dispatch and library-entry rules on typed HIR."
)
NOT_DECIDED = "semantic equality of arbitrary generated programs with a reference interpreter (needs execution); operand order of ==/!= and the choice among equivalent conjunction builders are deliberately not constrained"
TECHNIQUE = "static analysis: syntax-tree rules over quote! templates (syn) + typed-HIR provenance tables via rustc_private driver"

CLAUSE_VARIANTS_FLOOR = 15

# Clause variant -> how Clause::to_tokens must emit it: 'payload' = delegate to the payload's own
# ToTokens (whose template has its own table line below), or an expected shape.
CLAUSE_TABLE = {
    "For": "payload",
    "Project": "payload",
    "FnGoal": "payload",
    "Fresh": "payload",
    "Eq": "payload",
    "Diseq": "payload",
    "Succeed": "SUCCEED()",
    "Fail": "FAIL()",
    "Conjunction": "CONJ(#p)",
    "Relation": "payload",
    "Closure": "payload",
    "Loop": "payload",
    "Operator": "payload",
    "PatternMatchOperator": "payload",
    "Expression": "payload",
}

# type -> (expected shape(s), names: interpolation -> origin) ; reason
CONSTRUCT_TABLE = {
    "Eq": (["EQ(#l, #r)"], {"l": "self.left", "r": "self.right"}, "`u == v` is the equality relation on the two written operands"),
    "Diseq": (["DISEQ(#l, #r)"], {"l": "self.left", "r": "self.right"}, "`u != v` is the disequality relation on the two written operands"),
    "Conjunction": (["[#(#body),*]"], {"body": "self.body"}, "`[g, ..]` lists its clauses in written order"),
    "Fresh": (
        ["{ #(let #v = NEWVAR(stringify!(#v));)* Fresh::new([#(#v),*], CONJ([#(#body),*])) }"],
        {"v": "self.variables.name", "body": "self.body"},
        "`|x, ..| { body }` creates one new variable per declared name in the block that holds the body, then the conjunction of the body",
    ),
    "Closure": (
        ["Closure::new(ClosureOperatorParam::new(move || CONJ([#(#body),*])))"],
        {"body": "self.body"},
        "`closure { body }` defers the conjunction of its body",
    ),
    "Loop": (["ANYO(OperatorParam::new([#(#body),*]))"], {"body": "self.body"}, "`loop { .. }` is anyo over its body"),
    "Operator": (["#name(OperatorParam::new([#(#body),*]))"], {"name": "self.name", "body": "self.body"}, "`op { .. }` calls the named operator with its body clauses in order"),
    "Relation": (["#name(#(#body),*)"], {"name": "self.name", "body": "self.body"}, "`rel(a, ..)` calls the named relation with its arguments in order"),
    "Project": (
        ["{ #(let #v = LTerm::projection(#v);)* Project::new([#(#v),*], CONJC([#([#body]),*])) }"],
        {"v": "self.variables", "body": "self.body"},
        "`project |x| { body }` shadows each listed variable by its projection and runs the conjunction of the body",
    ),
}

TERM_TABLE = {
    # variant -> (shape, names, required branch condition or None)
    "Value": ("LTerm::from(#p)", {"p": payload("TreeTerm", "Value")}),
    "Var": ("#p", {"p": payload("TreeTerm", "Var")}),
    "Field": ("#p", {"p": payload("TreeTerm", "Field") + ".field"}),
    "Any": ("LTerm::any()", {}),
    "ImproperList": ("LTerm::improper_from_array([#(#items),*])", {"items": payload("TreeTerm", "ImproperList", "items")}),
    "ProperList": ("LTerm::from_array([#(#items),*])", {"items": payload("TreeTerm", "ProperList", "items")}),
}


def emission(alt):
    """What an alternative emits, as a canonical tree (a delegation emits its target's tokens)."""
    return alt.tree


def check_emitters(ctx, S):
    R1 = "C14.K11.emitters"
    R2 = "C14.K12.clause-table"
    variants = S.variants("Clause") if "Clause" in S.enums else []
    ctx.floor(R1, len(variants), CLAUSE_VARIANTS_FLOOR, "Clause variants")
    cl = macrolib.by_variant(S, "Clause", "Clause")
    ci = macrolib.by_variant(S, "ClauseInOperator", "Clause")
    for ty, table in (("Clause", cl), ("ClauseInOperator", ci)):
        for extra in sorted(set(table) - set(variants)):
            for a in table[extra]:
                ctx.violation(R1, "%s|arm=%s" % (ty, extra), a.site, "`%s::to_tokens` has an arm `%s` that is not a single Clause variant (a catch-all arm hides missing variants)" % (ty, extra))
    for v in variants:
        a1 = cl.get(v, [])
        a2 = ci.get(v, [])
        ok1 = ctx.expect(len(a1) == 1, R1, "Clause|variant=%s" % v, a1[0].site if a1 else "macros/src/lib.rs", "Clause::to_tokens must emit variant %s in exactly one place, found %d" % (v, len(a1)))
        ok2 = ctx.expect(len(a2) == 1, R1, "ClauseInOperator|variant=%s" % v, a2[0].site if a2 else "macros/src/lib.rs", "ClauseInOperator::to_tokens must emit variant %s in exactly one place, found %d" % (v, len(a2)))
        if not (ok1 and ok2):
            continue
        a1, a2 = a1[0], a2[0]
        p = payload("Clause", v)
        want = CLAUSE_TABLE.get(v)
        if want is None:
            ctx.violation(R2, "Clause|variant=%s" % v, a1.site, "Clause variant %s has no line in the translation table (new surface construct: add its documented meaning)" % v)
            continue
        if want == "payload":
            ctx.expect(a1.tree == ("interp", p), R2, "Clause|variant=%s" % v, a1.site, "Clause::%s must emit its own payload's tokens; found `%s`" % (v, tmplsem.show(a1.tree)[:200]))
        else:
            check_shape(ctx, R2, "Clause|variant=%s" % v, a1, want, {"p": p}, "Clause::%s" % v)
        # in-operator form: the same goal wrapped as a one-element conjunction array
        if v == "Conjunction":
            ctx.expect(a2.tree == ("interp", p), R2, "ClauseInOperator|variant=%s" % v, a2.site, "inside an operator a conjunction is its bare goal array; found `%s`" % tmplsem.show(a2.tree)[:200])
        else:
            ctx.expect(a2.tree == ("array", [a1.tree]), R2, "ClauseInOperator|variant=%s" % v, a2.site, "inside an operator, %s must be `[ <what Clause::to_tokens emits for %s> ]` = `[%s]`; found `%s`" % (v, v, tmplsem.show(a1.tree)[:160], tmplsem.show(a2.tree)[:200]))


def check_constructs(ctx, S):
    R = "C14.K12.construct"
    RA = "C14.K12.list-discipline"
    for ty, (shapes, names, why) in sorted(CONSTRUCT_TABLE.items()):
        a = macrolib.single_alt(ctx, S, R, ty)
        if a is None:
            continue
        check_shape(ctx, R, ty, a, shapes, names, "%s (%s)" % (ty, why))
        check_adaptors(ctx, RA, ty, a)
    # Argument: each form emits the written argument itself
    arg = macrolib.by_variant(S, "Argument", "Argument")
    ctx.floor(R, len(arg), 3, "Argument variants emitted")
    for v, key in (("TreeTerm", 0), ("Compound", 0), ("Expr", "expr")):
        for a in arg.get(v, []):
            ctx.expect(a.tree == ("interp", payload("Argument", v, key)), R, "Argument|variant=%s%s" % (v, "|" + str(a.conds) if a.conds else ""), a.site, "an argument must be passed as written; found `%s`" % tmplsem.show(a.tree)[:160])
        if not arg.get(v):
            ctx.violation(R, "Argument|variant=%s" % v, "macros/src/lib.rs", "no emission for Argument::%s" % v)
    # entry points
    for fn, want, names in (
        ("proto_vulcan", "#c", {"c": "local:clause"}),
        ("lterm", "#t", {"t": "local:term"}),
        ("proto_vulcan_query", "#q", {"q": "local:query"}),
    ):
        ts = S.fn_templates(fn)
        if ctx.expect(len(ts) == 1, R, "entry=%s" % fn, "macros/src/lib.rs", "entry point %s must have one template, found %d" % (fn, len(ts))):
            alt = tmplsem.Alt("template", ts[0], S)
            check_shape(ctx, R, "entry=%s|shape" % fn, alt, want, names, "macro %s! emits exactly the parsed item" % fn)
    ts = S.fn_templates("proto_vulcan_closure")
    if ctx.expect(len(ts) == 1, R, "entry=proto_vulcan_closure", "macros/src/lib.rs", "entry point must have one template"):
        alt = tmplsem.Alt("template", ts[0], S)
        o = list(alt.origins.values())
        ok = alt.tree[0] == "interp" and len(o) == 1
        chain = [l for l in ts[0]["lets"] if l["name"] == "closure"]
        ok = ok and bool(chain) and chain[-1]["text"].replace(" ", "") == "Closure::new(vec![clause])"
        ctx.expect(ok, R, "entry=proto_vulcan_closure|shape", alt.site, "proto_vulcan_closure! must emit Closure::new(vec![<the parsed clause>]); found `%s` with %s" % (tmplsem.show(alt.tree), chain[-1]["text"] if chain else "?"))


def check_terms(ctx, S):
    R = "C14.K12.term-table"
    RA = "C14.K12.list-discipline"
    for ty in ("TreeTerm", "InnerTreeTerm"):
        tab = macrolib.by_variant(S, ty, "TreeTerm")
        for v in S.variants("TreeTerm"):
            alts = tab.get(v, [])
            if v not in TERM_TABLE:
                ctx.violation(R, "%s|variant=%s" % (ty, v), alts[0].site if alts else "macros/src/lib.rs", "term form %s has no line in the term table" % v)
                continue
            shape, names = TERM_TABLE[v]
            if not alts:
                ctx.violation(R, "%s|variant=%s" % (ty, v), "macros/src/lib.rs", "%s::to_tokens emits nothing for %s" % (ty, v))
                continue
            for a in alts:
                key = "%s|variant=%s" % (ty, v)
                if v == "ProperList" and a.conds:
                    # an `is_empty()` split: the empty branch may use the empty-list constructor
                    c, taken = a.conds[-1]
                    is_empty_test = c.replace(" ", "") == "items.is_empty()"
                    if not ctx.expect(is_empty_test and len(a.conds) == 1, R, key + "|cond", a.site, "unrecognised condition `%s` around the list template" % c):
                        continue
                    if taken:
                        check_shape(ctx, R, key + "|empty", a, ["LTerm::empty_list()", "LTerm::from_array([#(#items),*])"], names, "`[]` is the empty list")
                        continue
                    key += "|non-empty"
                elif a.conds:
                    ctx.violation(R, key + "|cond", a.site, "term template for %s is emitted only under `%s`" % (v, a.conds))
                    continue
                check_shape(ctx, R, key, a, shape, names, "%s::%s" % (ty, v))
                check_adaptors(ctx, RA, key, a)
    # Value: literal tokens are emitted unchanged
    val = macrolib.by_variant(S, "Value", "Value")
    for v in S.variants("Value") if "Value" in S.enums else []:
        alts = val.get(v, [])
        ctx.expect(len(alts) == 1 and alts[0].tree == ("interp", payload("Value", v)), R, "Value|variant=%s" % v, alts[0].site if alts else "macros/src/lib.rs", "a literal must be emitted as written")


QUERY_SHAPE = """{
  #(let #q = NEWVAR(stringify!(#q));)*
  let __vars__ = [#(#q),*];
  let goal = {
      let __query__ = LTerm::var("__query__");
      Fresh::new([__query__], CONJ([EQ(__query__, LTerm::from_array([#(#q),*])), CONJ([#(#body),*]), reify(__query__)]))
  };
  Query::new(__vars__, goal)
}"""


def check_query(ctx, S):
    R = "C14.K12.query"
    a = macrolib.single_alt(ctx, S, R, "Query")
    if a is None:
        return
    names = {"q": "self.variables.name", "body": "self.body"}
    check_shape(ctx, R, "Query|goal", a, QUERY_SHAPE, names, "query = fresh __query__; __query__ == [vars in declaration order]; body; reify(__query__)")
    check_adaptors(ctx, "C14.K12.list-discipline", "Query", a)
    # generated result struct and positional constructor iterate the same list
    structs = tmplsem.generated_structs(a.rec)
    qs = [s for s in structs if "QResult" in s[1]]
    if ctx.expect(len(qs) == 1, R, "Query|result-struct", a.site, "expected one generated QResult struct, found %d" % len(qs)):
        reps = [n for n in tmpl.walk(qs[0][2]) if isinstance(n, tuple) and n and n[0] == "rep"]
        ok = len(reps) == 1 and reps[0][1] and reps[0][1][0] == ("expr", ("interp", "self.variables.name"))
        ctx.expect(ok, R, "Query|result-fields", a.site, "QResult must have one field per query variable, named after it, in declaration order; found %s" % tmplsem.show(qs[0][2])[:200])
    fns = [g for g in tmplsem.generated_fns(a.rec) if g.name == "from_vec"]
    if ctx.expect(len(fns) == 1, R, "Query|from_vec", a.site, "expected one generated from_vec, found %d" % len(fns)):
        g = fns[0]
        want = tmplsem.expected("{ let vi = v.into_iter(); QResult { #( #q ; vi.next().unwrap() ; )* } }")
        # structural reading: cursor = v.into_iter(); every field takes the next element
        t = g.tree
        ok = t[0] == "block" and len(t[1]) == 1 and t[1][0][0] == "let" and t[1][0][2] == ("method", ("path", "v"), "into_iter", [])
        cursor = t[1][0][1][0][1] if ok else None
        reps = g.reps()
        ok = ok and len(reps) == 1 and reps[0][1] == {"self.variables.name"}
        if ok:
            inner = [n[1] if n[0] == "expr" else n for n in reps[0][0][1]]
            ok = inner[:2] == [("interp", "self.variables.name"), ("method", ("method", ("path", cursor), "next", []), "unwrap", [])]
            # the cursor is only ever advanced with next()
            uses = [n for n in tmpl.walk(t) if isinstance(n, tuple) and n and n[0] == "method" and n[1] == ("path", cursor)]
            ok = ok and len(uses) == 1 and uses[0][2] == "next"
        ctx.expect(ok, R, "Query|from_vec-positional", a.site, "from_vec must assign `vi.next().unwrap()` to the fields in declaration order from `v.into_iter()`; found %s" % tmplsem.show(t)[:240])


# ----------------------------------------------------------------------
# parser dispatch (macro crate, typed HIR)
def check_parser(ctx, mac):
    R = "C14.K6.parser-dispatch"
    ev = sym.Evaluator(mac)
    fn = mac.fns.get("<crate::Clause as crate::syn::parse::Parse>::parse")
    if fn is None:
        ctx.violation(R, "anchor-missing|Clause::parse", "macros/src/lib.rs", "Clause::parse not found")
    else:
        ctx.fn_seen(fn["npath"])
        t = ev.fn_term(fn)
        hits = []
        for s, lits in tables.occurrences_with_guards(t):
            if s[0] == "ctor" and (suffix_match(s[1], "Clause::Succeed") or suffix_match(s[1], "Clause::Fail")):
                vals = [(l, w) for l, w in lits if isinstance(l, tuple) and l and l[0] == "field" and l[2] == "value"]
                h = (s[1].split("::")[-1], tuple(vals))
                if h not in hits:
                    hits.append(h)
        ctx.floor(R, len(hits), 2, "Succeed/Fail construction sites in Clause::parse")
        for name, vals in hits:
            want = name == "Succeed"
            ok = len(vals) == 1 and vals[0][1] == want
            ctx.expect(ok, R, "Clause::parse|literal=%s" % name, site_of(fn), "Clause::%s must be built exactly when the boolean literal's value is %s; guards found: %s" % (name, str(want).lower(), [(show(l, maxdepth=3), w) for l, w in vals]))
    fn = mac.fns.get("<crate::TreeTerm as crate::syn::parse::Parse>::parse")
    if fn is None:
        ctx.violation(R, "anchor-missing|TreeTerm::parse", "macros/src/lib.rs", "TreeTerm::parse not found")
        return
    ctx.fn_seen(fn["npath"])
    t = sym.Evaluator(mac, named_lets=True).fn_term(fn)
    site = site_of(fn)
    # result selection: if <flag> { ProperList } else { ImproperList }
    def builds(x, variant):
        return any(s[0] in ("struct", "ctor") and suffix_match(s[1], "TreeTerm::" + variant) for s in sym.subterms(x))

    sel = [s for s in sym.subterms(t) if s[0] == "if" and s[3] is not None and builds(s[2], "ProperList") and builds(s[3], "ImproperList") and not builds(s[2], "ImproperList") and not builds(s[3], "ProperList")]
    if not ctx.expect(len(sel) == 1 and sel[0][1][0] == "var", R, "TreeTerm::parse|list-kind", site, "the list kind must be selected by one flag: `if is_proper { ProperList } else { ImproperList }`"):
        return
    flag = sel[0][1]
    # the flag starts true and is cleared only after a `|` token
    inits = [st[2] for s in sym.subterms(t) if s[0] == "seq" for st in s[1] if st[0] == "let" and st[1][0] == "pbind" and st[1][1] == flag[1]]
    inits = list(dict.fromkeys(inits))
    ctx.expect(len(inits) == 1 and "true" in str(inits[0]), R, "TreeTerm::parse|flag-init", site, "the list is proper until a `|` is seen")
    clears = []
    for s, lits in tables.occurrences_with_guards(t):
        if s[0] == "assign" and s[1] == flag:
            bar = [l for l, w in lits if w and isinstance(l, tuple) and l and l[0] == "call" and suffix_match(l[1], "peek") and "token::Or" in str(l[2])]
            clears.append(("false" in str(s[2]), bool(bar)))
    ctx.expect(set(clears) == {(True, True)}, R, "TreeTerm::parse|improper-on-bar", site, "the list becomes improper exactly in the branch that has consumed a `|`; found %s" % clears)
    # every parsed item is pushed to `items` (both the elements and the tail)
    parses = [s for s in sym.subterms(t) if s[0] == "letv" and s[3][0] == "try" and s[3][1][0] == "call" and suffix_match(s[3][1][1], "ParseBuffer::parse") and s[2] in ("term", "rest")]
    pushes = [s for s in sym.calls(t, "Vec::push")]
    pushed = set()
    for p in pushes:
        if p[2][1][0] == "letv":
            pushed.add(p[2][1][1])
    vals = set(s[1] for s in sym.subterms(t) if s[0] == "letv" and s[3][0] == "try" and any(True for _ in sym.calls(s[3], "ParseBuffer::parse")))
    items_pushed = [p for p in pushes if p[2][1][0] == "letv" and p[2][1][1] in vals]
    ctx.expect(len(items_pushed) >= 2, R, "TreeTerm::parse|keeps-items", site, "each parsed element and the parsed tail must be pushed onto the item list; found %d push(es) of parsed terms" % len(items_pushed))


# ----------------------------------------------------------------------
# library entry points the templates call (typed HIR)
def check_library(ctx, lib):
    R = "C14.K3.library-entry"
    ev = streams.plain_evaluator(lib)
    for rel, method in (("eq", "State::unify"), ("diseq", "State::disunify")):
        ty = rel.capitalize()
        fn = streams.getfn(ctx, lib, R, "crate::relation::%s::%s" % (rel, rel))
        if fn:
            t = ev.fn_term(fn)
            nodes = [s for s in sym.subterms(t) if s[0] == "struct" and suffix_match(s[1], "%s::%s" % (rel, ty))]
            ok = len(nodes) == 1
            if ok:
                f = dict(nodes[0][2])
                ok = sorted(v[1] for v in f.values() if v[0] == "param") == [0, 1] and len(f) == 2
            ctx.expect(ok, R, "%s|holds-operands" % rel, site_of(fn), "%s(u, v) must build a %s goal holding exactly its two operands; found %s" % (rel, ty, show(t, maxdepth=6)[:200]))
        fn = streams.getfn(ctx, lib, R, "<crate::relation::%s::%s as crate::solver::Solve>::solve" % (rel, ty))
        if fn:
            t = ev.fn_term(fn)
            eff, m = tables.flatten(t)
            ok = m and m[0] == "match" and m[1][0] == "call" and suffix_match(m[1][1], method) and m[1][2][0] == ("param", 2, m[1][2][0][2])
            if ok:
                ops = m[1][2][1:]
                fields = sorted(o[2] for o in ops if o[0] == "field" and o[1][0] == "param" and o[1][1] == 0)
                ok = len(fields) == 2 and fields[0] != fields[1]
            ctx.expect(ok, R, "%s|solve-calls=%s" % (rel, method), site_of(fn), "%s::solve must be %s(state, self.u, self.v); found %s" % (ty, method, show(m[1] if m and len(m) > 1 else t, maxdepth=5)[:200]))
            if ok:
                tables.check_match_table(
                    ctx,
                    R,
                    fn["npath"],
                    site_of(fn),
                    t,
                    m[1],
                    {
                        "Ok": lambda body, b: (b if _unit_of(tables.result(body), m[1]) and not [e for e in tables.flatten(body)[0] if not tables.harmless_effect(e)] else None, "success yields exactly the resulting state"),
                        "Err": lambda body, b: (unify(sym.AnyOf(pat("empty()"), pat("Stream::Empty")), tables.result(body), b), "failure yields no answer"),
                    },
                )
    for name, ctor in (("succeed", "succeed"), ("fail", "fail")):
        fn = streams.getfn(ctx, lib, R, "crate::relation::%s::%s" % (name, name))
        if fn:
            t = ev.fn_term(fn)
            calls_ = [c[1].split("::")[-1] for c in sym.calls(t)] + [c[1].split("::")[-1].lower() for c in sym.ctors(t)]
            ok = ctor in calls_ and ("fail" if ctor == "succeed" else "succeed") not in calls_
            ctx.expect(ok, R, "%s|is-%s" % (name, ctor), site_of(fn), "%s() must be the %s goal; found %s" % (name, ctor, show(t, maxdepth=5)[:160]))
    # Fresh / Closure run their body on the incoming state
    fn = streams.getfn(ctx, lib, R, "<crate::operator::closure::Closure as crate::solver::Solve>::solve")
    if fn:
        t = ev.fn_term(fn)
        r = tables.result(t)
        ok = r[0] == "call" and suffix_match(r[1], "solve") and len(r[2]) == 3 and r[2][0][0] == "callv" and r[2][0][1] == ("field", ("param", 0, "self"), "f") and r[2][1][:2] == ("param", 1) and r[2][2][:2] == ("param", 2) and not tables.semis(t)
        ctx.expect(ok, R, "Closure::solve|runs-body", site_of(fn), "Closure::solve must be (self.f)().solve(solver, state); found %s" % show(t, maxdepth=5)[:200])
    fn = streams.getfn(ctx, lib, R, "crate::operator::closure::Closure::new")
    if fn:
        t = ev.fn_term(fn)
        nodes = [s for s in sym.subterms(t) if s[0] == "struct" and suffix_match(s[1], "closure::Closure")]
        ok = len(nodes) == 1 and dict(nodes[0][2]).get("f") == ("field", ("param", 0, "param"), "f")
        ctx.expect(ok, R, "Closure::new|keeps-f", site_of(fn), "Closure::new must keep the parameter's closure")
    fn = streams.getfn(ctx, lib, R, "crate::operator::fresh::Fresh::new")
    if fn:
        t = ev.fn_term(fn)
        nodes = [s for s in sym.subterms(t) if s[0] == "struct" and suffix_match(s[1], "fresh::Fresh")]
        ok = len(nodes) == 1 and dict(nodes[0][2]).get("body", (0, 0))[:2] == ("param", 1)
        ctx.expect(ok, R, "Fresh::new|keeps-body", site_of(fn), "Fresh::new must keep its body goal")
    fn = streams.getfn(ctx, lib, R, "<crate::operator::fresh::Fresh as crate::solver::Solve>::solve")
    if fn:
        t = ev.fn_term(fn)
        pauses = [c for c in sym.subterms(t) if c[0] in ("call", "ctor") and ("pause" in c[1].lower())]
        ok = len(pauses) >= 1
        for c in pauses:
            flat = str(c)
            ok = ok and "'body'" in flat and ("'param', 2" in flat)
        ctx.expect(ok, R, "Fresh::solve|pauses-body", site_of(fn), "Fresh::solve must suspend its body on the incoming state; found %s" % show(t, maxdepth=6)[:240])
    # conjunction builders used by the templates: total, order-preserving folds
    RB = "C14.K6.conjunction-builder"
    for tyname, unit, new in (("InferredConj", "succeed()", "InferredConj::new"), ("Conj", "Goal::Succeed", "Conj::new")):
        for f in ("from_array", "from_vec"):
            check_fold(ctx, lib, RB, "crate::operator::conj::%s::%s" % (tyname, f), new)
        check_fold(ctx, lib, RB, "crate::operator::conj::%s::from_conjunctions" % tyname, new, inner="%s::from_array" % tyname)
    import builders

    builders.check_all(ctx, lib, "C14.K6.builders")
    # `true` / `false` and goal casts: the goal kinds mean what the templates assume
    import goalkinds

    goalkinds.check_goal_kinds(ctx, lib, "C14.K5.goal-kinds")
    # "terms denote the written term" as reported: walk* rebuilds lists cell by cell (improper tails
    # kept) and compounds field by field; `!=` re-checks all its pairs in one substitution
    import C02
    import traversal

    traversal.run_table(ctx, lib, "C14.K5.walk-star-is-deep", only=["walk_star"])
    C02.check_run(ctx, lib, "C14.K3K6.diseq-recheck")
    C02.check_normalize(ctx, lib, "C14.K6.diseq-normalize")
    C02.check_subsumes(ctx, lib, "C14.K3.diseq-subsumes")
    # the conjunction node constructors keep both goals (a constant-folding slip drops conjuncts)
    streams.check_conj_new(ctx, lib, "C14.K6.conj-new", "crate::operator::conj::Conj::new", "Goal", "Conj")
    streams.check_conj_new(ctx, lib, "C14.K6.conj-new", "crate::operator::conj::InferredConj::new", "G", "InferredConj")
    # conde { .. } is the disjunction of the conjunctions of its clauses, all of them, in order
    import C13

    C13.check_conde_builder(ctx, lib, "C14.K6.conde-builder")
    fn = streams.getfn(ctx, lib, R, "crate::operator::conde::conde")
    if fn:
        t = ev.fn_term(fn)
        r = tables.result(t)
        if r[0] == "field" and r[2] == "goal":
            r = r[1]
        ctx.expect(unify(pat("Conde::from_conjunctions(@0.body)"), r) is not None and not tables.semis(t), R, "conde|delegates", site_of(fn), "conde(param) must be Conde::from_conjunctions(param.body); found %s" % show(t, maxdepth=4)[:160])
    # OperatorParam::new / ClosureOperatorParam::new keep their argument
    for p, field in (("OperatorParam", "body"), ("ClosureOperatorParam", "f"), ("PatternMatchOperatorParam", "arms")):
        fn = streams.getfn(ctx, lib, R, "crate::operator::%s::new" % p)
        if fn:
            t = ev.fn_term(fn)
            nodes = [s for s in sym.subterms(t) if s[0] == "struct" and suffix_match(s[1], p)]
            ok = len(nodes) == 1 and dict(nodes[0][2]).get(field, (0, 0))[:2] == ("param", 0)
            ctx.expect(ok, R, "%s::new|keeps-%s" % (p, field), site_of(fn), "%s::new must keep its argument as `%s`" % (p, field))


def _unit_of(r, scrut):
    """r is Stream::unit(x) / Stream::Unit(x) with x the Ok payload of `scrut`."""
    if r[0] == "call" and suffix_match(r[1], "unit") or r[0] == "ctor" and suffix_match(r[1], "Stream::Unit"):
        args = r[2]
        return len(args) == 1 and args[0][0] == "proj" and args[0][1] == scrut and args[0][3] == 0
    return False


def check_fold(ctx, lib, rule, fn_suffix, new_suffix, inner=None, unit="succeed"):
    """acc = unit; for g in <every element once, reversed> { acc = new(g, acc) }  (written order kept).
    unit is `succeed` for a conjunction (the empty conjunction holds) and `fail` for a disjunction."""
    fn = streams.getfn(ctx, lib, rule, fn_suffix)
    if not fn:
        return
    ev = sym.Evaluator(lib, extra_identity=streams.GOAL_CAST)
    t = ev.fn_term(fn)
    key = fn["npath"]
    site = site_of(fn)
    fors = list(dict.fromkeys(s for s in sym.subterms(t) if s[0] == "for"))
    if not ctx.expect(len(fors) == 1, rule, key + "|shape", site, "expected one fold loop, found %d" % len(fors)):
        return
    f = fors[0]
    it = f[1]
    # strip a map(|c| inner(c)) adaptor when the builder takes arrays of clauses
    src, chain = streams.iter_chain(it)
    okmap = inner is None
    names = []
    for name, node in chain:
        if name == "map" and inner is not None:
            clo = node[2][1] if len(node[2]) > 1 else None
            body = tables.result(clo[3]) if clo and clo[0] == "closure" else None
            if body and body[0] == "call" and suffix_match(body[1], inner) and body[2] and body[2][0][0] == "cparam":
                okmap = True
                continue
        names.append(name)
    rev = names.count("rev") % 2 == 1
    lossy = [n for n in names if n not in streams.ONE_TO_ONE and n != "rev"]
    ctx.expect(okmap, rule, key + "|clause-conjunction", site, "each clause array must be turned into a conjunction with %s" % inner)
    ctx.expect(not lossy and src[:2] == ("param", 0), rule, key + "|total", site, "the fold must visit every element of its argument exactly once; adaptors %s over %s" % (names, show(src, maxdepth=3)))
    ctx.expect(rev, rule, key + "|order", site, "a right-nested fold must iterate in reverse so that the first written goal runs first")
    body = [e for e in tables.stmts_of(f[3]) if not tables.harmless_effect(e)]
    ok = len(body) == 1 and body[0][0] == "assign" and body[0][1][0] == "var"
    if ok:
        acc = body[0][1]
        rhs = body[0][2]
        news = [c for c in sym.calls(rhs, new_suffix)]
        ok = len(news) == 1 and news[0][2] == (("item", it), acc)
        if not news:
            # `new` inlined (a pure constructor wrapper): the node must hold (element, acc)
            nodes = list(dict.fromkeys(q for q in sym.subterms(rhs) if q[0] == "struct" and dict(q[2]).get("goal_1") is not None))
            ok = len(nodes) == 1 and suffix_match(nodes[0][1], new_suffix.split("::")[0]) and dict(nodes[0][2]).get("goal_1") == ("item", it) and dict(nodes[0][2]).get("goal_2") == acc
        res = tables.result(t)
        ok = ok and any(s == acc for s in sym.subterms(res))
    ctx.expect(ok, rule, key + "|step", site, "each iteration must be acc = %s(element, acc) and the result the accumulator; found %s" % (new_suffix, show(f[3], maxdepth=5)[:240]))
    if ok:
        inits = [st[2] for q in sym.subterms(t) if q[0] == "seq" for st in q[1] if st[0] == "let" and st[1][0] == "pbind" and st[1][1] == acc[1]]
        inits = list(dict.fromkeys(inits))
        U = unit.capitalize()
        oki = len(inits) == 1 and (tables.result(inits[0])[0] == "call" and suffix_match(tables.result(inits[0])[1], unit) and not tables.result(inits[0])[2] or tables.result(inits[0])[0] == "ctor" and tables.result(inits[0])[1].endswith("::" + U))
        ctx.expect(oki, rule, key + "|unit=%s" % unit, site, "the fold must start from `%s` (the neutral element: an empty %s); starts as %s" % (unit, "conjunction holds" if unit == "succeed" else "disjunction has no answers", show(inits[0], maxdepth=4) if inits else "?"))


def run(ctx, fb, cfg):
    if cfg != "lib-default":
        check_library(ctx, fb.lib)
        return
    S = macrolib.load_sem(ctx, fb)
    if S is None:
        return
    check_emitters(ctx, S)
    check_constructs(ctx, S)
    check_terms(ctx, S)
    check_query(ctx, S)
    mac = fb.macros
    if mac is None:
        ctx.violation("C14.K6.parser-dispatch", "anchor-missing|macro crate facts", "macros/src/lib.rs", "no typed-HIR facts for proto_vulcan_macros")
    else:
        check_parser(ctx, mac)
        macrolib.check_sequence_ops(ctx, mac, "C14.K6.front-end-only-appends")
    check_library(ctx, fb.lib)
