"""C06 - Interleaving search loses no answers and invents none.

Decided (structural):
 * linearity (K4, MIR): in every non-test function that owns a State / Stream / LazyStream / Lazy
   value, no such value is dropped on a path that does not report failure (Err / None / Empty
   result) and none is cloned, except at the allow-listed sites (one reason each);
 * the BFS stream equations (K3/K5): merge, bind, Conj/Disj/InferredConj solve, engine step
   (explicit arm per Lazy variant), Solver::start / next, the BFS fold of conde, map_sum;
 * conjunction constructors keep both goals.
 (round 4, shared) builders.check_all; operator search kinds from typed signatures; the clause
   translation table of the macro (bare true/false, ==, != ... per Clause variant; with C14);
   Conde::from_array keeps one branch per listed goal.
 (round 5, shared with C05) dfs { .. } hands its body on as the same goal kind.
"""
import mirlib
import streams
import sym
import tables
from pat import pat
from report import site_of
from streams import BFS, DFS
from sym import show, suffix_match, unify

EXPLANATION = (
    "Static linearity audit on elaborated MIR (path-sensitive constant propagation of drop flags and known enum variants): "
    "every reachable Drop / Clone / mem::drop of a value containing State, Stream, LazyStream or Lazy in non-test library code is "
    "either on a failure-reporting path or in a reasoned allow-list; plus the BFS stream equations (merge/bind/step/solve/next tables, "
    "conde fold, map_sum) compared on typed-HIR symbolic terms. Decides code shape for every program and schedule, not the answers of a given program."
)
NOT_DECIDED = "equality of the answer multiset with DFS / a reference semantics on a given program (needs execution or proof)"
TECHNIQUE = "static analysis: MIR ownership/linearity audit (drop-flag propagation) + typed-HIR equation tables via rustc_private driver"

FAIL_RET = {"Err", "None", "Empty"}

# (function suffix, kind, type-substring) -> reason
ALLOW = [
    ("Conda as crate::solver::Solve>::solve", "clone", "State", "the state is cloned once to try the head goal; the original is kept for the next clause"),
    ("Conda as crate::solver::Solve>::solve", "drop", "stream::Stream", "None arm: the head stream is exhausted (peek matured it to Empty) when it is dropped"),
    ("Conda as crate::solver::Solve>::solve", "drop", "state::State", "Some arm: the untouched original state is discarded once the clause is committed"),
    ("Condu as crate::solver::Solve>::solve", "clone", "State", "as conda"),
    ("Condu as crate::solver::Solve>::solve", "drop", "stream::Stream", "as conda (trunc matured the head stream to Empty)"),
    ("Condu as crate::solver::Solve>::solve", "drop", "state::State", "as conda"),
    ("Conde as crate::solver::Solve>::solve", "clone", "State", "one clone of the incoming state per additional clause (branch fork)"),
    ("Conde as crate::solver::Solve>::solve", "drop", "state::State", "a conde without clauses has no answers: the state is dropped and the empty stream returned"),
    ("Disj as crate::solver::Solve>::solve", "clone", "State", "branch fork"),
    ("DFSDisj as crate::solver::Solve>::solve", "clone", "State", "branch fork"),
    ("ResultIterator as std::iter::Iterator>::next", "drop", "Box<state::State>", "the answer state has been converted into LResults"),
    ("DisequalityConstraint as crate::state::constraint::Constraint>::run", "clone", "State", "scratch copy used to test unifiability (C02)"),
    ("DisequalityConstraint as crate::state::constraint::Constraint>::run", "drop", "state::State", "the scratch copy is discarded; the original state is returned"),
    ("DisequalityConstraint::subsumes", "drop", "state::State", "scratch state built from the other constraint's substitution"),
    ("State::disunify", "clone", "State", "scratch copy used to test unifiability (C02)"),
    ("State::disunify", "drop", "Result<state::State, ()>", "the unified scratch state is discarded; disunify never returns it"),
    ("MapSumIterator as crate::stream::StreamIterator>::next", "clone", "State", "branch fork: one copy per iterator item"),
    ("map_sum::map_sum", "clone", "State", "branch fork: one copy per additional item"),
    ("Solver::trunc", "drop", "stream::LazyStream", "committed choice: the residual after the first answer is discarded (C08)"),
]
FLOOR_EVENTS = 19
FLOOR_FUNCTIONS = 90


def linearity(ctx, lib, rule):
    nfn = 0
    nev = 0
    used = set()
    bodies = list(lib.fns.items()) + list(lib.closures.items())
    for p, fn in sorted(bodies):
        if "mir" not in fn or fn.get("in_test_mod") or fn["span"].endswith("!"):
            continue
        m = fn["mir"]
        if not any(mirlib.ty_contains(l["tys"], mirlib.STATE_ADTS) for l in m["locals"]):
            continue
        a = mirlib.drop_audit(fn, lib)
        nfn += 1
        ctx.fn_seen(p)
        if a.exhausted:
            ctx.violation(rule, "%s|unresolved" % p, site_of(fn), "path-sensitive drop analysis exceeded its state bound (%d states): cannot see this function any more" % a.states)
            continue
        ctx.count("cfg_states_explored", a.states)
        for e in a.events:
            if e["kind"] == "drop" and e["ret"] <= FAIL_RET:
                ctx.count("drops_on_failure_paths")
                continue
            nev += 1
            key = "%s|%s|%s" % (p, e["kind"], e["ty"])
            hit = None
            for i, (fs, kind, tysub, reason) in enumerate(ALLOW):
                if kind == e["kind"] and (p.endswith(fs) or fs in p) and tysub in e["ty"]:
                    hit = i
                    break
            if hit is not None:
                used.add(hit)
                ctx.ok(rule, key, site_of(e["sp"]), "allowed: " + ALLOW[hit][3])
            else:
                what = {
                    "drop": "a value of type %s (it can hold search states) is dropped on a path that does not report failure: answers may be lost",
                    "clone": "a value of type %s is cloned outside the listed fork points: answers may be duplicated",
                    "memdrop": "a value of type %s is passed to mem::drop/forget",
                }[e["kind"]] % e["ty"]
                ctx.violation(rule, key, site_of(e["sp"]), what + " (place %s)" % e.get("place", ""))
    ctx.floor(rule, nfn, FLOOR_FUNCTIONS, "functions owning state-bearing values")
    ctx.floor(rule, nev, FLOOR_EVENTS, "classified drop/clone sites")
    for i, a in enumerate(ALLOW):
        if i not in used:
            ctx.note("allow-list entry not used on this tree: %s %s %s" % a[:3])


def arm_stmts(body):
    return [e for e in tables.stmts_of(body) if not tables.harmless_effect(e)]


def check_solver_next(ctx, lib, rule):
    fn = streams.getfn(ctx, lib, rule, "crate::solver::Solver::next")
    if not fn:
        return
    t = streams.plain_evaluator(lib).fn_term(fn)
    key = fn["npath"]
    site = site_of(fn)
    eff, res = tables.flatten(t)
    loops = [res] if res and res[0] == "loop" else [e for e in eff if e[0] == "loop"]
    if len(loops) != 1:
        ctx.violation(rule, key + "|shape", site, "expected one loop")
        return
    body = loops[0][1]
    M = "$m"

    def seq(*pats):
        def f(b, bind):
            st = arm_stmts(b)
            if len(st) != len(pats):
                return (None, "expected %d statement(s), found %s" % (len(pats), [show(x, maxdepth=4)[:100] for x in st]))
            for s, p in zip(st, pats):
                bind = unify(pat(p) if isinstance(p, str) else p, s, bind)
                if bind is None:
                    return (None, "statement %s does not match %s" % (show(s, maxdepth=5)[:160], p))
            return (bind, "")

        return f

    ret = lambda x: ("ret", pat(x))
    assign = lambda l, r: ("assign", pat(l), pat(r))
    scrut = sym.V("m")
    # scrutinee: mem::replace(stream, Stream::Empty)
    eff2, m = tables.flatten(body)
    ok = m and m[0] == "match" and unify(pat("replace(@1, Stream::Empty)"), m[1]) is not None
    ctx.expect(ok, rule, key + "|take", site, "each iteration must take the stream out leaving Stream::Empty behind (mem::replace): this is what makes the iterator fused")
    if not ok:
        return
    b0 = {"m": m[1]}
    tables.check_match_table(
        ctx,
        rule,
        key,
        site,
        body,
        scrut,
        {
            "Stream::Empty": seq(ret("None")),
            "Stream::Unit": seq(ret("Some($m.Stream::Unit#0)")),
            "Stream::Lazy": seq(assign("@1", "step(@0.engine, @0, $m.Stream::Lazy#0.LazyStream#0)")),
            "Stream::Cons": seq(assign("@1", "Stream::Lazy($m.Stream::Cons#1)"), ret("Some($m.Stream::Cons#0)")),
        },
        bindings=b0,
    )
    wild = [p for p, g, b in m[2] if "*" in tables.pat_ctors(p)]
    ctx.expect(not wild, rule, key + "|no-wildcard", site, "Solver::next must not have a catch-all arm")


def check_map_sum(ctx, lib, rule):
    fn = streams.getfn(ctx, lib, rule, "crate::state::map_sum::map_sum")
    if fn:
        t = streams.plain_evaluator(lib).fn_term(fn)
        key = fn["npath"]
        site = site_of(fn)
        eff, res = tables.flatten(t)
        acc = res if res and res[0] == "var" else None
        loops = [e for e in eff if e[0] == "loop"]
        good = acc is not None and len(loops) == 1
        if good:
            eff2, m = tables.flatten(loops[0][1])
            good = m and m[0] == "match" and m[1][0] == "call" and suffix_match(m[1][1], "next")
        if not good:
            ctx.violation(rule, key + "|shape", site, "expected `loop { match iter.next() { Some(d) => ..., None => ... } }` accumulating into one stream")
        else:
            it = m[1][2][0]
            okc, rev, msg = streams.classify_iter(("call", "x::peekable", (it,)) if False else it, "@3")
            # `peekable` is the only extra adaptor and is 1:1
            src, chain = streams.iter_chain(it)
            names = [n for n, _ in chain]
            ctx.expect(src == ("param", 3, src[2] if len(src) > 2 else None) and all(n in streams.ONE_TO_ONE or n == "peekable" for n in names), rule, key + "|iteration", site, "map_sum must draw every item of its iterator exactly once (no skipping adaptor): %s" % show(it, maxdepth=4))
            some = tables.find_arm(m, "Some")
            if len(some) != 1:
                ctx.violation(rule, key + "|some-arm", site, "expected one Some(item) arm")
            else:
                item = ("proj", m[1], sym.ANY, 0)
                want = ("assign", acc, ("call", sym.P("Stream::mplus"), (("call", sym.P("solve"), (("callv", ("param", 2, sym.ANY), (item,)), ("param", 0, sym.ANY), ("param", 1, sym.ANY))), ("ctor", sym.P("LazyStream"), (("ctor", sym.P("Lazy::Delay"), (acc,)),)))))
                # every path through the Some arm performs exactly one such assignment
                paths = list(enum_paths(some[0][2]))
                bad = []
                for pth in paths:
                    asg = [s for s in pth if s[0] == "assign"]
                    if len(asg) != 1 or unify(want, asg[0]) is None:
                        bad.append(pth)
                ctx.expect(not bad and paths, rule, key + "|branch-per-item", site, "every item must add exactly one branch: acc = mplus(f(item).solve(solver, state), Delay(acc)); offending path: %s" % (show(("tuple", tuple(bad[0])), maxdepth=6)[:300] if bad else "none"))
    fn = streams.getfn(ctx, lib, rule, "<crate::state::map_sum::MapSumIterator as crate::stream::StreamIterator>::next")
    if fn:
        t = streams.plain_evaluator(lib).fn_term(fn)
        tables.check_match_table(
            ctx,
            rule,
            fn["npath"],
            site_of(fn),
            t,
            "next(@0.iter)",
            {"Some": lambda body, b: (unify(pat("Some(solve($f, @1, @0.state))"), tables.result(body), b), show(tables.result(body), maxdepth=5)), "None": "None"},
        )


def enum_paths(t):
    """Statement sequences of the acyclic paths through a block term (if/else only)."""
    stmts = tables.stmts_of(t)

    def go(i, acc):
        if i == len(stmts):
            yield acc
            return
        s = stmts[i]
        if s[0] == "if":
            for br in (s[2], s[3]):
                if br is None:
                    yield from go(i + 1, acc)
                else:
                    for sub in enum_paths(br):
                        yield from go(i + 1, acc + sub)
        elif s[0] == "let":
            yield from go(i + 1, acc)
        else:
            yield from go(i + 1, acc + [s])

    yield from go(0, [])


ALLOWED_SITES = {
    "Lazy::MPlus": ["Stream::mplus", "Stream::bind", "Disj as crate::solver::Solve>::solve", "LazyStream::mplus", "Stream::lazy_mplus"],
    "Lazy::Bind": ["Stream::bind", "Stream::lazy_bind", "LazyStream::bind", "Conj as crate::solver::Solve>::solve", "InferredConj as crate::solver::Solve>::solve"],
    "Lazy::Pause": ["Stream::bind", "Stream::pause", "LazyStream::pause", "Conj as crate::solver::Solve>::solve", "InferredConj as crate::solver::Solve>::solve", "Disj as crate::solver::Solve>::solve", "Fresh as crate::solver::Solve>::solve"],
    "Lazy::Delay": ["Conde as crate::solver::Solve>::solve", "map_sum::map_sum", "LazyStream::delay", "Stream::delay"],
}
FLOORS = {"Lazy::MPlus": 4, "Lazy::Bind": 4, "Lazy::Pause": 7, "Lazy::Delay": 6}


def run(ctx, fb, cfg):
    lib = fb.lib
    R = "C06."
    linearity(ctx, lib, R + "K4.linearity")
    streams.check_mplus(ctx, lib, BFS, R + "K3.merge")
    streams.check_bind(ctx, lib, BFS, R + "K3.bind")
    streams.check_conj_solve(ctx, lib, BFS, R + "K3.conj", "<crate::operator::conj::Conj as crate::solver::Solve>::solve")
    streams.check_inferred_conj(ctx, lib, R + "K3.inferred-conj", ["bfs"])
    streams.check_disj_solve(ctx, lib, BFS, R + "K3.disj", "<crate::operator::disj::Disj as crate::solver::Solve>::solve")
    streams.check_engine_step(ctx, lib, R + "K5.engine-step", [BFS, DFS])
    streams.check_engine_delay_iter(ctx, lib, R + "K3.engine-delay-iter")
    streams.check_start(ctx, lib, BFS, R + "K3.start")
    streams.check_conde_fold(ctx, lib, R + "K6.conde-fold", BFS)
    check_solver_next(ctx, lib, R + "K6.solver-next")
    check_map_sum(ctx, lib, R + "K6.map-sum")
    streams.check_conj_new(ctx, lib, R + "K6.conj-new", "crate::operator::conj::Conj::new", "Goal", "Conj")
    streams.check_conj_new(ctx, lib, R + "K6.conj-new", "crate::operator::conj::InferredConj::new", "G", "InferredConj")
    streams.census(ctx, lib, R + "K1.construction-sites", ALLOWED_SITES, FLOORS)
    # "depth-first and interleaving search return the same multiset": the depth-first merge and
    # bind must distribute over every answer of the first stream too (tables shared with C05)
    streams.check_mplus(ctx, lib, DFS, R + "K3.merge-dfs")
    streams.check_bind(ctx, lib, DFS, R + "K3.bind-dfs")
    streams.check_conj_new(ctx, lib, R + "K6.conj-new", "crate::operator::conj::DFSConj::new", "DFSGoal", "DFSConj")
    import goalkinds

    goalkinds.check_goal_kinds(ctx, lib, R + "K5.goal-kinds")
    streams.check_disj_new(ctx, lib, R + "K6.disj-new", "crate::operator::disj::Disj::new", "disj::Disj")
    streams.check_disj_new(ctx, lib, R + "K6.disj-new", "crate::operator::disj::DFSDisj::new", "DFSDisj")
    streams.check_disj_solve(ctx, lib, DFS, R + "K3.disj-dfs", "<crate::operator::disj::DFSDisj as crate::solver::Solve>::solve")
    streams.check_conde_fold(ctx, lib, R + "K6.conde-fold", DFS)
    import C13

    C13.check_conde_builder(ctx, lib, R + "K6.conde-builder")
    # every goal-array builder is a total, order-preserving fold from the neutral element (shared rule)
    import builders

    builders.check_all(ctx, lib, R + "K6.builders")
    streams.check_operator_kinds(ctx, lib, R + "K10.operator-search-kind")
    # `dfs { .. }` hands its body on as the same goal kind (Succeed / Fail / Breakpoint / Dynamic): a body that
    # Conj::new folded to Fail must stay Fail (with C05)
    import C05

    C05.check_dfs_operator(ctx, lib, R + "K5.dfs-operator")
    # bare `true` / `false` clauses and the other clause kinds expand to the goals the reference semantics
    # gives them (template table shared with C14)
    if cfg == "lib-default":
        import C14
        import C15
        import macrolib

        S = macrolib.load_sem(ctx, fb)
        if S is not None:
            C14.check_emitters(C15._Prefixed(ctx, "C06"), S)
