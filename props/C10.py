"""C10 - Search branches are isolated from each other.

Isolation is an aliasing fact: data behind a shared Rc can change only through interior
mutability or unsafe code. Decided (structural, for every program, schedule and history):
 * no interior mutability in search data (K9): the type closure of State, SMap, ConstraintStore,
   FiniteDomain, Stream, Lazy, LazyStream, Goal, DFSGoal, LTerm, LValue, every Constraint / Solve /
   CompoundObject / StreamIterator impl type and the captured variables of every in-crate closure
   contains no UnsafeCell / Cell / RefCell / OnceCell / atomic / lock / raw pointer, and no foreign
   type outside the listed std containers; positive control: the AtomicUsize id counter is found
   by the same scan of statics (a global used for variable ids only);
 * no back door (K1/K9): user-written unsafe blocks, unsafe fns, Rc::get_mut / as_ptr / into_raw /
   from_raw, ptr::write/read, transmute occur nowhere except LTerm::project (recorded finding F4);
   the three stores are written only through Rc::make_mut (clone-on-write);
 * forks clone: decided under C06 (K4); State is not Copy (witness, thorough tier).
 (round 4, shared) the disjunction builders are total folds from `fail` (a `succeed` seed adds a
   phantom branch, a swapped operand drops one).
 (round 5, shared) Conde keeps one branch per written clause (empty clause included).
"""
import hirwalk
import mutaudit
from facts import norm
from report import site_of

EXPLANATION = (
    "Static mutation audit: type-closure scan of all search data types, goal/constraint/compound implementors and closure captures for interior mutability, raw pointers and unknown foreign types; "
    "scan of every user-written unsafe block, unsafe fn and Rc/ptr/transmute back-door call; who-may-call rule for Rc::make_mut. With no interior mutability and no unsafe write, a write in one branch cannot reach memory another branch can see."
)
NOT_DECIDED = "the user type U and dyn Fn payloads supplied by callers (stated assumption); equality of conde{A,B} with the union of A and B on a given program"
TECHNIQUE = "static analysis: type-closure interior-mutability audit + unsafe/back-door call inventory over HIR/ADT facts via rustc_private driver"

MAKE_MUT_ALLOWED = {
    "crate::state::State::smap_to_mut": "substitution, clone-on-write",
    "crate::state::State::cstore_to_mut": "constraint store, clone-on-write",
    "crate::state::State::dstore_to_mut": "domain store, clone-on-write",
    "<crate::relation::clpfd::distinctfd::DistinctFd2Constraint as crate::state::constraint::Constraint>::run": "constraint object, clone-on-write",
    "<crate::lterm::LTerm as std::convert::AsMut<crate::lterm::LTermInner>>::as_mut": "term node, clone-on-write",
}


def run(ctx, fb, cfg):
    lib = fb.lib
    R = "C10."
    check_union(ctx, lib)
    extra = []
    if cfg == "all-targets":
        for k in fb.files:
            if k[2] and k[0] not in ("proto_vulcan", "proto_vulcan_macros"):  # example binaries: generated #[compound] types
                c = fb.crate(*k)
                if c is not None:
                    extra.append(c)
    visited, findings = mutaudit.type_closure(lib)
    ctx.count("adts_in_type_closure", len(visited))
    for a in sorted(visited):
        ctx.fn_seen(a)
    rule = R + "K9.no-interior-mutability"
    for kind, where, what in findings:
        ctx.violation(rule, "%s|%s|%s" % (kind, where, what), "", {
            "interior-mutability": "search data reaches an interior-mutable type %s via %s: a shared value could be modified in place by one branch" % (what, where),
            "raw-pointer": "search data holds a raw pointer (%s) at %s" % (what, where),
            "unresolved-foreign": "search data reaches foreign type %s (via %s) that is not in the audited container list: cannot rule out interior mutability" % (what, where),
        }[kind])
    if not findings:
        ctx.ok(rule, "type-closure", "", "%d ADTs, no interior mutability" % len(visited))
    ctx.floor(rule, len(visited), 45, "ADTs in the type closure of search data")
    # examples' generated compound types (thorough)
    for c in extra:
        v2, f2 = mutaudit.type_closure(c)
        for kind, where, what in f2:
            # types of the library itself are covered by the library's own closure above
            lib_type = what.startswith("proto_vulcan::") or what.startswith("crate::proto_vulcan::")
            if kind != "unresolved-foreign" or not lib_type:
                ctx.violation(rule, "example:%s|%s|%s|%s" % (c.name, kind, where, what), "", "generated compound type in example %s reaches %s (%s)" % (c.name, what, kind))
        ctx.ok(rule, "example:%s|type-closure" % c.name, "", "%d ADTs" % len(v2))
    # positive control
    st = mutaudit.statics_with_interior_mutability(lib)
    names = {norm(s["path"]) for s in st}
    ctx.expect("crate::lterm::UNIQUE_ID_COUNTER" in names, rule, "positive-control|UNIQUE_ID_COUNTER", "src/lterm.rs", "the scan must find the AtomicUsize id counter (positive control for the interior-mutability detector)")
    for s in st:
        ctx.expect(norm(s["path"]) == "crate::lterm::UNIQUE_ID_COUNTER", rule, "static|%s" % norm(s["path"]), site_of(s), "a mutable / interior-mutable global is shared by all branches")
    # back doors
    rule = R + "K9.no-back-door"
    bd = mutaudit.backdoors(lib)
    for p, items in sorted(bd.items()):
        kinds = sorted({k for k, _ in items})
        ctx.violation(rule, "%s|%s" % (p, "+".join(kinds)), site_of(items[0][1]), "unsafe / back-door construct (%s): shared search data may be written in place, visible to other branches" % ", ".join(kinds))
    ctx.count("functions_scanned_for_backdoors", len(list(hirwalk.fns_nontest(lib))))
    if not bd:
        ctx.ok(rule, "none", "", "no unsafe code")
    # Rc::make_mut callers
    rule = R + "K1.make-mut"
    callers = hirwalk.callers_of(lib, "Rc::make_mut")
    for p, ns in sorted(callers.items()):
        ctx.expect(p in MAKE_MUT_ALLOWED, rule, "%s|make_mut" % p, site_of(ns[0]), "new clone-on-write site: Rc::make_mut is sound for isolation, but the written object must be classified")
    ctx.floor(rule, len(callers), 5, "Rc::make_mut call sites")


def check_union(ctx, lib):
    """A disjunction yields exactly the union of its branches: the merge keeps every answer of both
    streams and the bind applies the remaining goals to every answer of the first stream, in both
    search modes (stream equations shared with C05/C06)."""
    import streams

    R = "C10."
    for mode, tag in ((streams.BFS, ""), (streams.DFS, "-dfs")):
        streams.check_mplus(ctx, lib, mode, R + "K3.merge" + tag)
        streams.check_bind(ctx, lib, mode, R + "K3.bind" + tag)
        streams.check_conde_fold(ctx, lib, R + "K6.conde-fold" + tag, mode)
    streams.check_disj_solve(ctx, lib, streams.BFS, R + "K3.disj", "<crate::operator::disj::Disj as crate::solver::Solve>::solve")
    streams.check_disj_solve(ctx, lib, streams.DFS, R + "K3.disj-dfs", "<crate::operator::disj::DFSDisj as crate::solver::Solve>::solve")
    streams.check_disj_new(ctx, lib, R + "K6.disj-new", "crate::operator::disj::Disj::new", "disj::Disj")
    streams.check_disj_new(ctx, lib, R + "K6.disj-new", "crate::operator::disj::DFSDisj::new", "DFSDisj")
    # a disjunction built from an array has exactly the listed branches: fold from `fail`, every element once
    import builders

    builders.check_all(ctx, lib, R + "K6.builders")
    # conde keeps one branch per written clause, the empty clause `[]` (= succeed once) included
    import C13

    C13.check_conde_builder(ctx, lib, R + "K6.conde-builder")


def run_once(ctx, tier):
    import witness

    witness.run(ctx, "C10", ['w4_state_not_copy', 'w5_state_shared_ref_readonly'])
