"""C09 - Query iteration is lazy, fused and deterministic (partly).

Decided (structural):
 * fused: on the path of Solver::next that returns None the stream has been replaced by
   Stream::Empty (mem::replace) and nothing else is assigned to it; ResultIterator::next maps None
   to None with no other effect - so None is absorbing, which is what `impl FusedIterator` promises;
 * lazy: ResultIterator::new calls Solver::start once and neither Solver::next nor Engine::step;
   ResultIterator::next calls Solver::next exactly once, outside any loop; in Solver::next the Unit
   and Cons arms return without stepping the residual and each loop iteration performs at most one
   Engine::step;
 * no foreign nondeterminism: non-test library code calls no clock, random, thread, environment,
   process, file or network API (expected count 0; positive control: the hash-container iteration
   sites below are found by the same call scan).
Inventory, reported but not armed: every iteration over a HashMap / HashSet with an automatic class
(order-insensitive sink vs order-exposed).
 (round 4, shared) the meet of two domains is the exact set intersection (merge discipline and
   interval cases of FiniteDomain::intersect, with C18) - so hash-ordered domain updates commute;
   solving a conjunction parks its first goal (with C07) - so n answers of an infinite producer are
   reachable.
 (round 5) the sort that launders hash order must key on the unique variable id (not the source name);
   all arms of each FD propagator implement one relation (which arm runs depends on hash-ordered propagation);
   the disequality re-check threads its state; the library's Disj interleaves.
"""
import hirwalk
import streams
import sym
import tables
from facts import norm
from pat import pat
from report import site_of
from sym import ANY, P, show, suffix_match, unify

EXPLANATION = (
    "Static rules on typed-HIR symbolic terms and MIR call sites: absorbing None in Solver::next / ResultIterator::next, call-count rules for laziness "
    "(start once at construction, one Solver::next per answer, at most one Engine::step per loop iteration), and a who-may-call scan excluding clock/random/thread/env/process/fs/net APIs; "
    "hash-container iteration sites are inventoried with a class but not armed."
)
NOT_DECIDED = "whether an order-exposed hash iteration can change the answer sequence (a confluence question under a randomly seeded hasher: no sound static argument in reach, arming the inventory would alarm on harmless loops); termination of `first n answers` for a given program"
TECHNIQUE = "static analysis: typed-HIR call-count / absorbing-state tables + who-may-call scan over MIR via rustc_private driver"

FOREIGN = ("std::time::", "std::thread::", "std::env::", "std::process::", "rand::", "std::fs::", "std::net::", "std::io::stdin", "std::os::", "chrono::", "std::sync::mpsc")
HASH_ITER = ("iter", "iter_mut", "keys", "values", "values_mut", "into_iter", "drain", "into_keys", "into_values")
INSENSITIVE = ("any", "all", "count", "sum", "min", "max", "contains", "insert", "extend", "for_each")


def check_fused(ctx, lib, rule):
    fn = streams.getfn(ctx, lib, rule, "crate::solver::Solver::next")
    if fn:
        t = streams.plain_evaluator(lib).fn_term(fn)
        key = fn["npath"]
        site = site_of(fn)
        r = tables.result(t)
        good = r[0] == "loop"
        if good:
            eff, m = tables.flatten(r[1])
            good = m and m[0] == "match" and unify(pat("replace(@1, Stream::Empty)"), m[1]) is not None
            if good:
                # every path that returns None assigns nothing to the stream
                for p, g, b in m[2]:
                    for lits, effs, term in tables.block_paths(b):
                        if term is not None and term[0] == "ret" and term[1] is not None and unify(pat("None"), term[1]) is not None:
                            asg = [e for e in effs if e[0] == "assign"]
                            if asg:
                                good = False
                    # and returning None happens only in the Empty arm
                    rets_none = [s for s in sym.subterms(b) if s[0] == "ret" and s[1] is not None and unify(pat("None"), s[1]) is not None]
                    if rets_none and not any(c.endswith("Stream::Empty") for c in tables.pat_ctors(p)):
                        good = False
        ctx.expect(good, rule, key + "|none-leaves-empty", site, "Solver::next may return None only from the Empty arm of mem::replace(stream, Empty), leaving Empty behind: None must be absorbing")
    fn = streams.getfn(ctx, lib, rule, "<crate::query::ResultIterator as std::iter::Iterator>::next")
    if fn:
        t = streams.plain_evaluator(lib).fn_term(fn)
        eff, m = tables.flatten(t)
        good = m and m[0] == "match" and not [e for e in eff if not tables.harmless_effect(e)]
        if good:
            none = tables.find_arm(m, "None")
            good = len(none) == 1 and unify(pat("None"), tables.result(none[0][2])) is not None and not tables.semis(none[0][2])
        ctx.expect(good, rule, fn["npath"] + "|none-to-none", site_of(fn), "ResultIterator::next must map None to None with no other effect")
    # the FusedIterator promise is made
    fused = [im for im in lib.impls if (norm(im.get("trait")) or "").endswith("iter::FusedIterator") and "ResultIterator" in im["self_ty"]]
    ctx.expect(bool(fused), rule, "impl|FusedIterator-for-ResultIterator", "src/query.rs", "ResultIterator is documented as fused (impl FusedIterator)")


def count_calls(t, suffixes):
    return [c for c in sym.calls(t) if any(suffix_match(c[1], s) for s in suffixes)]


def in_loop(t, target):
    for s in sym.subterms(t):
        if s[0] in ("loop", "for", "while"):
            for x in sym.subterms(s):
                if x is target or x == target:
                    return True
    return False


def check_lazy(ctx, lib, rule):
    fn = streams.getfn(ctx, lib, rule, "crate::query::ResultIterator::new")
    if fn:
        t = sym.Evaluator(lib, named_lets=True).fn_term(fn)
        starts = {id(c): c for c in count_calls(t, ["Solver::start", "Solver::start_dfs"])}
        uniq = []
        for c in count_calls(t, ["Solver::start", "Solver::start_dfs"]):
            if c not in uniq:
                uniq.append(c)
        eager = count_calls(t, ["Solver::next", "Engine::step", "step", "Solver::peek", "Solver::trunc"])
        ctx.expect(len(uniq) == 1 and not eager, rule, fn["npath"] + "|starts-once", site_of(fn), "constructing the iterator must only start the goal (one Solver::start, no Solver::next / Engine::step): no answer is computed before it is asked for")
    fn = streams.getfn(ctx, lib, rule, "<crate::query::ResultIterator as std::iter::Iterator>::next")
    if fn:
        t = sym.Evaluator(lib, named_lets=True).fn_term(fn)
        eff, m = tables.flatten(t)
        nx = []
        for c in count_calls(t, ["Solver::next"]):
            if c not in nx:
                nx.append(c)
        loops = [s for s in sym.subterms(t) if s[0] in ("loop", "while")]
        good = len(nx) == 1 and m and m[0] == "match" and m[1] == nx[0] and not loops
        ctx.expect(good, rule, fn["npath"] + "|one-next-per-answer", site_of(fn), "ResultIterator::next must call Solver::next exactly once, outside any loop: the work for n answers is the steps that mature n heads")
    fn = streams.getfn(ctx, lib, rule, "crate::solver::Solver::next")
    if fn:
        t = streams.plain_evaluator(lib).fn_term(fn)
        r = tables.result(t)
        good = r[0] == "loop"
        if good:
            eff, m = tables.flatten(r[1])
            for p, g, b in m[2]:
                steps = count_calls(b, ["step"])
                ctors = tables.pat_ctors(p)
                if any(c.endswith("Stream::Unit") or c.endswith("Stream::Cons") for c in ctors):
                    if steps:
                        good = False
                    rets = [s for s in sym.subterms(b) if s[0] == "ret"]
                    if not rets:
                        good = False
                if len(steps) > 1:
                    good = False
            # no nested loops
            inner = [s for s in sym.subterms(r[1]) if s[0] in ("loop", "for", "while")]
            good = good and not inner
        ctx.expect(good, rule, fn["npath"] + "|one-step-per-iteration", site_of(fn), "Solver::next: the Unit and Cons arms must return without stepping the residual, and an iteration performs at most one Engine::step")


def check_foreign(ctx, lib, rule):
    n_calls = 0
    hits = []
    inv = []
    bodies = list(lib.fns.items()) + list(lib.closures.items())
    for p, fn in sorted(bodies):
        if "mir" not in fn or fn.get("in_test_mod"):
            continue
        for b in fn["mir"]["blocks"]:
            tm = b["term"]
            if tm["k"] != "call":
                continue
            n_calls += 1
            c = norm(tm.get("callee") or "")
            if any(c.startswith(x) for x in FOREIGN):
                hits.append((p, c, tm["sp"]))
            if (c.startswith("std::collections::HashMap") or c.startswith("std::collections::HashSet") or c.startswith("std::collections::hash_map") or c.startswith("std::collections::hash_set")) and c.split("::")[-1] in HASH_ITER:
                inv.append((p, c, tm["sp"]))
    for p, c, sp in hits:
        ctx.violation(rule, "%s|calls=%s" % (p, c), site_of(sp), "library code calls %s: answers could depend on time, randomness, threads, environment or I/O" % c)
    ctx.count("call_sites_scanned", n_calls)
    ctx.expect(len(inv) >= 12, rule, "positive-control|hash-iteration-sites", "", "the call scan must see the hash-container iteration sites (positive control): found %d" % len(inv))
    if not hits:
        ctx.ok(rule, "no-foreign-nondeterminism", "", "%d call sites scanned" % n_calls)
    return inv


def inventory(ctx, lib, inv):
    ev = sym.Evaluator(lib)
    rows = []
    for p, c, sp in inv:
        base = p.split("::{closure")[0]
        fn = lib.fns.get(base)
        cls = "unknown"
        if fn and "hir" in fn:
            t = ev.fn_term(fn)
            meth = c.split("::")[-1]
            sinks = set()
            for s in sym.subterms(t):
                if s[0] == "call" and s[2]:
                    src, chain = streams.iter_chain(s)
                    names = [n for n, _ in chain]
                    if meth in names and names[-1] != meth:
                        sinks.add(names[-1])
                if s[0] == "for":
                    src, chain = streams.iter_chain(s[1])
                    if meth in [n for n, _ in chain]:
                        sinks.add("for-loop")
            if sinks and sinks <= set(INSENSITIVE):
                cls = "order-insensitive sink (%s)" % ",".join(sorted(sinks))
            elif sinks:
                cls = "order-exposed (%s)" % ",".join(sorted(sinks))
        rows.append({"function": p, "call": c.split("::")[-2] + "::" + c.split("::")[-1], "site": site_of(sp), "class": cls})
    ctx.count("hash_iteration_sites", len(rows))
    for r in rows[:40]:
        ctx.note("hash-iteration inventory (not armed): %(function)s %(call)s at %(site)s -> %(class)s" % r)


COMMIT_CALLS = ("onceo", "condu", "conda", "Condu::from_conjunctions", "Conda::from_conjunctions", "Solver::trunc", "matchu", "matcha")
SEQ_ADAPTORS = ("collect", "from_iter", "into_iter", "iter", "cloned", "copied", "map", "to_vec", "rev", "extend", "chain", "filter", "skip", "take")
SORTERS = ("sort", "sort_unstable", "sort_by", "sort_by_key", "sort_unstable_by", "sort_unstable_by_key", "sort_by_cached_key")


def check_hash_order_commit(ctx, lib, rule):
    """A committed-choice goal keeps the *first* solution of its body; if the body is built from a
    sequence whose order is the iteration order of a HashMap / HashSet (randomly seeded per process)
    the kept solution differs between runs.  So no sequence drawn from a hash container may reach a
    committed-choice constructor unless it was sorted first."""
    ev = sym.Evaluator(lib, named_lets=True, inline=lambda p, f: False)
    sites = 0
    for p, fn in sorted(lib.fns.items()):
        if "hir" not in fn or fn.get("in_test_mod"):
            continue
        t = ev.fn_term(fn)
        commits = [c for c in sym.subterms(t) if c[0] == "call" and any(suffix_match(c[1], x) for x in COMMIT_CALLS)]
        if not commits:
            continue
        sorted_ids = set()
        for c in sym.subterms(t):
            if c[0] == "call" and c[1].split("::")[-1] in SORTERS and c[2] and c[2][0][0] == "letv":
                # a sort launders hash order only if its key separates *distinct* variables: the unique id
                # (payload 0 of Var).  The source name (payload 1) is shared by every evaluation of the same
                # scope, and a stable sort keeps equal keys in their hash order.
                total = True
                if len(c[2]) > 1 and c[2][1][0] == "closure":
                    body = c[2][1][3]
                    varprojs = {(q[2].split("::")[-1], q[3]) for q in sym.subterms(body) if q[0] == "proj" and isinstance(q[2], str) and q[2].endswith("LTermInner::Var")}
                    total = ("Var", 0) in varprojs
                    ctx.expect(total, rule, "%s|sort-key-is-the-variable-id" % p, site_of(fn), "the sort that fixes the labelling order must key on the variable's unique id (Var payload 0); it keys on %s - variables with equal keys keep their hash-iteration order" % (sorted(varprojs) or "no variable payload"))
                if total:
                    sorted_ids.add(c[2][0][1])

        def find_hash_seq(x, depth=0):
            """First hash-container iteration that reaches `x` as a sequence, not looking through a
            local that has been sorted."""
            if not isinstance(x, tuple) or not x or depth > 40:
                return None
            if isinstance(x[0], str):
                if x[0] == "letv":
                    if x[1] in sorted_ids:
                        return None
                    return find_hash_seq(x[3], depth + 1)
                if x[0] == "call" and x[2]:
                    name = x[1].split("::")[-1]
                    if ("HashMap" in x[1] or "HashSet" in x[1] or "hash_map" in x[1] or "hash_set" in x[1]) and name in HASH_ITER:
                        return x
                if x[0] == "closure":
                    return find_hash_seq(x[3], depth + 1)
                kids = x[1:]
            else:
                kids = x
            for k in kids:
                if isinstance(k, tuple):
                    h = find_hash_seq(k, depth + 1)
                    if h is not None:
                        return h
            return None

        for c in list(dict.fromkeys(commits)):
            sites += 1
            hit = None
            for a in c[2]:
                h = find_hash_seq(a)
                if h is not None:
                    hit = (a, h)
                    break
            key = "%s|commit=%s" % (p, c[1].split("::")[-1])
            ctx.fn_seen(p)
            if hit:
                ctx.violation(rule, key, site_of(fn), "a committed-choice goal (%s) is built from a sequence in hash-iteration order (%s): which solution it keeps differs from run to run" % (c[1].split("::")[-1], show(hit[1], maxdepth=3)[:100]))
            else:
                ctx.ok(rule, key, site_of(fn), "no hash-ordered sequence reaches it")
    ctx.floor(rule, sites, 3, "committed-choice construction sites")


def run(ctx, fb, cfg):
    lib = fb.lib
    R = "C09."
    check_hash_order_commit(ctx, lib, R + "K1.hash-order-into-committed-choice")
    check_fused(ctx, lib, R + "K6.fused")
    check_lazy(ctx, lib, R + "K1K6.lazy")
    inv = check_foreign(ctx, lib, R + "K1.no-foreign-nondeterminism")
    inventory(ctx, lib, inv)
    # shared: the order in which hash iteration feeds domain updates is harmless only because the
    # meet of two domains is the exact set intersection (commutative, associative); and the first n
    # answers of an infinite producer are reachable only because solving a conjunction parks its
    # first goal instead of running it (Conde / Closure / Anyo solve every clause before returning)
    import C07
    import C18

    C18.check_merge(ctx, lib, R + "K6.domain-meet-is-order-free", "intersect")
    C18.check_intervals(ctx, lib, R + "K6.domain-meet-is-order-free")
    for f in ("crate::operator::conj::Conj::new", "crate::operator::conj::DFSConj::new", "crate::operator::conj::InferredConj::new"):
        C07.check_new_never_identity(ctx, lib, R + "K3.conjunction-parks-first-goal", f)
    C07.check_suspension(ctx, lib, R + "K1.conjunction-parks-first-goal")
    # the pairs of a stored disequality are re-checked as one conjunction of equations (state threaded): tested one
    # by one, conflicting bindings overwrite each other in hash order and the residual constraint varies per run
    import C02

    C02.check_run(ctx, lib, R + "K3K6.diseq-recheck-threads")
    # which of two overlapping disequalities survives normalisation must be decided by subsumption, the same
    # way whatever order the store is iterated in
    C02.check_normalize(ctx, lib, R + "K6.normalize")
    C02.check_subsumes(ctx, lib, R + "K3.subsumes")
    # the library's own Disj interleaves (BFS merge): a depth-first merge starves the right branch of `take(n)`
    streams.check_disj_solve(ctx, lib, streams.BFS, R + "K3.disj", "<crate::operator::disj::Disj as crate::solver::Solve>::solve")
    # which arm of a propagator runs depends on what the other constraints of the same (hash-ordered) pass have
    # already pinned; the outcome is order-free only if all arms implement the one relation (tables shared with C16/C17)
    if any(p.startswith("crate::relation::clpfd") for p in lib.fns):
        import fdrules

        # one pass over the hash-ordered store gives a result that depends on the order; running it to the fixpoint
        # (until the substitution stops growing, nothing else) is what makes the outcome order-free (with C16/C04)
        fdrules.check_restale(ctx, lib, R + "K2K3.fixpoint-not-one-pass")
        fdrules.check_ltefd(ctx, lib, R + "K7.ltefd-arms-agree")
        for mod in ("plusfd", "minusfd", "timesfd"):
            fdrules.check_arith_propagator(ctx, lib, R + "K7.arith-arms-agree", mod, what="both")
