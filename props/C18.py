"""C18 - FiniteDomain operations implement set semantics.

state/fd.rs is pure code over two representations; values are touched only through comparisons,
min/max and iteration, so its *discipline* is decidable although results are not computed:
 a `==` is symmetric under swapping self/other;
 b representation invariant: every construction of Sparse(v) is a subsequence of an existing
   domain's iteration, a merge of self.iter(), or an external Vec that is sorted AND deduplicated;
 c sorted-merge discipline of intersect (general arm), diff and is_disjoint: per comparison arm
   {which iterator advances, whether the element is emitted} follows the operation's truth table;
 d interval cases: Interval n Interval = max(starts)..=min(ends), Some iff max_start <= min_end;
   Sparse n Interval keeps start <= u <= end via skip_while(< start) / take_while(<= end);
 e copy_before / drop_before: interval branch uses find(p); sparse branch take_while(!p) / skip_while(!p);
 f None iff empty: every Some(Sparse(v)) is in the else-branch of `if v.is_empty()`;
 g no unchecked + - * on bounds (no MIR overflow assert in FiniteDomain methods);
 h next / next_back of both iterator types delegate to the same variant's iterator;
   is_singleton / min / max / contains use the representation consistently.
 (round 4/5) exact predecessor in copy_before (no clamping arithmetic in the set algebra, F17); merge cursors only
   ever step forward with next() of their own iterator; no FiniteDomain variant is constructed outside fd.rs.
"""
import hirwalk
import streams
import sym
import tables
from pat import pat
from report import site_of
from sym import ANY, AnyOf, P, V, show, suffix_match, unify

EXPLANATION = (
    "Static discipline rules for state/fd.rs on typed-HIR symbolic terms and MIR: symmetric equality, classification of every Sparse(..) construction site "
    "(subsequence / merge / sorted+dedup external), comparison-arm tables of the three sorted-merge loops against the set operation's truth table, interval formulas, "
    "polarity of copy_before/drop_before, None-iff-empty guards, absence of overflow-checked arithmetic on bounds, iterator delegation."
)
NOT_DECIDED = "value-level agreement of every operation with the set model on all inputs (the tables are its structural part)"
TECHNIQUE = "static analysis: typed-HIR tables (merge discipline, representation invariant) + MIR overflow-assert scan via rustc_private driver"

FD = "crate::state::fd::FiniteDomain::"
SUBSEQ = ("iter", "copied", "cloned", "skip_while", "take_while", "filter", "collect", "into_iter")


def getfn(ctx, lib, rule, name):
    return streams.getfn(ctx, lib, rule, name)


def EV(lib):
    return sym.Evaluator(lib, named_lets=True)


def unlet(t):
    while isinstance(t, tuple) and t and t[0] == "letv":
        t = t[3]
    return t


def check_eq(ctx, lib, rule):
    fn = getfn(ctx, lib, rule, "<crate::state::fd::FiniteDomain as std::cmp::PartialEq>::eq")
    if not fn:
        return
    t = sym.Evaluator(lib).fn_term(fn)

    def swap(x):
        if isinstance(x, tuple):
            if x and x[0] == "param" and x[1] in (0, 1):
                return ("param", 1 - x[1], "other" if x[2] == "self" else "self")
            return tuple(swap(y) for y in x)
        return x

    def strip_names(x):
        if isinstance(x, tuple):
            if x and x[0] == "param":
                return ("param", x[1])
            return tuple(strip_names(y) for y in x)
        return x

    def conj(x):
        if x[0] == "binop" and x[1] in ("And", "BitAnd"):
            return conj(x[2]) | conj(x[3])
        if x[0] == "binop" and x[1] == "Eq":
            return {frozenset([strip_names(x[2]), strip_names(x[3])])}
        return {strip_names(x)}

    r = tables.result(t)
    sym_ok = conj(r) == conj(swap(r))
    ctx.expect(sym_ok, rule, fn["npath"] + "|symmetric", site_of(fn), "FiniteDomain == must be invariant under swapping self and other; found %s (a one-directional inclusion test is not equality)" % show(r, maxdepth=5))


def check_sparse_sites(ctx, lib, rule):
    n = 0
    for p, fn in hirwalk.fns_nontest(lib):
        if "state::fd::" not in p:
            continue
        t = EV(lib).fn_term(fn)
        sites = [c for c in sym.ctors(t, "FiniteDomain::Sparse") if c[2]]
        for c in sites:
            n += 1
            ctx.fn_seen(p)
            v = c[2][0]
            cls, msg = classify_vec(t, v)
            ctx.expect(cls is not None, rule, "%s|sparse-site" % p, site_of(fn), "Sparse(..) built from a vector that is not provably strictly increasing: %s" % msg, detail=cls or "")
    ctx.floor(rule, n, 6, "Sparse construction sites")
    # ... and nobody else builds the representation directly: the variants are public, but the invariant (strictly
    # increasing values, start <= end) is established only by the constructors in fd.rs.  The sites counted
    # above are the positive control of this zero-count rule.
    evn = sym.Evaluator(lib, inline=lambda p_, f_: False)
    outside = 0
    for p, fn in hirwalk.fns_nontest(lib):
        if "state::fd::" in p:
            continue
        for c in sym.ctors(evn.fn_term(fn)):
            if c[1].endswith("FiniteDomain::Sparse") or c[1].endswith("FiniteDomain::Interval"):
                outside += 1
                ctx.fn_seen(p)
                ctx.violation(rule, "%s|builds-%s-directly" % (p, c[1].split("::")[-1]), site_of(fn), "a domain is built from the bare variant outside src/state/fd.rs: the values are not sorted / deduplicated / checked by the From constructors, so min / max / is_singleton / the merges read a sequence that may break the representation invariant")
    if not outside:
        ctx.ok(rule, "no-direct-construction-outside-fd", "src/state/fd.rs", "no FiniteDomain variant is constructed outside its module")


def classify_vec(t, v):
    base = unlet(v)
    # external: a parameter -> must be sorted and deduplicated before
    if v[0] == "param" or base[0] == "param":
        prm = v if v[0] == "param" else base
        sts = [e for e in tables.stmts_of(t)]
        names = []
        for e in sts:
            if e[0] == "call" and e[2] and e[2][0] == prm:
                names.append(e[1].split("::")[-1])
        if "sort" in names or "sort_unstable" in names:
            si = min(i for i, x in enumerate(names) if x.startswith("sort"))
            if "dedup" in names[si:]:
                return ("external sorted+dedup", "")
            return (None, "caller-supplied values are sorted but not deduplicated (duplicates break is_singleton / contains / labeling)")
        return (None, "caller-supplied values are neither sorted nor deduplicated")
    # subsequence of an existing sparse domain
    if base[0] == "call" and suffix_match(base[1], "collect"):
        src, chain = streams.iter_chain(base)
        names = [x for x, _ in chain]
        okn = all(x in SUBSEQ for x in names)
        srcs = src[1] if src[0] == "alt" else (src,)
        oks = all(s[0] == "proj" and isinstance(s[2], str) and s[2].endswith("FiniteDomain::Sparse") for s in srcs)
        if okn and oks:
            return ("subsequence", "")
        return (None, "collect over %s from %s is not an order- and uniqueness-preserving subsequence of a domain" % (names, show(src, maxdepth=3)))
    # merge: vec![] filled by push in a loop from self.iter()
    if base[0] == "call" and (suffix_match(base[1], "Vec::new") or "new" in base[1]):
        pushes = [c for c in sym.calls(t, "push") if c[2] and c[2][0] == v]
        if not pushes:
            return (None, "empty vector never filled")
        for pu in pushes:
            val = pu[2][1]
            if not (val[0] == "proj" and val[1][0] == "var" and isinstance(val[2], str) and val[2].endswith("Some")):
                return (None, "pushes %s, which is not the element just drawn from self.iter()" % show(val, maxdepth=3))
            cur = val[1]
            asg = [a for a in sym.subterms(t) if a[0] == "assign" and a[1] == cur]
            its = set()
            for a in asg:
                r = a[2]
                if not (r[0] == "call" and suffix_match(r[1], "next")):
                    return (None, "cursor %s is assigned from something else than next()" % show(cur))
                its.add(r[2][0])
            if len(its) != 1:
                return (None, "cursor fed from several iterators")
            it = unlet(list(its)[0])
            if not (it[0] == "call" and suffix_match(it[1], "FiniteDomain::iter") and unify(pat("@0"), it[2][0]) is not None):
                return (None, "merged elements must come from self.iter(): %s" % show(it, maxdepth=3))
        return ("merge of self.iter()", "")
    return (None, "unrecognised vector provenance %s" % show(base, maxdepth=3))


MERGE_TABLES = {
    # op: (emit on s<o, emit on s==o, emit on (Some,None))
    "intersect": {"lt": (True, False, False), "eq": (True, True, True), "gt": (False, True, False), "s_only": None},
    "diff": {"lt": (True, False, True), "eq": (True, True, False), "gt": (False, True, False), "s_only": (True, False, True)},
    "is_disjoint": {"lt": (True, False, False), "eq": "return-false", "gt": (False, True, False), "s_only": None},
}


def check_merge(ctx, lib, rule, name):
    fn = getfn(ctx, lib, rule, FD + name)
    if not fn:
        return
    t = EV(lib).fn_term(fn)
    key = fn["npath"]
    site = site_of(fn)
    loops = [s for s in sym.subterms(t) if s[0] == "loop"]
    if len(loops) != 1:
        ctx.violation(rule, key + "|loop", site, "expected one merge loop, found %d" % len(loops))
        return
    eff, m = tables.flatten(loops[0][1])
    ok = m and m[0] == "match" and m[1][0] == "tuple" and len(m[1][1]) == 2 and all(x[0] == "var" for x in m[1][1])
    ctx.expect(ok, rule, key + "|cursors", site, "merge loop must match on the two cursors (maybe_s, maybe_o)")
    if not ok:
        return
    cs, co = m[1][1]
    # cursors are fed by self.iter() / other.iter()
    def feeder(cur):
        its = set()
        for a in sym.subterms(t):
            if a[0] == "assign" and a[1] == cur and a[2][0] == "call" and suffix_match(a[2][1], "next"):
                its.add(a[2][2][0])
        return its

    fs, fo = feeder(cs), feeder(co)
    okf = len(fs) == 1 and len(fo) == 1
    if okf:
        its_, ito = unlet(list(fs)[0]), unlet(list(fo)[0])
        okf = its_[0] == "call" and suffix_match(its_[1], "iter") and unify(pat("@0"), its_[2][0]) is not None and ito[0] == "call" and suffix_match(ito[1], "iter") and unify(pat("@1"), ito[2][0]) is not None
    ctx.expect(okf, rule, key + "|iterators", site, "the first cursor must walk self.iter() and the second other.iter()")
    # every value a cursor ever takes (its initial value and each advance) is the *forward* step of its own
    # iterator: a next_back() anywhere makes the merge skip or revisit values of the sorted sequences
    if okf:
        for cur, it, who in ((cs, list(fs)[0], "self"), (co, list(fo)[0], "other")):
            vals = [a[2] for a in sym.subterms(t) if a[0] == "assign" and a[1] == cur]
            vals += [st[2] for q in sym.subterms(t) if q[0] == "seq" for st in q[1] if st[0] == "let" and st[1][0] == "pbind" and st[1][1] == cur[1]]
            good = len(vals) >= 2 and all(v[0] == "call" and v[1].split("::")[-1] == "next" and len(v[2]) == 1 and v[2][0] == it for v in vals)
            ctx.expect(good, rule, key + "|cursor-steps-forward=%s" % who, site, "the %s cursor must only ever be (re)loaded with next() of its own iterator; found %s" % (who, sorted({show(v, maxdepth=2)[:60] for v in vals})))
    S = ("proj", cs, ANY, 0)
    O = ("proj", co, ANY, 0)
    table = MERGE_TABLES[name]
    seen = set()
    for p, g, b in m[2]:
        if p[0] != "ptuple":
            continue
        kinds = tuple("Some" if (x[0] == "pctor" and x[1].endswith("Some")) else ("None" if (x[0] == "pctor" and x[1].endswith("None")) else "*") for x in p[1])
        rel = None
        if kinds == ("Some", "Some") and g is not None and g[0] == "binop":
            op, a, b_ = g[1], g[2], g[3]
            if unify(S, a) is not None and unify(O, b_) is not None:
                rel = {"Lt": "lt", "Gt": "gt", "Eq": "eq"}.get(op)
            elif unify(O, a) is not None and unify(S, b_) is not None:
                rel = {"Lt": "gt", "Gt": "lt", "Eq": "eq"}.get(op)
            if rel is None:
                ctx.violation(rule, key + "|arm-guard", site, "unrecognised comparison guard %s" % show(g, maxdepth=3))
                continue
        elif kinds == ("Some", "None") and g is None:
            rel = "s_only"
        elif kinds == ("Some", "Some") and g is None:
            ctx.violation(rule, key + "|arm-unguarded", site, "an unguarded (Some, Some) arm makes the comparison arms unreachable or wrong")
            continue
        else:
            continue
        seen.add(rel)
        st = [e for e in tables.stmts_of(b) if not tables.harmless_effect(e)]
        adv_s = any(e[0] == "assign" and e[1] == cs for e in st)
        adv_o = any(e[0] == "assign" and e[1] == co for e in st)
        emit = any(e[0] == "call" and suffix_match(e[1], "push") and unify(S, e[2][1]) is not None for e in st)
        emit_o = any(e[0] == "call" and suffix_match(e[1], "push") and unify(O, e[2][1]) is not None and unify(S, e[2][1]) is None for e in st)
        rets = [e for e in st if e[0] == "ret"]
        want = table.get(rel)
        k = key + "|arm=%s" % rel
        if want is None:
            ctx.violation(rule, k, site, "%s must stop when other is exhausted before self; this arm continues" % name) if name != "diff" else None
            continue
        if want == "return-false":
            ctx.expect(len(rets) == 1 and "false" in str(rets[0][1]), rule, k, site, "a common element means the domains are not disjoint: must return false")
            continue
        ctx.expect((adv_s, adv_o, emit) == want and not emit_o and not rets, rule, k, site, "%s, case %s: expected advance(self)=%s advance(other)=%s emit=%s; found advance(self)=%s advance(other)=%s emit=%s" % ((name, rel) + want + (adv_s, adv_o, emit)))
    need = {"lt", "eq", "gt"} | ({"s_only"} if name == "diff" else set())
    ctx.expect(need <= seen, rule, key + "|arms-present", site, "merge loop must handle %s; handles %s" % (sorted(need), sorted(seen)))
    if name == "is_disjoint":
        r = tables.result(t)
        ctx.expect("true" in str(r) and r[0] == "lit", rule, key + "|default-true", site, "no common element found: disjoint (true)")


def check_intervals(ctx, lib, rule):
    fn = getfn(ctx, lib, rule, FD + "intersect")
    if not fn:
        return
    t = EV(lib).fn_term(fn)
    key = fn["npath"]
    site = site_of(fn)
    eff, m = tables.flatten(t)
    if not (m and m[0] == "match" and m[1][0] == "tuple"):
        ctx.violation(rule, key + "|shape", site, "intersect must match on (self, other)")
        return
    A = ("proj", pat("@0"), P("FiniteDomain::Interval"), 0)
    B = ("proj", pat("@1"), P("FiniteDomain::Interval"), 0)
    for p, g, b in m[2]:
        kinds = []
        for alt in (p[1] if p[0] == "por" else (p,)):
            if alt[0] == "ptuple":
                kinds.append(tuple(x[1].split("::")[-1] if x[0] == "pctor" else "*" for x in alt[1]))
        if kinds == [("Interval", "Interval")]:
            r = tables.result(b)
            st = lambda x: ("call", P("start"), (x,))
            en = lambda x: ("call", P("end"), (x,))
            mx = AnyOf(("call", P("max"), (st(A), st(B))), ("call", P("max"), (st(B), st(A))))
            mn = AnyOf(("call", P("min"), (en(A), en(B))), ("call", P("min"), (en(B), en(A))))
            good = r[0] == "if" and r[3] is not None
            if good:
                c = r[1]
                good = c[0] == "binop" and ((c[1] == "Le" and unify(mx, c[2]) is not None and unify(mn, c[3]) is not None) or (c[1] == "Ge" and unify(mn, c[2]) is not None and unify(mx, c[3]) is not None))
                some = tables.result(r[2])
                good = good and unify(("ctor", P("Some"), (("ctor", P("FiniteDomain::Interval"), (("call", P("new"), (mx, mn)),)),)), some) is not None and unify(pat("None"), tables.result(r[3])) is not None
            ctx.expect(good, rule, key + "|interval-interval", site, "Interval n Interval must be max(starts)..=min(ends), Some iff max_start <= min_end; found %s" % show(r, maxdepth=7)[:300])
        elif sorted(kinds) == [("Interval", "Sparse"), ("Sparse", "Interval")]:
            coll = [c for c in sym.calls(b, "collect")]
            good = bool(coll)
            if good:
                src, chain = streams.iter_chain(coll[0])
                names = [x for x, _ in chain]
                good = [x for x in names if x in ("skip_while", "take_while", "filter")] == ["skip_while", "take_while"]
                if good:
                    sk = [c for x, c in chain if x == "skip_while"][0][2][1]
                    tk = [c for x, c in chain if x == "take_while"][0][2][1]
                    skb, tkb = tables.result(sk[3]), tables.result(tk[3])
                    good = skb[0] == "binop" and skb[1] == "Lt" and skb[2][0] == "cparam" and skb[3][0] == "call" and suffix_match(skb[3][1], "start") and tkb[0] == "binop" and tkb[1] == "Le" and tkb[2][0] == "cparam" and tkb[3][0] == "call" and suffix_match(tkb[3][1], "end")
            ctx.expect(good, rule, key + "|sparse-interval", site, "Sparse n Interval must keep start <= u <= end: skip_while(u < start) then take_while(u <= end)")


def check_before(ctx, lib, rule):
    for name, sparse_adaptor in (("copy_before", "take_while"), ("drop_before", "skip_while")):
        fn = getfn(ctx, lib, rule, FD + name)
        if not fn:
            continue
        t = EV(lib).fn_term(fn)
        key = fn["npath"]
        site = site_of(fn)
        R = ("proj", pat("@0"), P("FiniteDomain::Interval"), 0)
        found = ("call", P("find"), (ANY, pat("@1")))

        def interval_arm(body, b):
            r = tables.result(body)
            if not (r[0] == "match" and unify(found, r[1]) is not None):
                return (None, "interval branch must locate the first element satisfying the predicate with find(predicate)")
            u = ("proj", r[1], P("Some"), 0)
            some = tables.find_arm(r, "Some")
            none = tables.find_arm(r, "None")
            if len(some) != 1 or len(none) != 1:
                return (None, "Some/None arms expected")
            sres = tables.result(some[0][2])
            nres = tables.result(none[0][2])
            if name == "copy_before":
                # the kept part is start ..= pred(u), where pred(u) must be the *exact* predecessor: a saturating
                # subtraction returns isize::MIN itself for u == isize::MIN and would keep {MIN} (F17)
                rng = ("call", P("new"), (("call", P("start"), (R,)), ("binop", "Sub", u, ("lit", ANY))))
                good = sres[0] == "if" and unify(("call", P("is_empty"), (rng,)), unlet_deep(sres[1])) is not None and unify(pat("None"), tables.result(sres[2])) is not None and unify(("ctor", P("Some"), (("ctor", P("FiniteDomain::Interval"), (rng,)),)), unlet_deep(tables.result(sres[3]))) is not None
                if not good and sres[0] == "match" and sres[1][0] == "call" and suffix_match(sres[1][1], "checked_sub") and unify(u, sres[1][2][0]) is not None and "Pu128(1)" in str(sres[1][2][1]):
                    # match u.checked_sub(1) { Some(last) if start <= last => Some(Interval(start..=last)), _ => None }
                    last = ("proj", sres[1], P("Some"), 0)
                    start = ("call", P("start"), (R,))
                    some2 = tables.find_arm(sres, "Some")
                    rest = [a for a in sres[2] if a not in some2]
                    good = len(some2) == 1 and bool(rest) and all(unify(pat("None"), tables.result(a[2])) is not None and a[1] is None for a in rest)
                    if good:
                        g = some2[0][1]
                        gok = g is not None and (unify(("binop", "Le", start, last), unlet_deep(g)) is not None or unify(("binop", "Ge", last, start), unlet_deep(g)) is not None)
                        rng2 = ("call", P("new"), (start, last))
                        good = gok and unify(("ctor", P("Some"), (("ctor", P("FiniteDomain::Interval"), (rng2,)),)), unlet_deep(tables.result(some2[0][2]))) is not None
                good = good and unify(("ctor", P("Some"), (pat("@0"),)), nres) is not None
                return (b if good else None, "copy_before(interval): start..=u-1 (None if empty); whole domain if no element satisfies the predicate; found %s" % show(sres, maxdepth=6)[:200])
            rng = ("call", P("new"), (u, ("call", P("end"), (R,))))
            good = unify(("ctor", P("Some"), (("ctor", P("FiniteDomain::Interval"), (rng,)),)), unlet_deep(sres)) is not None and unify(pat("None"), nres) is not None
            return (b if good else None, "drop_before(interval): u..=end; None if no element satisfies the predicate")

        def sparse_arm(body, b):
            coll = [c for c in sym.calls(body, "collect")]
            if not coll:
                return (None, "sparse branch must collect a sub-sequence")
            src, chain = streams.iter_chain(coll[0])
            names = [x for x, _ in chain if x in ("skip_while", "take_while", "filter", "skip", "take")]
            if names != [sparse_adaptor]:
                return (None, "sparse branch must use exactly %s(!predicate); uses %s" % (sparse_adaptor, names))
            cl = [c for x, c in chain if x == sparse_adaptor][0][2][1]
            cb = tables.result(cl[3])
            good = cb[0] == "unop" and cb[1] == "Not" and cb[2][0] == "callv" and unify(pat("@1"), cb[2][1]) is not None
            return (b if good else None, "%s must test the *negated* predicate (same polarity as find(predicate) in the interval branch)" % sparse_adaptor)

        tables.check_match_table(ctx, rule, key, site, t, "@0", {"FiniteDomain::Interval": interval_arm, "FiniteDomain::Sparse": sparse_arm})


def unlet_deep(t):
    if isinstance(t, tuple):
        if t and t[0] == "letv":
            return unlet_deep(t[3])
        return tuple(unlet_deep(x) for x in t)
    return t


def check_none_iff_empty(ctx, lib, rule):
    n = 0
    for p, fn in hirwalk.fns_nontest(lib):
        if not p.startswith(FD):
            continue
        t = EV(lib).fn_term(fn)
        for s in sym.subterms(t):
            if s[0] == "if" and s[3] is not None:
                for br, want_empty in ((s[2], True), (s[3], False)):
                    r = tables.result(br)
                    if r[0] == "ctor" and r[1].endswith("Some") and r[2] and r[2][0][0] == "ctor" and r[2][0][1].endswith("FiniteDomain::Sparse"):
                        v = r[2][0][2][0]
                        c = s[1]
                        neg = c[0] == "unop" and c[1] == "Not"
                        cc = c[2] if neg else c
                        guarded = cc[0] == "call" and suffix_match(cc[1], "is_empty") and cc[2][0] == v
                        in_nonempty_branch = guarded and ((br is s[3]) != neg)
                        n += 1
                        ctx.expect(in_nonempty_branch, rule, "%s|some-sparse-guarded" % p, site_of(fn), "Some(Sparse(v)) must be returned only when v is non-empty (else-branch of `if v.is_empty() { None }`)")
    # unguarded sites: every Some(Sparse(v)) term must be one of the guarded returns found above
    for p, fn in hirwalk.fns_nontest(lib):
        if not p.startswith(FD):
            continue
        t = EV(lib).fn_term(fn)
        total = {c for c in sym.ctors(t, "Some") if c[2] and c[2][0][0] == "ctor" and c[2][0][1].endswith("FiniteDomain::Sparse")}
        guarded = set()
        for s in sym.subterms(t):
            if s[0] == "if" and s[3] is not None:
                for br in (s[2], s[3]):
                    r = tables.result(br)
                    if r in total:
                        guarded.add(r)
        for c in total - guarded:
            ctx.violation(rule, "%s|some-sparse-unguarded" % p, site_of(fn), "Some(Sparse(v)) is returned without testing v.is_empty(): an empty set would be reported as Some")
    ctx.floor(rule, n, 5, "guarded Some(Sparse(..)) returns")


def check_overflow(ctx, lib, rule):
    n = 0
    bad = 0
    for p, fn in sorted(lib.fns.items()):
        if "state::fd::" not in p or fn.get("in_test_mod") or "mir" not in fn:
            continue
        n += 1
        for b in fn["mir"]["blocks"]:
            tm = b["term"]
            if tm["k"] == "assert" and not b["cleanup"] and (tm["kind"].startswith("overflow") or tm["kind"] in ("divzero", "remzero")):
                bad += 1
                ctx.violation(rule, "%s|%s" % (p, tm["kind"]), site_of(tm["sp"]), "unchecked arithmetic on domain values (%s): panics for large bounds; use comparison, saturating_* or checked_*" % tm["kind"])
            # clamping arithmetic is not exact: the set algebra must compute bounds exactly (comparisons, checked_*)
            if tm["k"] == "call" and not b["cleanup"] and isinstance(tm.get("callee"), str):
                c = tm["callee"].split("::")[-1]
                if c.startswith(("saturating_", "wrapping_", "overflowing_")) and ("isize" in tm["callee"] or "core::num" in tm["callee"]):
                    bad += 1
                    ctx.violation(rule, "%s|%s" % (p, c), site_of(tm["sp"]), "domain algebra computes a bound with `%s`: at the isize extremes the clamped / wrapped value is not the set's bound (e.g. the predecessor of isize::MIN does not exist), so the result denotes a different set" % c)
    ctx.floor(rule, n, 20, "FiniteDomain functions scanned for overflow asserts")
    if not bad:
        ctx.ok(rule, "no-overflow-asserts", "src/state/fd.rs", "%d functions scanned" % n)


def check_delegation(ctx, lib, rule):
    for ty, variants in (("FiniteDomainIter", ("IntervalIter", "SparseIter")), ("FiniteDomainIntoIter", ("IntervalIter", "SparseIter"))):
        for tr, m in (("std::iter::Iterator", "next"), ("std::iter::DoubleEndedIterator", "next_back")):
            fn = getfn(ctx, lib, rule, "<crate::state::fd::%s as %s>::%s" % (ty, tr, m))
            if not fn:
                continue
            t = sym.Evaluator(lib).fn_term(fn)
            table = {}
            for v in variants:
                table["%s::%s" % (ty, v)] = ("call", P(m), (("proj", pat("@0"), P("%s::%s" % (ty, v)), 0),))
            tables.check_match_table(ctx, rule, fn["npath"], site_of(fn), t, "@0", table)
    # representation-consistent accessors
    acc = {
        "min": {"FiniteDomain::Interval": "start(@0.FiniteDomain::Interval#0)", "FiniteDomain::Sparse": "unwrap(first(@0.FiniteDomain::Sparse#0))"},
        "max": {"FiniteDomain::Interval": "end(@0.FiniteDomain::Interval#0)", "FiniteDomain::Sparse": "unwrap(last(@0.FiniteDomain::Sparse#0))"},
        "contains": {"FiniteDomain::Interval": "contains(@0.FiniteDomain::Interval#0, @1)", "FiniteDomain::Sparse": "is_ok(binary_search(@0.FiniteDomain::Sparse#0, @1))"},
        "iter": {"FiniteDomain::Interval": "FiniteDomainIter::IntervalIter(into_iter(@0.FiniteDomain::Interval#0))", "FiniteDomain::Sparse": "FiniteDomainIter::SparseIter(iter(@0.FiniteDomain::Sparse#0))"},
    }
    for name, table in acc.items():
        fn = getfn(ctx, lib, rule, FD + name)
        if fn:
            t = sym.Evaluator(lib).fn_term(fn)
            tables.check_match_table(ctx, rule, fn["npath"], site_of(fn), t, "@0", table)
    fn = getfn(ctx, lib, rule, FD + "is_singleton")
    if fn:
        t = sym.Evaluator(lib).fn_term(fn)
        R = "@0.FiniteDomain::Interval#0"
        tables.check_match_table(
            ctx, rule, fn["npath"], site_of(fn), t, "@0",
            {
                "FiniteDomain::Interval": lambda body, b: (unify(AnyOf(("binop", "Eq", pat("start(%s)" % R), pat("end(%s)" % R)), ("binop", "Eq", pat("end(%s)" % R), pat("start(%s)" % R))), tables.result(body), b), "an interval is a singleton iff start == end (comparison only)"),
                "FiniteDomain::Sparse": lambda body, b: (b if (tables.result(body)[0] == "binop" and tables.result(body)[1] == "Eq" and any(True for _ in sym.calls(tables.result(body), "len")) and "Pu128(1)" in str(tables.result(body))) else None, "a sparse domain is a singleton iff len == 1"),
            },
        )
    fn = getfn(ctx, lib, rule, FD + "singleton_value")
    if fn:
        t = sym.Evaluator(lib, inline=lambda p, f: False).fn_term(fn)
        r = tables.result(t)
        good = r[0] == "if" and unify(pat("is_singleton(@0)"), r[1]) is not None and unify(pat("Some(min(@0))"), tables.result(r[2])) is not None and r[3] is not None and unify(pat("None"), tables.result(r[3])) is not None
        ctx.expect(good, rule, fn["npath"] + "|value", site_of(fn), "singleton_value must be Some(min) iff is_singleton")


def check_algebra_for_propagators(ctx, lib, R):
    """The operations of the set algebra that the propagators and the domain store call (intersect from
    update_var_domain, copy_before / drop_before from the order propagator, diff / is_disjoint from the
    disequality propagators): each is the exact set operation, whatever the representation of its
    operands - so their outcome does not depend on which goal happened to turn an interval into a sparse
    list first (shared with C04 / C16 / C17)."""
    for name in ("intersect", "diff", "is_disjoint"):
        check_merge(ctx, lib, R + "K6.domain-algebra", name)
    check_intervals(ctx, lib, R + "K6.domain-algebra")
    check_before(ctx, lib, R + "K6.domain-algebra")
    check_none_iff_empty(ctx, lib, R + "K6.domain-algebra")
    check_sparse_sites(ctx, lib, R + "K6.domain-algebra")


def run(ctx, fb, cfg):
    lib = fb.lib
    R = "C18."
    check_eq(ctx, lib, R + "K10.eq-symmetric")
    check_sparse_sites(ctx, lib, R + "K3.representation-invariant")
    for name in ("intersect", "diff", "is_disjoint"):
        check_merge(ctx, lib, R + "K6.merge-discipline", name)
    check_intervals(ctx, lib, R + "K3K6.interval-cases")
    check_before(ctx, lib, R + "K6.before-polarity")
    check_none_iff_empty(ctx, lib, R + "K2.none-iff-empty")
    check_overflow(ctx, lib, R + "K7d.unchecked-arithmetic")
    check_delegation(ctx, lib, R + "K5.delegation")
