"""C04 - Reordering conjuncts or disjuncts preserves the answer multiset (mechanism only).

The property quantifies over all programs; its anchored mechanism is decided structurally:
 a R-RERUN: every extension of a state's own substitution is followed, before the state escapes
   successfully, by a re-run of the constraint store (State::run_constraints). unify_rec's two
   extensions are discharged at its only escaping caller State::unify -> process_extension; the
   other callers of unify_rec (disunify, DisequalityConstraint::run / subsumes) never return the
   unified state;
 b process_extension = diseq stage (run_constraints), fd stage, user stage, in sequence;
   the fd stage re-runs the store after moving a domain to the bound value;
 c R-READD: in every Constraint::run the unconditional fallback ("not enough information") re-adds
   the constraint itself; returning the state without the constraint is only possible under a
   guard (a decided case).
 (round 4, shared) sound outer bounds of the arithmetic propagators (with C17): over-narrowing
   loses answers only when the propagator runs before its operands are pinned, i.e. by posting order;
   fixpoint / re-examination of run_constraints (with C16); diseq re-check threads its state and the
   normalisation predicate's default (with C02).
 (round 5) the set algebra the propagators call is exact in both representations (C18 tables: intersect /
   diff / is_disjoint merges, copy_before / drop_before, None-iff-empty) - a narrowing must not depend on which
   goal turned an interval into a sparse list first; process_extension_diseq re-runs the store unconditionally.
"""
import hirwalk
import streams
import sym
import tables
from pat import pat
from report import site_of
from sym import ANY, AnyOf, P, V, show, suffix_match, unify

EXPLANATION = (
    "Static must-pass-through rules on typed-HIR symbolic terms: each substitution extension on a state is followed by run_constraints before a successful return "
    "(or discharged at the unique escaping caller), the stage order of process_extension, and the re-add discipline of the Constraint::run implementations "
    "(the unconditional fallback must keep the constraint). Without these, a constraint posted before the binding it waits for is never re-examined - an order dependence."
)
NOT_DECIDED = "the multiset equality under permutation itself, for all terminating programs (semantic; needs execution or proof)"
TECHNIQUE = "static analysis: must-pass-through / who-may-call rules over typed HIR via rustc_private driver"


def state_extends(t):
    """extend(X.smap, k, v) calls on a state's substitution inside term t."""
    out = []
    for c in sym.calls(t, "SMap::extend"):
        r = c[2][0]
        if r[0] == "field" and r[2] == "smap":
            out.append(c)
    return out


def check_rerun(ctx, lib, rule):
    ev = sym.Evaluator(lib)
    sites = 0
    for p, fn in hirwalk.fns_nontest(lib):
        t = ev.fn_term(fn)
        ext = state_extends(t)
        if not ext:
            continue
        ctx.fn_seen(p)
        site = site_of(fn)
        if p == "crate::state::unification::unify_rec":
            sites += len(ext)
            check_unify_callers(ctx, lib, rule)
            continue
        # every seq that performs the extension must end in run_constraints of the same state
        for s in sym.subterms(t):
            if s[0] != "seq":
                continue
            mine = [st for st in s[1] if st[0] == "semi" and st[1] in ext]
            if not mine:
                continue
            for st in mine:
                sites += 1
                stobj = st[1][2][0][1]  # X of X.smap
                res = tables.result(s[2])
                later = [x[1] for x in s[1][s[1].index(st) + 1 :] if x[0] == "semi"] + [res]
                good = unify(("call", P("run_constraints"), (stobj,)), res) is not None or unify(("try", ("call", P("run_constraints"), (stobj,))), res) is not None or unify(("ctor", P("Ok"), (("try", ("call", P("run_constraints"), (stobj,))),)), res) is not None
                ctx.expect(good, rule, "%s|extend-then-rerun" % p, site, "a substitution extension on a state must be followed by state.run_constraints() as the value of that block (constraints waiting for this binding are otherwise never re-examined); block ends with %s" % show(res, maxdepth=4)[:160])
    has_clpz = any(q.startswith("crate::relation::clpz::") for q in lib.fns)
    # 3 sites in the core (unify_rec x2, singleton domain) + 3 each in plusz / timesz
    ctx.floor(rule, sites, 9 if has_clpz else 3, "substitution extensions on states")


def check_unify_callers(ctx, lib, rule):
    callers = hirwalk.callers_of(lib, "unification::unify_rec")
    allowed = {
        "crate::state::unification::unify_rec": "recursion",
        "crate::state::unification::unify_rec_compound": "recursion",
        "crate::state::State::unify": "escaping: must go through process_extension",
        "crate::state::State::disunify": "test only",
        "<crate::relation::diseq::DisequalityConstraint as crate::state::constraint::Constraint>::run": "test only",
        "crate::relation::diseq::DisequalityConstraint::subsumes": "test only (returns bool)",
    }
    for p, ns in sorted(callers.items()):
        ctx.expect(p in allowed, rule, "%s|calls-unify_rec" % p, site_of(ns[0]), "unify_rec extends the substitution without re-running constraints; a new caller must be classified (escaping callers must call process_extension)")
    # State::unify: result of unify_rec flows into process_extension
    fn = lib.fns.get("crate::state::State::unify")
    if fn:
        t = sym.Evaluator(lib).fn_term(fn)
        r = tables.result(t)
        good = r[0] == "call" and suffix_match(r[1], "process_extension") and r[2][0][0] == "try" and r[2][0][1][0] == "call" and suffix_match(r[2][0][1][1], "unify_rec")
        ctx.expect(good, rule, "crate::state::State::unify|discharge", site_of(fn), "State::unify must pass the unified state to process_extension (which re-runs the store)")
    # test-only callers: no successful return carries the unified state
    for p in ("crate::state::State::disunify", "<crate::relation::diseq::DisequalityConstraint as crate::state::constraint::Constraint>::run"):
        fn = lib.fns.get(p)
        if not fn:
            continue
        t = sym.Evaluator(lib).fn_term(fn)
        oks = [s for s in sym.subterms(t) if s[0] == "ctor" and s[1].endswith("::Ok") and s[2]]
        bad = []
        for o in oks:
            inner = o[2][0]
            # strip with_constraint(state, c)
            while inner[0] == "call" and suffix_match(inner[1], "with_constraint"):
                inner = inner[2][0]
            if any(True for _ in sym.calls(inner, "unify_rec")) or inner[0] == "var":
                bad.append(o)
        ctx.expect(not bad, rule, "%s|discards-unified-state" % p, site_of(fn), "this caller of unify_rec must never return the unified (un-re-run) state: %s" % (show(bad[0], maxdepth=4)[:160] if bad else ""))
    fn = lib.fns.get("crate::state::State::process_extension_diseq")
    if fn:
        t = sym.Evaluator(lib).fn_term(fn)
        uncond = not [s for s in sym.subterms(t) if s[0] == "ret"] and tables.flatten(t)[1][0] == "call"
        ctx.expect(unify(pat("run_constraints(@0)"), tables.result(t)) is not None and uncond, rule, fn["npath"] + "|reruns", site_of(fn), "the disequality stage of process_extension must re-run the constraint store, unconditionally (which stored constraint a binding affects cannot be read off the extension's un-walked operands: aliases)")


def check_stages(ctx, lib, rule):
    fn = streams.getfn(ctx, lib, rule, "crate::state::State::process_extension")
    if fn:
        t = sym.Evaluator(lib, inline=lambda p, f: False).fn_term(fn)
        want = pat("process_extension_user(process_extension_fd(process_extension_diseq(@0, @1)?, @1)?, @1)")
        ctx.expect(unify(want, tables.result(t)) is not None, rule, fn["npath"] + "|stages", site_of(fn), "process_extension must run diseq, fd, user stages in sequence on every success path")
    fn = streams.getfn(ctx, lib, rule, "crate::state::State::process_extension_fd")
    if fn:
        t = sym.Evaluator(lib).fn_term(fn)
        eff, res = tables.flatten(t)
        fors = [e for e in eff if e[0] == "for"]
        good = len(fors) == 1
        if good:
            f = fors[0]
            src, chain = streams.iter_chain(f[1])
            good = unify(AnyOf(pat("@1"), pat("@1.0")), src) is not None and all(n in streams.ONE_TO_ONE for n, _ in chain)
            item = ("item", f[1])
            x, v = ("proj", item, "tuple", 0), ("proj", item, "tuple", 1)
            chains = [s for s in sym.subterms(f[3]) if s[0] == "call" and suffix_match(s[1], "run_constraints")]
            okc = False
            for c in chains:
                a = c[2][0]
                if a[0] == "try" and a[1][0] == "call" and suffix_match(a[1][1], "remove_domain") and a[1][2][1] == x:
                    b = a[1][2][0]
                    if b[0] == "try" and b[1][0] == "call" and suffix_match(b[1][1], "process_domain") and b[1][2][1] == v:
                        okc = True
            good = good and okc
        ctx.expect(good, rule, fn["npath"] + "|bound-var-domain", site_of(fn), "for every new binding x -> v with a domain on x: process_domain(v, domain), remove_domain(x), run_constraints, for all bindings of the extension")


RUN_IMPLS = [
    "relation::diseq::DisequalityConstraint",
    "relation::clpfd::diseqfd::DiseqFdConstraint",
    "relation::clpfd::distinctfd::DistinctFdConstraint",
    "relation::clpfd::distinctfd::DistinctFd2Constraint",
    "relation::clpfd::ltefd::LessThanOrEqualFdConstraint",
    "relation::clpfd::minusfd::MinusFdConstraint",
    "relation::clpfd::plusfd::PlusFdConstraint",
    "relation::clpfd::timesfd::TimesFdConstraint",
    "relation::clpz::plusz::PlusZConstraint",
    "relation::clpz::timesz::TimesZConstraint",
]


def check_readd(ctx, lib, rule):
    impls = [im for im in lib.impls_of("state::constraint::Constraint") if not im["from_expansion"] or True]
    n = 0
    for im in impls:
        runp = None
        for it in im["items"]:
            if it["name"] == "run":
                runp = it["path"]
        if runp is None:
            continue
        from facts import norm

        fn = lib.fns.get(norm(runp))
        if not fn or fn.get("in_test_mod"):
            continue
        n += 1
        ctx.fn_seen(fn["npath"])
        t = sym.Evaluator(lib).fn_term(fn)
        key = fn["npath"]
        site = site_of(fn)
        STATE = ("param", 1, ANY)
        SELF = ("param", 0, ANY)
        # all matches whose last arm is an unguarded catch-all: that arm must not return the bare state
        nfb = 0
        for m in [s for s in sym.subterms(t) if s[0] == "match"]:
            p, g, b = m[2][-1]
            if g is not None or not _catch_all(p):
                continue
            r = tables.result(b)
            if r[0] == "ctor" and r[1].endswith("::Ok"):
                nfb += 1
                inner = r[2][0]
                keeps = inner[0] == "call" and suffix_match(inner[1], "with_constraint") and unify(SELF, inner[2][1]) is not None
                ctx.expect(keeps, rule, key + "|fallback-readds", site, "the unconditional fallback arm of Constraint::run returns Ok without keeping the constraint: it would be forgotten before it was ever decided; arm yields %s" % show(r, maxdepth=4)[:160])
        # any Ok(bare state) must sit under some guard
        for s in _unguarded_results(t):
            r = tables.result(s)
            if r[0] == "ctor" and r[1].endswith("::Ok") and unify(STATE, r[2][0]) is not None:
                ctx.violation(rule, key + "|unconditional-drop", site, "Constraint::run returns the state without the constraint unconditionally")
        ctx.ok(rule, key + "|readd-discipline", site, "%d fallback arm(s) checked" % nfb)
    has_clpz = any(q.startswith("crate::relation::clpz::") for q in lib.fns)
    ctx.floor(rule, n, 10 if has_clpz else 8, "Constraint::run implementations")


def _catch_all(p):
    if p[0] == "pwild" or (p[0] == "pbind" and p[3] is None):
        return True
    if p[0] == "ptuple":
        return all(_catch_all(x) for x in p[1])
    return False


def _unguarded_results(t):
    """The function's tail value when it is not under any if/match (top-level)."""
    eff, r = tables.flatten(t)
    return [r] if r[0] not in ("if", "match") else []


FEATURES_OF = {"lib-default": {"clpfd"}, "all-targets": {"clpfd"}, "core-extras-clpfd": {"clpfd"}}


def run(ctx, fb, cfg):
    lib = fb.lib
    R = "C04."
    check_rerun(ctx, lib, R + "K2.rerun")
    check_stages(ctx, lib, R + "K2.stages")
    check_readd(ctx, lib, R + "K2K6.readd")
    # a domain restriction is not a stored constraint: it is never re-examined, so every
    # restriction must be intersected into the store when it is posted (else the outcome depends
    # on which restriction came first) - shared with C16
    if "clpfd" in FEATURES_OF.get(cfg, {"clpfd"}):
        import fdrules

        fdrules.check_domfd(ctx, lib, R + "K2K3.domain-plumbing")
    # a stored disequality is re-checked with all its pairs in one substitution - shared with C02
    import C02

    C02.check_run(ctx, lib, R + "K3K6.constraint-run")
    # which of two overlapping disequalities survives normalisation must not depend on posting order
    C02.check_normalize(ctx, lib, R + "K6.normalize")
    if "clpfd" in FEATURES_OF.get(cfg, {"clpfd"}):
        # a binary-searched list of seen values must stay sorted whatever order the values arrive in
        fdrules.check_sorted_search(ctx, lib, R + "K2.sorted-search")
        # narrowing is permanent: a propagator that prunes more than the sound outer bound loses answers only
        # when it runs *before* its operands are pinned, i.e. depending on posting order - shared with C17
        for mod in ("plusfd", "minusfd", "timesfd"):
            fdrules.check_arith_propagator(ctx, lib, R + "K7c.sound-bounds", mod, what="bounds")
        # the fixpoint of run_constraints (a constraint that binds its own operand is re-examined) - shared with C16
        fdrules.check_restale(ctx, lib, R + "K2K3.re-examination")
        # a narrowing must not depend on whether an earlier goal already turned the interval into a sparse list
        import C18

        C18.check_algebra_for_propagators(ctx, lib, R)
