"""C08 - Committed-choice operators keep exactly the committed answers.

Decided (structural):
 * Conda::solve / Condu::solve: head stream = start(first, state.clone()); if it has an answer
   (peek / trunc) -> Stream::bind(<that same stream>, rest); otherwise the next clause is solved
   on the *original* state;
 * Solver::peek matures the stream and drops nothing; Solver::trunc keeps the first answer and
   drops exactly the residual; Stream::head returns the head of Unit/Cons;
 * builders keep clause order, element 0 is the head, the conjunction of elements 1.. the rest,
   empty clauses are skipped; onceo = condu over one clause; matcha/matchu delegate unchanged.
 (round 4, shared) Conj::from_vec / from_array / from_conjunctions (the rest goals of a committed
   clause) are total, order-preserving folds from `succeed`.
 (round 5, shared with C14/C06) Conj::new drops only a constant `true` operand; a bracketed conjunction in
   head position stays one goal (construct templates).
"""
import mirlib
import streams
import sym
import tables
from pat import pat
from report import site_of
from sym import show, suffix_match, unify

EXPLANATION = (
    "Static tables for the committed-choice operators on typed-HIR symbolic terms (Conda/Condu::solve, Solver::peek/trunc, Stream::head, "
    "the from_conjunctions builders, onceo/matcha/matchu delegation) plus a MIR drop audit of peek (nothing dropped) and trunc (exactly the residual)."
)
NOT_DECIDED = "which answers a given clause list yields (needs execution)"
TECHNIQUE = "static analysis: typed-HIR provenance tables + MIR drop-flag audit via rustc_private driver"


def check_solve(ctx, lib, rule, ty, probe):
    fn = streams.getfn(ctx, lib, rule, "<crate::operator::%s::%s as crate::solver::Solve>::solve" % (ty.lower(), ty))
    if not fn:
        return
    t = streams.plain_evaluator(lib).fn_term(fn)
    key = fn["npath"]
    site = site_of(fn)
    eff, m = tables.flatten(t)
    head = pat("start(@1, @0.first, @2)")
    ok = m and m[0] == "match" and m[1][0] == "call" and suffix_match(m[1][1], "Solver::" + probe) and len(m[1][2]) == 2 and unify(head, m[1][2][1]) is not None
    ctx.expect(ok, rule, key + "|probe", site, "%s::solve must probe the head stream start(first, state) with Solver::%s; found %s" % (ty, probe, show(m[1] if m and len(m) > 1 else m, maxdepth=4)[:200]))
    if not ok:
        return
    s = m[1][2][1]
    tables.check_match_table(
        ctx,
        rule,
        key,
        site,
        t,
        m[1],
        {
            "Some": lambda body, b: (unify(("call", sym.P("Stream::bind"), (s, pat("@0.rest"))), tables.result(body), b) if not [e for e in tables.flatten(body)[0] if not tables.harmless_effect(e)] else None, "committed clause must continue with Stream::bind(<the probed head stream>, rest)"),
            "None": lambda body, b: (unify(sym.AnyOf(pat("solve(@0.next, @1, @2)"), pat("start(@1, @0.next, @2)")), tables.result(body), b), "an exhausted head must fall through to the next clause on the original state"),
        },
    )
    # other statements: none with effects besides the let of the head stream
    bad = [e for e in eff if not tables.harmless_effect(e)]
    ctx.expect(not bad, rule, key + "|no-other-effects", site, "unexpected statement %s" % (show(bad[0], maxdepth=4)[:120] if bad else ""))
    # the head goal is started on a clone (keep_clone evaluator)
    t2 = sym.Evaluator(lib, extra_identity=streams.GOAL_CAST, keep_clone=True).fn_term(fn)
    starts = [c for c in sym.calls(t2, "Solver::start") if unify(pat("@0.first"), c[2][1]) is not None or (c[2][1][0] == "call" and "clone" in c[2][1][1])]
    cloned = [c for c in sym.calls(t2, "Solver::start") if c[2][2][0] == "call" and "clone" in c[2][2][1] and c[2][2][2][0] == ("param", 2, c[2][2][2][0][2])]
    ctx.expect(bool(cloned), rule, key + "|head-on-clone", site, "the head goal must run on a clone of the state so that the next clause sees the original")


def check_peek_trunc(ctx, lib, rule):
    for name, want_drops in (("crate::solver::Solver::peek", 0), ("crate::solver::Solver::trunc", 1)):
        fn = streams.getfn(ctx, lib, rule, name)
        if not fn:
            continue
        a = mirlib.drop_audit(fn, lib)
        ev = [e for e in a.events if not (e["kind"] == "drop" and e["ret"] <= {"Err", "None", "Empty"} and name.endswith("never"))]
        drops = [e for e in a.events if e["kind"] in ("drop", "memdrop")]
        clones = [e for e in a.events if e["kind"] == "clone"]
        key = fn["npath"]
        if a.exhausted:
            ctx.violation(rule, key + "|unresolved", site_of(fn), "drop analysis exceeded its bound")
            continue
        if want_drops == 0:
            ctx.expect(not drops and not clones, rule, key + "|drops-nothing", site_of(fn), "peek must mature the stream without dropping or cloning anything; found %s" % [(e["kind"], e["ty"]) for e in drops + clones])
        else:
            okd = len(drops) == 1 and "LazyStream" in drops[0]["ty"] and not clones
            ctx.expect(okd, rule, key + "|drops-exactly-residual", site_of(fn), "trunc must drop exactly the residual LazyStream after the first answer; found %s" % [(e["kind"], e["ty"], e["place"]) for e in drops + clones])
    # trunc table
    fn = streams.getfn(ctx, lib, rule, "crate::solver::Solver::trunc")
    if fn:
        t = streams.plain_evaluator(lib).fn_term(fn)
        key = fn["npath"]
        site = site_of(fn)
        eff, res = tables.flatten(t)
        loops = [res] if res and res[0] == "loop" else [e for e in eff if e[0] == "loop"]
        if len(loops) != 1:
            ctx.violation(rule, key + "|shape", site, "expected one loop")
        else:
            body = loops[0][1]
            eff2, m = tables.flatten(body)
            ok = m and m[0] == "match" and unify(pat("replace(@1, Stream::Empty)"), m[1]) is not None
            ctx.expect(ok, rule, key + "|take", site, "trunc must take the stream out with mem::replace(stream, Empty)")
            if ok:
                M = m[1]

                def stmts(body_):
                    return [e for e in tables.stmts_of(body_) if not tables.harmless_effect(e)]

                def empty_arm(b_, b):
                    st = stmts(b_)
                    return (b if len(st) == 1 and st[0] == ("ret", ("ctor", st[0][1][1], ())) and st[0][1][1].endswith("None") else None, "Empty => return None")

                def lazy_arm(b_, b):
                    st = stmts(b_)
                    want = ("assign", pat("@1"), ("call", sym.P("step"), (pat("@0.engine"), pat("@0"), ("proj", ("proj", M, sym.P("Stream::Lazy"), 0), sym.P("LazyStream"), 0))))
                    return (unify(want, st[0], b) if len(st) == 1 else None, "Lazy => *stream = step(lazy)")

                def unitcons_arm(b_, b):
                    st = stmts(b_)
                    if len(st) != 2:
                        return (None, "expected `*stream = Unit(a); return stream.head()`")
                    heads = (("proj", M, sym.P("Stream::Unit"), 0), ("proj", M, sym.P("Stream::Cons"), 0))
                    a = sym.AnyOf(("alt", heads), ("alt", heads[::-1]), heads[0], heads[1])
                    r = unify(("assign", pat("@1"), ("ctor", sym.P("Stream::Unit"), (a,))), st[0], b)
                    if r is None:
                        return (None, "the first answer must be kept as Stream::Unit(a): %s" % show(st[0], maxdepth=5)[:200])
                    rv = st[1]
                    okr = rv[0] == "ret" and rv[1] is not None and (unify(pat("head(@1)"), rv[1]) is not None or (rv[1][0] == "match" and unify(pat("@1"), rv[1][1]) is not None))
                    return (r if okr else None, "must return stream.head()")

                arms = tables.arms_of(m)
                unit = tables.find_arm(m, "Stream::Unit")
                cons = tables.find_arm(m, "Stream::Cons")
                table = {"Stream::Empty": empty_arm, "Stream::Lazy": lazy_arm, "Stream::Unit": unitcons_arm, "Stream::Cons": unitcons_arm}
                tables.check_match_table(ctx, rule, key, site, body, M, table)
    # peek: returns stream.head(); only assignment is a step of the taken lazy
    fn = streams.getfn(ctx, lib, rule, "crate::solver::Solver::peek")
    if fn:
        t = streams.plain_evaluator(lib).fn_term(fn)
        key = fn["npath"]
        site = site_of(fn)
        rets = [s for s in sym.subterms(t) if s[0] == "ret" and s[1] is not None]
        okr = bool(rets) and all(unify(pat("head(@1)"), r[1]) is not None or (r[1][0] == "match" and unify(pat("@1"), r[1][1]) is not None) for r in rets)
        ctx.expect(okr, rule, key + "|returns-head", site, "peek must return stream.head()")
        asg = [s for s in sym.subterms(t) if s[0] == "assign"]
        oka = bool(asg) and all(unify(pat("@1"), a[1]) is not None and a[2][0] == "call" and suffix_match(a[2][1], "step") for a in asg)
        ctx.expect(oka, rule, key + "|only-steps", site, "peek may only replace the stream by one engine step of its lazy part")
    # Stream::head
    fn = streams.getfn(ctx, lib, rule, "crate::stream::Stream::head")
    if fn:
        t = streams.plain_evaluator(lib).fn_term(fn)
        heads = (("proj", pat("@0"), sym.P("Stream::Unit"), 0), ("proj", pat("@0"), sym.P("Stream::Cons"), 0))
        a = sym.AnyOf(("alt", heads), ("alt", heads[::-1]))
        hp = lambda which: (lambda body, b: (unify(("ctor", sym.P("Some"), (sym.AnyOf(a, heads[which]),)), tables.result(body), b), "head of Unit/Cons is Some(a)"))
        tables.check_match_table(ctx, rule, fn["npath"], site_of(fn), t, "@0", {"Stream::Unit": hp(0), "Stream::Cons": hp(1)})
        eff, m = tables.flatten(t)
        if m and m[0] == "match":
            other = [b for p, g, b in m[2] if "*" in tables.pat_ctors(p)]
            ctx.expect(all(tables.result(b)[0] == "ctor" and tables.result(b)[1].endswith("None") for b in other), rule, fn["npath"] + "|else-none", site_of(fn), "head of Empty/Lazy must be None")


def check_builder(ctx, lib, rule, ty):
    fn = streams.getfn(ctx, lib, rule, "crate::operator::%s::%s::from_conjunctions" % (ty.lower(), ty))
    if not fn:
        return
    t = streams.plain_evaluator(lib).fn_term(fn)
    key = fn["npath"]
    site = site_of(fn)
    eff, res = tables.flatten(t)
    fors = [e for e in eff if e[0] == "for"]
    lets = [e for e in eff if e[0] == "let"]
    if len(fors) != 1 or not (res and res[0] == "var"):
        ctx.violation(rule, key + "|shape", site, "expected `next = fail; for clause in clauses.rev() { ... next = node }; next`")
        return
    acc = res
    init = [l for l in lets if l[1][0] == "pbind" and l[1][1] == acc[1]]
    ctx.expect(bool(init) and (unify(pat("Goal::Fail"), init[0][2]) is not None or unify(pat("fail()"), init[0][2]) is not None), rule, key + "|init", site, "the chain must end in `fail` (no clause commits -> no answers)")
    f = fors[0]
    okc, rev, msg = streams.classify_iter(f[1], "@0")
    ctx.expect(okc and rev, rule, key + "|order", site, "clauses must be folded in reverse without skipping any (so that the first clause is tried first): %s" % (msg or show(f[1], maxdepth=5)))
    item = ("item", f[1])
    clause = sym.AnyOf(item, ("call", sym.P("to_vec"), (item,)))
    # find the assignment
    asg = [s for s in sym.subterms(f[3]) if s[0] == "assign" and s[1] == acc]
    if len(asg) != 1:
        ctx.violation(rule, key + "|step", site, "expected exactly one `next = node` per clause")
        return
    node = [s for s in sym.subterms(asg[0][2]) if s[0] == "struct" and s[1].endswith(ty)]
    if len(node) != 1:
        ctx.violation(rule, key + "|node", site, "node of type %s expected: %s" % (ty, show(asg[0][2], maxdepth=4)))
        return
    fl = dict(node[0][2])
    first_ok = unify(sym.AnyOf(("call", sym.P("unwrap"), (("call", sym.P("pop"), (clause,)),)), ("call", sym.P("remove"), (clause, ("lit", sym.ANY))), ("index", clause, ("lit", sym.ANY))), fl.get("first")) is not None
    rest = fl.get("rest")
    rest_ok = rest is not None and rest[0] == "call" and (suffix_match(rest[1], "Conj::from_vec") or suffix_match(rest[1], "Conj::from_array")) and unify(sym.AnyOf(("call", sym.P("split_off"), (clause, ("lit", sym.ANY))), clause, ("index", clause, sym.ANY)), rest[2][0]) is not None
    if rest_ok and rest[2][0][0] == "call" and suffix_match(rest[2][0][1], "split_off"):
        rest_ok = "Pu128(1)" in str(rest[2][0][2][1])
    ctx.expect(first_ok, rule, key + "|first", site, "`first` must be element 0 of the clause: %s" % show(fl.get("first"), maxdepth=5)[:200])
    ctx.expect(rest_ok, rule, key + "|rest", site, "`rest` must be the conjunction of elements 1.. of the clause: %s" % show(rest, maxdepth=5)[:200])
    ctx.expect(fl.get("next") == acc, rule, key + "|next", site, "`next` must be the chain built so far")
    # with split_off(1) + pop(): split_off must come first
    body_lets = [s for s in tables.flatten(_inner_block(f[3]))[0] if s[0] == "let"]
    names = [("split_off" if any(True for _ in sym.calls(l[2], "split_off")) else "") + ("|pop" if any(True for _ in sym.calls(l[2], "pop")) else "") for l in body_lets]
    if any("pop" in n for n in names) and any("split_off" in n for n in names):
        i_s = min(i for i, n in enumerate(names) if "split_off" in n)
        i_p = min(i for i, n in enumerate(names) if "pop" in n and "split_off" not in n) if any("pop" in n and "split_off" not in n for n in names) else -1
        ctx.expect(i_p > i_s, rule, key + "|split-before-pop", site, "split_off(1) must run before pop() so that pop() yields element 0")
    # every non-empty clause contributes its node: a path through the loop body that does not
    # assign the chain must be one where the clause is empty
    for lits, effs, term in tables.block_paths(f[3]):
        assigned = any(isinstance(e, tuple) and e and e[0] == "assign" and e[1] == acc for e in effs)
        if assigned:
            continue
        empty = any(w and isinstance(l, tuple) and l and l[0] == "call" and suffix_match(l[1], "is_empty") for l, w in lits)
        if not empty:
            why = [(show(l, maxdepth=3)[:60], w) for l, w in lits if not (isinstance(l, tuple) and l and l[0] == "matches")]
            ctx.violation(rule, key + "|every-clause-kept", site, "a non-empty clause is left out of the chain when %s (a clause whose head succeeds must commit even if its rest fails)" % why)
            break
    else:
        ctx.ok(rule, key + "|every-clause-kept", site)
    # guard: non-empty clause
    guards = [s for s in sym.subterms(f[3]) if s[0] == "if" and any(True for _ in sym.calls(s[1], "is_empty"))]
    ctx.expect(bool(guards) and guards[0][1][0] == "unop" and guards[0][1][1] == "Not", rule, key + "|skip-empty", site, "empty clauses must be skipped (pop() on an empty clause would panic)")


def _inner_block(t):
    """Descend into the `if !clause.is_empty() { ... }` block."""
    for s in sym.subterms(t):
        if s[0] == "if":
            return s[2]
    return t


def check_delegation(ctx, lib, rule):
    for fnname, want in (
        ("crate::operator::matcha::matcha", "Conda::from_conjunctions(@0.arms)"),
        ("crate::operator::matchu::matchu", "Condu::from_conjunctions(@0.arms)"),
        ("crate::operator::conda::conda", "Conda::from_conjunctions(@0.body)"),
        ("crate::operator::condu::condu", "Condu::from_conjunctions(@0.body)"),
    ):
        fn = streams.getfn(ctx, lib, rule, fnname)
        if fn:
            t = streams.plain_evaluator(lib).fn_term(fn)
            ctx.expect(unify(pat(want), tables.result(t)) is not None and not tables.semis(t), rule, fn["npath"] + "|delegates", site_of(fn), "must be %s; found %s" % (want, show(t, maxdepth=4)[:200]))
    fn = streams.getfn(ctx, lib, rule, "crate::operator::onceo::onceo")
    if fn:
        t = streams.plain_evaluator(lib).fn_term(fn)
        r = tables.result(t)
        g = pat("Conj::from_conjunctions(@0.body)")
        ok = r[0] == "call" and (suffix_match(r[1], "Condu::from_conjunctions") or suffix_match(r[1], "condu"))
        if ok:
            # argument: one clause holding exactly the conjunction of the body
            inner = [s for s in sym.subterms(r[2][0]) if unify(g, s) is not None]
            arrays = r[2][0]
            flat = [s for s in sym.subterms(arrays) if s[0] in ("array", "tuple")]
            ok = len(inner) == 1 and _single_clause(arrays, inner[0])
        ctx.expect(ok, rule, fn["npath"] + "|once", site_of(fn), "onceo must be condu over the single clause [conjunction of the body]; found %s" % show(r, maxdepth=6)[:240])


def _single_clause(t, g):
    # t is param{body: [[g]]} or [[g]] : nested single-element arrays down to g
    cur = t
    for _ in range(6):
        if cur == g:
            return True
        if cur[0] in ("array", "tuple") and len(cur[1]) == 1:
            cur = cur[1][0]
        elif cur[0] == "struct":
            d = dict(cur[2])
            if "body" in d:
                cur = d["body"]
            else:
                return False
        elif cur[0] == "call" and len(cur[2]) == 1:
            cur = cur[2][0]
        else:
            return False
    return False


class _Pfx:
    """Re-label the rule ids of a shared rule with this property's prefix."""

    def __init__(self, ctx):
        self._c = ctx

    def _r(self, rule):
        return "C08" + rule[3:]

    def expect(self, cond, rule, *a, **k):
        return self._c.expect(cond, self._r(rule), *a, **k)

    def violation(self, rule, *a, **k):
        return self._c.violation(self._r(rule), *a, **k)

    def ok(self, rule, *a, **k):
        return self._c.ok(self._r(rule), *a, **k)

    def floor(self, rule, *a, **k):
        return self._c.floor(self._r(rule), *a, **k)

    def __getattr__(self, n):
        return getattr(self._c, n)


def run(ctx, fb, cfg):
    lib = fb.lib
    R = "C08."
    check_solve(ctx, lib, R + "K3.conda-solve", "Conda", "peek")
    check_solve(ctx, lib, R + "K3.condu-solve", "Condu", "trunc")
    check_peek_trunc(ctx, lib, R + "K4K6.peek-trunc")
    check_builder(ctx, lib, R + "K6.builder", "Conda")
    check_builder(ctx, lib, R + "K6.builder", "Condu")
    check_delegation(ctx, lib, R + "K3.delegation")
    # the rest goals of a committed clause run as the conjunction Conj::from_vec builds from them: in written
    # order, every one of them (shared rule)
    import builders

    builders.check_all(ctx, lib, R + "K6.builders", only=("Conj",))
    # Conj::new (what the builder folds with): a constant `true` operand is dropped, never the *other* goal
    streams.check_conj_new(ctx, lib, R + "K6.conj-new", "crate::operator::conj::Conj::new", "Goal", "Conj")
    # matcha / matchu commit on the *first goal* of an arm: the macro must hand each arm over as
    # [eq(term, pattern), body...] (template rule shared with C13)
    if cfg == "lib-default":
        import C13
        import macrolib

        S = macrolib.load_sem(ctx, fb)
        if S is not None:
            C13.check_templates(_Pfx(ctx), S)
            # the head of a clause is its first *written* goal: a bracketed conjunction stays one goal (with C14)
            import C14

            C14.check_constructs(_Pfx(ctx), S)
