"""Shared rules for the CLP(FD) propagators (C16, C17)."""
import hirwalk
import streams
import sym
import tables
from facts import norm
from pat import pat
from report import site_of
from sym import ANY, AnyOf, P, V, show, suffix_match, unify

RUN = "<crate::relation::clpfd::%s::%s as crate::state::constraint::Constraint>::run"
ARITH = {
    "plusfd": ("PlusFdConstraint", "Add"),
    "minusfd": ("MinusFdConstraint", "Sub"),
    "timesfd": ("TimesFdConstraint", "Mul"),
}


def EV(lib):
    return sym.Evaluator(lib, named_lets=True)


def unlet(t):
    while isinstance(t, tuple) and t and t[0] == "letv":
        t = t[3]
    return t


def operand_of_walk(t):
    """walk(state.smap, self.F) -> F"""
    t = unlet(t)
    if t[0] == "call" and suffix_match(t[1], "SMap::walk") and len(t[2]) == 2:
        a = t[2][1]
        a = unlet(a)
        if a[0] == "field" and a[1][0] == "param" and a[1][1] == 0:
            return a[2]
    return None


def operand_of_domain(t):
    """The operand whose domain `t` denotes: proj(maybe_Xdomain, Some, 0) with maybe_Xdomain built from walk(self.X)."""
    t0 = t
    if t[0] == "proj" and isinstance(t[2], str) and t[2].endswith("Some"):
        t = t[1]
    # tuple scrutinee component
    base = unlet(t)
    # match uwalk { Var => dstore.get(uwalk), Val(Number(n)) => Some(singleton), _ => None }  or dstore.get(uwalk)
    walks = set()
    for s in sym.subterms(base):
        f = operand_of_walk(s)
        if f:
            walks.add(f)
    if len(walks) == 1:
        return list(walks)[0]
    return None


def atom(t):
    """min/max of an operand's domain, or a number operand -> (operand, 'min'|'max'|'val')."""
    t = unlet(t)
    if t[0] == "call" and t[1].split("::")[-1] in ("min", "max") and "FiniteDomain" in t[1] and len(t[2]) == 1:
        op = operand_of_domain(t[2][0])
        if op:
            return (op, t[1].split("::")[-1])
    if t[0] == "call" and suffix_match(t[1], "unwrap") and t[2][0][0] == "call" and suffix_match(t[2][0][1], "get_number"):
        f = operand_of_walk(t[2][0][2][0])
        if f:
            return (f, "val")
    return None


def arith(t):
    """Normalise an arithmetic expression over atoms: ('+',a,b) ('-',a,b) ('*',a,b) ('/',a,b) or atom."""
    t = unlet(t)
    a = atom(t)
    if a:
        return a
    if t[0] == "binop" and t[1] in ("Add", "Sub", "Mul", "Div"):
        return ({"Add": "+", "Sub": "-", "Mul": "*", "Div": "/"}[t[1]], arith(t[2]), arith(t[3]))
    if t[0] == "call" and t[1].split("::")[-1] == "unwrap_or" and len(t[2]) == 2 and t[2][0][0] == "call" and t[2][0][1].split("::")[-1] == "checked_div":
        # a.checked_div(b).unwrap_or(fallback): the quotient when it exists
        c = t[2][0]
        return ("/", arith(c[2][0]), arith(c[2][1]))
    if t[0] == "call":
        n = t[1].split("::")[-1]
        m = {"saturating_add": "+", "saturating_sub": "-", "saturating_mul": "*", "checked_add": "+", "checked_sub": "-", "wrapping_add": "?", "wrapping_sub": "?"}.get(n)
        if m and len(t[2]) == 2:
            return (m, arith(t[2][0]), arith(t[2][1]))
    return ("?", show(t, maxdepth=3)[:60])


def comm(e):
    """canonical form: sort operands of commutative ops"""
    if isinstance(e, tuple) and e and e[0] in ("+", "*") and len(e) == 3:
        a, b = comm(e[1]), comm(e[2])
        return (e[0],) + tuple(sorted([a, b], key=repr))
    if isinstance(e, tuple) and e and e[0] in ("-", "/") and len(e) == 3:
        return (e[0], comm(e[1]), comm(e[2]))
    return e


def narrowing_chain(body):
    """process_domain calls of a propagator arm in application order: [(target operand, domain term, call)]."""
    out = []
    cur = tables.result(body)
    # Ok(with_constraint(process_domain(process_domain(state, ..)?, ..)?, self))
    if cur[0] == "ctor" and cur[1].endswith("Ok") and cur[2]:
        cur = cur[2][0]
    chain = []
    while True:
        cur = unlet(cur)
        if cur[0] == "try":
            cur = cur[1]
            continue
        if cur[0] == "call" and suffix_match(cur[1], "with_constraint"):
            chain.append(("with_constraint", cur))
            cur = cur[2][0]
            continue
        if cur[0] == "call" and suffix_match(cur[1], "process_domain"):
            chain.append(("process_domain", cur))
            cur = cur[2][0]
            continue
        break
    chain.reverse()
    return chain, cur


PLUS = {
    "w": (("+", ("u", "min"), ("v", "min")), ("+", ("u", "max"), ("v", "max"))),
    "u": (("-", ("w", "min"), ("v", "max")), ("-", ("w", "max"), ("v", "min"))),
    "v": (("-", ("w", "min"), ("u", "max")), ("-", ("w", "max"), ("u", "min"))),
}
MINUS = {
    # u - v = w
    "w": (("-", ("u", "min"), ("v", "max")), ("-", ("u", "max"), ("v", "min"))),
    "u": (("+", ("w", "min"), ("v", "min")), ("+", ("w", "max"), ("v", "max"))),
    "v": (("-", ("u", "min"), ("w", "max")), ("-", ("u", "max"), ("w", "min"))),
}


def interval_bounds(dom):
    """FiniteDomain::from(lo..=hi) / Interval(new(lo, hi)) -> (lo, hi) terms."""
    d = unlet(dom)
    for s in sym.subterms(d):
        if s[0] == "call" and suffix_match(s[1], "new") and "RangeInclusive" in s[1] and len(s[2]) == 2:
            return s[2]
    return None


def check_arith_propagator(ctx, lib, rule, mod, what="both"):
    ty, op = ARITH[mod]
    fn = streams.getfn(ctx, lib, rule, RUN % (mod, ty))
    if not fn:
        return
    t = EV(lib).fn_term(fn)
    key = fn["npath"]
    site = site_of(fn)
    # ground test uses the declared operator
    if what in ("both", "ground"):
        conds = [s for s in sym.subterms(t) if s[0] == "if" and s[1][0] == "binop" and s[1][1] == "Eq" and any(True for _ in sym.calls(s[1], "get_number"))]
        good = False
        for c in conds:
            l, r = c[1][2], c[1][3]
            for a, b_ in ((l, r), (r, l)):
                e = comm(arith(a))
                w = arith(b_)
                want = comm(({"Add": "+", "Sub": "-", "Mul": "*"}[op], ("u", "val"), ("v", "val")))
                if e == want and w == ("w", "val"):
                    # success branch returns the unchanged state; else branch fails
                    tr = [x for x in sym.subterms(c[2]) if x[0] == "ret"]
                    el = [x for x in sym.subterms(c[3]) if x[0] == "ret"] if c[3] is not None else []
                    if tr and el and unify(pat("Ok(@1)"), tr[0][1]) is not None and unify(pat("Err(_)"), el[0][1]) is not None:
                        good = True
        ctx.expect(good, rule, key + "|ground-test", site, "with all operands numbers the constraint must succeed exactly when u %s v == w" % op)
        # guard of the ground test: all three is_number
        guards = [s for s in sym.subterms(t) if s[0] == "if" and len([c for c in sym.calls(s[1], "is_number")]) == 3]
        ctx.expect(bool(guards), rule, key + "|ground-guard", site, "the ground test must be guarded by is_number() of all three operands")
    if what in ("both", "bounds"):
        # main arm: (Some, Some, Some)
        ms = [s for s in sym.subterms(t) if s[0] == "match" and unlet(s[1])[0] == "tuple" and len(unlet(s[1])[1]) == 3]
        if not ms:
            ctx.violation(rule, key + "|domains-match", site, "expected a match on the three operand domains")
            return
        m = ms[-1]
        arm = [b for p, g, b in m[2] if p[0] == "ptuple" and all(x[0] == "pctor" and x[1].endswith("Some") for x in p[1])]
        if len(arm) != 1:
            ctx.violation(rule, key + "|all-domains-arm", site, "expected one arm for (Some, Some, Some)")
            return
        chain, start = narrowing_chain(arm[0])
        ctx.expect(unify(pat("@1"), start) is not None, rule, key + "|chain-start", site, "narrowing must start from the incoming state")
        ctx.expect(chain and chain[-1][0] == "with_constraint" and unify(pat("@0"), chain[-1][1][2][1]) is not None, rule, key + "|readd", site, "after narrowing, the constraint must be kept until all operands are numbers")
        table = {"plusfd": PLUS, "minusfd": MINUS}.get(mod)
        seen = set()
        for kind, c in chain:
            if kind != "process_domain":
                continue
            target = operand_of_walk(c[2][1])
            b = interval_bounds(c[2][2])
            if target is None or b is None:
                ctx.violation(rule, key + "|narrowing-shape", site, "unrecognised narrowing step %s" % show(c, maxdepth=4)[:160])
                continue
            seen.add(target)
            lo, hi = b
            k = key + "|bounds=%s" % target
            if table is not None:
                elo, ehi = comm(arith(lo)), comm(arith(hi))
                wlo, whi = comm(table[target][0]), comm(table[target][1])
                own = ((target, "min"), (target, "max"))
                good = (elo, ehi) == (wlo, whi) or (elo, ehi) == own
                ctx.expect(good, rule, k, site, "interval for %s must be the sound outer bound [%s, %s] (or leave %s unnarrowed); found [%s, %s]" % (target, wlo, whi, target, elo, ehi))
            else:
                check_times_bound(ctx, rule, k, site, target, lo, hi)
        ctx.expect(seen <= {"u", "v", "w"} and "w" in seen, rule, key + "|narrows", site, "propagator must at least bound w from u and v; narrows %s" % sorted(seen))


def check_times_bound(ctx, rule, k, site, target, lo, hi):
    other = {"u": "v", "v": "u"}
    if target == "w":
        def corners(x):
            x = unlet_deep(x)
            # unwrap(Iterator::min/max(<1:1 adaptors>(array of the four corner products)))
            inner = x[2][0] if x[0] == "call" and suffix_match(x[1], "unwrap") and x[2] else x
            if not (inner[0] == "call" and inner[1].split("::")[-1] in ("min", "max") and "FiniteDomain" not in inner[1] and inner[2]):
                return None
            which = inner[1].split("::")[-1]
            src, chain = streams.iter_chain(inner[2][0])
            if not (src[0] == "array" and len(src[1]) == 4 and all(n in streams.ONE_TO_ONE for n, _ in chain)):
                return None
            prods = {comm(arith(e)) for e in src[1]}
            want = {comm(("*", ("u", a), ("v", b))) for a in ("min", "max") for b in ("min", "max")}
            return prods == want, [which]

        cl, ch = corners(lo), corners(hi)
        good = cl is not None and ch is not None and cl[0] and ch[0] and "min" in cl[1] and "max" in ch[1]
        ctx.expect(good, rule, k, site, "interval for w = u * v must be [min, max] over the four corner products (umin*vmin is not the minimum when signs differ); found [%s, %s]" % (show(unlet(lo), maxdepth=5)[:120], show(unlet(hi), maxdepth=5)[:120]))
        return
    d = other[target]
    # (lo, hi) = if guard { (wmin / dmax, wmax / dmin) } else { (tmin, tmax) }  - or simply own bounds
    own = ((target, "min"), (target, "max"))
    elo, ehi = arith(lo), arith(hi)
    if (elo, ehi) == own:
        ctx.ok(rule, k, site, "operand left unnarrowed")
        return

    def split(x):
        x = unlet(x)
        if x[0] == "proj" and x[2] == "tuple":
            base = unlet(x[1])
            if base[0] == "if" and base[3] is not None:
                th, el = tables.result(base[2]), tables.result(base[3])
                if th[0] == "tuple" and el[0] == "tuple":
                    return base[1], th[1][x[3]], el[1][x[3]]
        return None

    sl, sh = split(lo), split(hi)
    good = sl is not None and sh is not None and sl[0] == sh[0]
    if good:
        cond = sl[0]
        q_lo, q_hi = arith(sl[1]), arith(sh[1])
        good = q_lo == ("/", ("w", "min"), (d, "max")) and q_hi == ("/", ("w", "max"), (d, "min")) and (arith(sl[2]), arith(sh[2])) == own
        # guard: umin >= 0, vmin >= 0, wmin >= 0 and dmin > 0
        # every way the guard can be true (each disjunct of its DNF) must establish all four facts: an `||` slipped
        # into the conjunction lets the quotients be used with a negative operand or a zero divisor
        need = {(("u", "min"), "Ge"), (("v", "min"), "Ge"), (("w", "min"), "Ge")}
        cases = list(tables.cond_cases(unlet_deep(cond), True))
        have_nonneg = have_div = bool(cases)
        for case in cases:
            lits = set()
            for l, pol in case:
                ll = unlet_deep(l)
                if ll[0] == "binop" and pol:
                    a = arith(ll[2])
                    z = ll[3][0] == "lit" and "Pu128(0)" in str(ll[3][1])
                    if z and ll[1] in ("Ge", "Gt"):
                        lits.add((a, ll[1]))
            have_nonneg = have_nonneg and all(any(a == n[0] for a, o in lits) for n in need)
            have_div = have_div and ((d, "min"), "Gt") in lits
        good = good and have_nonneg and have_div
    ctx.expect(good, rule, k, site, "operand %s may be narrowed by quotients [wmin/%smax, wmax/%smin] only under the guard umin>=0, vmin>=0, wmin>=0, %smin>0 (else left unnarrowed); found [%s, %s]" % (target, d, d, d, show(unlet(lo), maxdepth=5)[:140], show(unlet(hi), maxdepth=5)[:140]))


def unlet_deep(t):
    if isinstance(t, tuple):
        if t and t[0] == "letv":
            return unlet_deep(t[3])
        return tuple(unlet_deep(x) for x in t)
    return t


def check_ltefd(ctx, lib, rule):
    fn = streams.getfn(ctx, lib, rule, RUN % ("ltefd", "LessThanOrEqualFdConstraint"))
    if not fn:
        return
    t = EV(lib).fn_term(fn)
    key = fn["npath"]
    site = site_of(fn)
    calls = [c for c in sym.calls(t, "process_domain")]
    nu = nv = 0
    bad = []
    for c in calls:
        target = operand_of_walk(c[2][1])
        dom = unlet_deep(c[2][2])
        cb = [x for x in sym.calls(dom, "copy_before")]
        db = [x for x in sym.calls(dom, "drop_before")]
        if target == "u":
            # u <= v: keep u <= bound : copy_before(udomain, |u| bound < u)
            ok = len(cb) == 1 and not db and operand_of_domain(cb[0][2][0]) == "u"
            if ok:
                body = tables.result(cb[0][2][1][3])
                ok = body[0] == "binop" and ((body[1] == "Lt" and body[3][0] == "cparam" and arith(body[2]) in (("v", "max"), ("v", "val"))) or (body[1] == "Gt" and body[2][0] == "cparam" and arith(body[3]) in (("v", "max"), ("v", "val"))))
            nu += 1
            if not ok:
                bad.append(("u", c))
        elif target == "v":
            ok = len(db) == 1 and not cb and operand_of_domain(db[0][2][0]) == "v"
            if ok:
                body = tables.result(db[0][2][1][3])
                ok = body[0] == "binop" and ((body[1] == "Le" and body[3][0] == "cparam" and arith(body[2]) in (("u", "min"), ("u", "val"))) or (body[1] == "Ge" and body[2][0] == "cparam" and arith(body[3]) in (("u", "min"), ("u", "val"))))
            nv += 1
            if not ok:
                bad.append(("v", c))
        else:
            bad.append(("?", c))
    ctx.expect(not bad and nu >= 2 and nv >= 2, rule, key + "|cuts", site, "u <= v: u must be cut above max(v) (copy_before(udomain, |u| vmax < u)) and v below min(u) (drop_before(vdomain, |v| umin <= v)); offending: %s" % [(w, show(c, maxdepth=6)[:160]) for w, c in bad][:2])
    # both-numbers arm
    conds = [s for s in sym.subterms(t) if s[0] == "if" and s[1][0] == "binop" and s[1][1] in ("Le", "Ge") and any(True for _ in sym.calls(s[1], "get_number"))]
    good = False
    for c in conds:
        a, b_ = arith(c[1][2]), arith(c[1][3])
        if (c[1][1] == "Le" and (a, b_) == (("u", "val"), ("v", "val"))) or (c[1][1] == "Ge" and (a, b_) == (("v", "val"), ("u", "val"))):
            good = unify(pat("Ok(@1)"), tables.result(c[2])) is not None and c[3] is not None and unify(pat("Err(_)"), tables.result(c[3])) is not None
    ctx.expect(good, rule, key + "|ground-test", site, "with both operands numbers: succeed exactly when u <= v")


def check_registry(ctx, lib, rule):
    impls = set()
    for im in lib.impls_of("state::constraint::Constraint"):
        a = norm(im.get("self_adt")) or ""
        if a.startswith("crate::relation::clpfd::"):
            impls.add(a)
    fn = streams.getfn(ctx, lib, rule, "crate::state::State::is_finite_domain")
    if not fn:
        return
    listed = set()
    for c, r, n in hirwalk.calls(fn):
        if n.get("k") == "MethodCall" and n.get("method") == "is" and n.get("gargs"):
            listed.add(norm(n["gargs"][-1]))
    listed_short = {x.split("<")[0] for x in listed}
    impl_short = {x.replace("crate::", "") for x in impls}
    listed_short = {x.replace("crate::", "") for x in listed_short}
    for x in sorted(impl_short - listed_short):
        ctx.violation(rule, "is_finite_domain|missing=%s" % x, site_of(fn), "finite-domain constraint type %s is not recognised by State::is_finite_domain: its operands are not verified to have domains before labeling" % x)
    for x in sorted(listed_short - impl_short):
        ctx.violation(rule, "is_finite_domain|unknown=%s" % x, site_of(fn), "State::is_finite_domain lists %s which is not a CLP(FD) Constraint impl" % x)
    ctx.floor(rule, len(impl_short & listed_short), 7, "finite-domain constraint types in the registry")
    if impl_short == listed_short:
        ctx.ok(rule, "is_finite_domain|registry", site_of(fn), "%d types" % len(impl_short))


def check_restale(ctx, lib, rule):
    # (i) process_domain looks at the current value of its operand
    fn = streams.getfn(ctx, lib, rule, "crate::state::State::process_domain")
    if fn:
        t = EV(lib).fn_term(fn)
        eff, m = tables.flatten(t)
        good = m and m[0] == "match" and unify(pat("walk(@0.smap, @1)"), unlet(m[1])) is not None
        ctx.expect(good, rule, fn["npath"] + "|walks-operand", site_of(fn), "process_domain must branch on walk(self.smap, x): the operand may have been bound by an earlier narrowing step of the same propagator (stale walk)")
        if good:
            # Var -> update_var_domain ; Number in domain -> Ok(self) ; else Err
            W = m[1]
            var = tables.find_arm(m, "LTermInner::Var")
            val = tables.find_arm(m, "LTermInner::Val")
            g1 = len(var) == 1 and var[0][1] is None and unify(("call", P("update_var_domain"), (pat("@0"), W, pat("@2"))), tables.result(var[0][2])) is not None
            g2 = len(val) == 1 and val[0][1] is not None and any(True for _ in sym.calls(val[0][1], "contains")) and unify(pat("Ok(@0)"), tables.result(val[0][2])) is not None
            wild = [b for p, g, b in m[2] if "*" in tables.pat_ctors(p) and g is None]
            g3 = len(wild) == 1 and unify(pat("Err(_)"), tables.result(wild[0])) is not None
            ctx.expect(g1 and g2 and g3, rule, fn["npath"] + "|table", site_of(fn), "process_domain: variable -> update its domain; number -> Ok iff domain.contains(number); anything else -> Err")
    # (ii) run_constraints is a fixpoint on the substitution size
    fn = streams.getfn(ctx, lib, rule, "crate::state::State::run_constraints")
    if fn:
        t = EV(lib).fn_term(fn)
        r = tables.result(t)
        good = r[0] == "loop"
        if good:
            rets = [s for s in sym.subterms(r) if s[0] == "ret" and s[1] is not None and s[1][0] == "ctor" and s[1][1].endswith("Ok")]
            # every Ok return is under `len(smap) == bindings` with bindings = len(smap) taken at loop start
            paths = tables.block_paths(r[1])
            good = bool(rets)
            for lits, effs, term in paths:
                if term is not None and term[0] == "ret" and term[1] is not None and term[1][0] == "ctor" and term[1][1].endswith("Ok"):
                    ok = False
                    for l, pol in lits:
                        ll = unlet_deep(l)
                        if ll[0] == "binop" and ll[1] == "Eq" and pol and all(x[0] == "call" and suffix_match(x[1], "len") for x in ll[2:4]):
                            ok = True
                    good = good and ok
        ctx.expect(good, rule, fn["npath"] + "|fixpoint", site_of(fn), "run_constraints must repeat its pass until the substitution stops growing: a propagator that bound its own operand was not in the store when that binding was propagated")
    # (iii) labeling starts by re-running the store
    fn = streams.getfn(ctx, lib, rule, "crate::state::reification::enforce_constraints_fd")
    if fn:
        t = sym.Evaluator(lib, extra_identity=streams.GOAL_CAST).fn_term(fn)
        arr = [s for s in sym.subterms(t) if s[0] in ("array", "tuple") and len(s[1]) >= 2 and any(True for _ in sym.calls(s, "force_ans"))]
        good = False
        if arr:
            first = arr[0][1][0]
            cl = [c for c in sym.subterms(first) if c[0] == "closure"]
            if cl:
                body = tables.result(cl[0][3])
                if body[0] == "match" and unify(pat("run_constraints(arg1)"), body[1]) is not None:
                    okarm = tables.find_arm(body, "Ok")
                    errarm = tables.find_arm(body, "Err")
                    good = len(okarm) == 1 and len(errarm) == 1 and unify(("ctor", P("Stream::Unit"), (("proj", body[1], ANY, 0),)), tables.result(okarm[0][2])) is not None and unify(pat("Stream::Empty"), tables.result(errarm[0][2])) is not None
        ctx.expect(good, rule, fn["npath"] + "|recheck-before-labeling", site_of(fn), "labeling must start by re-running the constraint store (a constraint that bound its own operands when posted has never been checked against them)")


def check_posting(ctx, lib, rule):
    n = 0
    for mod, ty, cty in (("plusfd", "PlusFd", "PlusFdConstraint"), ("minusfd", "MinusFd", "MinusFdConstraint"), ("timesfd", "TimesFd", "TimesFdConstraint"), ("ltefd", "LessThanOrEqualFd", "LessThanOrEqualFdConstraint"), ("diseqfd", "DiseqFd", "DiseqFdConstraint"), ("distinctfd", "DistinctFd", "DistinctFdConstraint")):
        fn = streams.getfn(ctx, lib, rule, "<crate::relation::clpfd::%s::%s as crate::solver::Solve>::solve" % (mod, ty))
        if not fn:
            continue
        n += 1
        t = sym.Evaluator(lib).fn_term(fn)
        eff, m = tables.flatten(t)
        good = m and m[0] == "match" and m[1][0] == "call" and suffix_match(m[1][1], "run") and unify(pat("@2"), m[1][2][1]) is not None
        if good:
            c = m[1][2][0]
            good = (c[0] == "struct" and c[1].endswith(cty)) or (c[0] == "call" and cty in c[1])
            okarm = tables.find_arm(m, "Ok")
            errarm = tables.find_arm(m, "Err")
            good = good and len(okarm) == 1 and len(errarm) == 1 and unify(("ctor", P("Stream::Unit"), (("proj", m[1], ANY, 0),)), tables.result(okarm[0][2])) is not None and unify(pat("Stream::Empty"), tables.result(errarm[0][2])) is not None
        ctx.expect(good, rule, fn["npath"] + "|posts", site_of(fn), "posting a finite-domain constraint must run it on the incoming state: Ok(state) -> unit stream, Err -> empty stream")
    ctx.floor(rule, n, 6, "finite-domain goal types")


def check_domfd(ctx, lib, rule):
    fn = streams.getfn(ctx, lib, rule, "<crate::relation::clpfd::domfd::DomFd as crate::solver::Solve>::solve")
    if fn:
        t = sym.Evaluator(lib).fn_term(fn)
        eff, m = tables.flatten(t)
        good = m and m[0] == "match" and m[1][0] == "call" and suffix_match(m[1][1], "process_domain") and unify(pat("@2"), m[1][2][0]) is not None and unify(AnyOf(pat("walk(@2.smap, @0.x)"), pat("@0.x")), m[1][2][1]) is not None and unify(pat("@0.domain"), m[1][2][2]) is not None
        ctx.expect(good, rule, fn["npath"] + "|assigns-domain", site_of(fn), "infd/infdrange must intersect the variable's domain with the given one via process_domain(x, domain)")
    fn = streams.getfn(ctx, lib, rule, "crate::state::State::update_var_domain")
    if fn:
        t = sym.Evaluator(lib).fn_term(fn)
        eff, m = tables.flatten(t)
        good = m and m[0] == "match" and unify(pat("get(@0.dstore, @1)"), m[1]) is not None
        if good:
            some = tables.find_arm(m, "Some")
            none = tables.find_arm(m, "None")
            good = len(some) == 1 and len(none) == 1
            if good:
                r = tables.result(some[0][2])
                old = ("proj", m[1], ANY, 0)
                inter = AnyOf(("call", P("intersect"), (old, pat("@2"))), ("call", P("intersect"), (pat("@2"), old)))
                good = r[0] == "match" and unify(inter, r[1]) is not None
                if good:
                    s2 = tables.find_arm(r, "Some")
                    n2 = tables.find_arm(r, "None")
                    good = len(s2) == 1 and len(n2) == 1 and s2[0][1] is None and n2[0][1] is None and unify(("call", P("resolve_storable_domain"), (pat("@0"), pat("@1"), ("proj", r[1], ANY, 0))), tables.result(s2[0][2])) is not None and unify(pat("Err(_)"), tables.result(n2[0][2])) is not None
                    # no shortcut before the store update (an intersection that removes only interior
                    # values has the same bounds as the old domain)
                    good = good and not [e for e in tables.flatten(s2[0][2])[0] if not tables.harmless_effect(e)] and not [e for e in tables.flatten(some[0][2])[0] if not tables.harmless_effect(e)]
                good = good and unify(pat("resolve_storable_domain(@0, @1, @2)"), tables.result(none[0][2])) is not None
        ctx.expect(good, rule, fn["npath"] + "|intersects", site_of(fn), "a constrained variable gets the intersection of old and new domain (empty -> fail); an unconstrained one the new domain")
    fn = streams.getfn(ctx, lib, rule, "crate::state::State::resolve_storable_domain")
    if fn:
        t = sym.Evaluator(lib).fn_term(fn)
        ms = [s for s in sym.subterms(t) if s[0] == "match" and unify(pat("singleton_value(@2)"), s[1]) is not None]
        good = len(ms) == 1
        if good:
            m = ms[0]
            some = tables.find_arm(m, "Some")
            none = tables.find_arm(m, "None")
            good = len(some) == 1 and len(none) == 1
            if good:
                st = [e for e in tables.stmts_of(some[0][2]) if not tables.harmless_effect(e) or e[0] == "let"]
                names = []
                for e in st:
                    ee = e[2] if e[0] == "let" else e
                    if ee[0] == "call":
                        names.append(ee[1].split("::")[-1])
                good = names[:3] == ["extend", "remove", "run_constraints"]
                nst = [e for e in tables.stmts_of(none[0][2]) if not tables.harmless_effect(e) or e[0] == "let"]
                nn = []
                for e in nst:
                    ee = e[2] if e[0] == "let" else e
                    if ee[0] == "call":
                        nn.append(ee[1].split("::")[-1])
                good = good and nn == ["insert"] and unify(pat("Ok(@0)"), tables.result(none[0][2])) is not None
        ctx.expect(good, rule, fn["npath"] + "|bound-implies-no-domain", site_of(fn), "a singleton domain binds the variable: extend the substitution, remove the domain, re-run the store; otherwise store the domain")


# ----------------------------------------------------------------------
MUTATORS = ("push", "insert", "extend", "append", "swap", "reverse", "rotate_left", "rotate_right", "extend_from_slice", "push_front", "splice", "resize")
SORTERS = ("sort", "sort_unstable", "sort_by", "sort_by_key", "sort_unstable_by", "sort_unstable_by_key")


def check_sorted_search(ctx, lib, rule):
    """A vector that is searched with binary_search must stay sorted: in the same function it may
    only grow by `insert(pos, x)` at the position the failed search returned for that x (or be
    re-sorted); any other insertion makes later searches miss duplicates."""
    n = 0
    ev = sym.Evaluator(lib, inline=lambda p, f: False)
    for p, fn in sorted(lib.fns.items()):
        if "hir" not in fn or fn.get("in_test_mod"):
            continue
        t = ev.fn_term(fn)
        searches = list(dict.fromkeys(c for c in sym.calls(t, "binary_search")))
        if not searches:
            continue
        ctx.fn_seen(p)
        for s in searches:
            vec, x = s[2][0], s[2][1]
            n += 1
            muts = list(dict.fromkeys(c for c in sym.subterms(t) if c[0] == "call" and c[2] and c[2][0] == vec and c[1].split("::")[-1] in MUTATORS))
            bad = []
            for m in muts:
                name = m[1].split("::")[-1]
                if name == "insert" and len(m[2]) == 3 and m[2][1] == ("proj", s, m[2][1][2] if len(m[2][1]) > 3 else None, 0) and m[2][1][2].endswith("Err") and m[2][2] == x:
                    continue
                bad.append(m)
            key = "%s|searched=%s" % (p, show(vec, maxdepth=3))
            ctx.expect(not bad, rule, key, site_of(fn), "vector %s is searched with binary_search but modified by %s, which does not keep it sorted" % (show(vec, maxdepth=3), [show(b, maxdepth=3)[:80] for b in bad]))
    ctx.floor(rule, n, 2, "binary_search sites")
    # the searched field of DistinctFd2Constraint starts sorted: its constructor argument was sorted
    fn = lib.fn("<crate::relation::clpfd::distinctfd::DistinctFdConstraint as crate::state::constraint::Constraint>::run")
    if fn is None:
        ctx.violation(rule, "anchor-missing|DistinctFdConstraint::run", "", "function not found")
        return
    t = sym.Evaluator(lib, named_lets=True, inline=lambda p, f: False).fn_term(fn)
    news = list(dict.fromkeys(c for c in sym.calls(t, "DistinctFd2Constraint::new")))
    ok = len(news) >= 1
    for c in news:
        nvec = c[2][2]
        sorts = [s for s in sym.subterms(t) if s[0] == "call" and s[1].split("::")[-1] in SORTERS and s[2] and s[2][0][:2] == nvec[:2]]
        ok = ok and nvec[0] == "letv" and bool(sorts)
    ctx.expect(ok, rule, "DistinctFdConstraint::run|constants-sorted", site_of(fn), "the constant list handed to DistinctFd2Constraint::new must have been sorted (it is binary-searched later)")


def check_distinctfd(ctx, lib, rule):
    """Decision table of the all-different propagator: a value seen twice fails; an unseen value is
    recorded; unresolved members are carried over; the recorded values are removed from the domains
    of the unresolved members."""
    fn = lib.fn("<crate::relation::clpfd::distinctfd::DistinctFd2Constraint as crate::state::constraint::Constraint>::run")
    if fn is None:
        ctx.violation(rule, "anchor-missing|DistinctFd2Constraint::run", "", "function not found")
        return
    ctx.fn_seen(fn["npath"])
    site = site_of(fn)
    t = sym.Evaluator(lib, named_lets=True, inline=lambda p, f: False).fn_term(fn)
    key = fn["npath"]
    searches = list(dict.fromkeys(c for c in sym.calls(t, "binary_search")))
    if not ctx.expect(len(searches) == 1, rule, key + "|one-search", site, "expected one duplicate test per member, found %d" % len(searches)):
        return
    s = searches[0]
    ms = [m for m in sym.subterms(t) if m[0] == "match" and m[1] == s]
    ok = bool(ms)
    if ok:
        m = ms[0]
        okarm = tables.find_arm(m, "Ok")
        ok = len(okarm) == 1 and okarm[0][1] is None and any(x[0] == "ret" and x[1] is not None and x[1][0] == "ctor" and x[1][1].endswith("Err") for x in sym.subterms(okarm[0][2]))
    ctx.expect(ok, rule, key + "|duplicate-fails", site, "a member value that was already seen must fail the constraint (return Err)")
    # members: every member of self.y is examined; variables are carried over
    fors = [f for f in sym.subterms(t) if f[0] == "for"]
    ok = len(fors) == 1
    if ok:
        f = fors[0]
        src, chain = streams.iter_chain(f[1])
        ok = any(x == ("field", ("param", 0, "self"), "y") for x in sym.subterms(f[1])) and not [n for n, _ in chain if n not in streams.ONE_TO_ONE and n != "into_iter"]
        item = ("item", f[1])
        walks = [c for c in sym.calls(f[3], "SMap::walk") if c[2][1] == item]
        ok = ok and bool(walks)
        mm = [m for m in sym.subterms(f[3]) if m[0] == "match" and any(True for _ in tables.find_arm(m, "LTermInner::Var"))]
        ok = ok and bool(mm)
        if ok:
            var = tables.find_arm(mm[0], "LTermInner::Var")
            ok = len(var) == 1 and any(suffix_match(c[1], "extend") and item in list(sym.subterms(c[2][1])) for c in sym.calls(var[0][2]))
    ctx.expect(ok, rule, key + "|carries-unresolved", site, "every member is examined in its current value; a member that is still a variable is kept for the next run")
    ex = list(dict.fromkeys(c for c in sym.calls(t, "exclude_from_domain")))
    ok = len(ex) == 1
    if ok:
        dom = ex[0][2][2]
        ok = any(c[0] == "call" and suffix_match(c[1], "from") and c[2][0] == ("field", ("param", 0, "self"), "n") for c in sym.subterms(dom))
        ok = ok and any(suffix_match(c[1], "with_constraint") for c in sym.calls(ex[0][2][0]))
    ctx.expect(ok, rule, key + "|excludes-seen-values", site, "the values seen so far (self.n) must be removed from the domains of the unresolved members, with the constraint kept")


def check_diseqfd(ctx, lib, rule):
    """Decision table of x != y over domains: equal singletons fail; disjoint domains drop the
    constraint; otherwise it is kept, and a singleton side is removed from the other side's domain."""
    fn = lib.fn("<crate::relation::clpfd::diseqfd::DiseqFdConstraint as crate::state::constraint::Constraint>::run")
    if fn is None:
        ctx.violation(rule, "anchor-missing|DiseqFdConstraint::run", "", "function not found")
        return
    ctx.fn_seen(fn["npath"])
    site = site_of(fn)
    key = fn["npath"]
    t = sym.Evaluator(lib, inline=lambda p, f: False).fn_term(fn)
    eff, m = tables.flatten(t)
    if not ctx.expect(m and m[0] == "match" and m[1][0] == "tuple" and len(m[1][1]) == 2, rule, key + "|shape", site, "expected a match on the pair of operand domains"):
        return
    U, V = ("proj", ("proj", m[1], "tuple", 0), ANY, 0), ("proj", ("proj", m[1], "tuple", 1), ANY, 0)
    arms = m[2]
    seen_fail = seen_drop = seen_keep = False
    for p, g, b in arms:
        r = tables.result(b)
        both = p[0] == "ptuple" and all(x[0] == "pctor" and x[1].endswith("Some") for x in p[1])
        if not both:
            # some operand has no domain yet: the constraint must be kept
            ok = r[0] == "ctor" and r[1].endswith("Ok") and any(suffix_match(c[1], "with_constraint") for c in sym.calls(r))
            ctx.expect(ok, rule, key + "|no-domain-keeps", site, "while an operand has no domain the constraint must stay in the store; found %s" % show(r, maxdepth=4)[:120])
            continue
        cj = _conjuncts(g) if g is not None else []
        if g is not None and len(cj) == 2 and all(c[0] == "call" and suffix_match(c[1], "is_singleton") for c in cj) and cj[0][2][0] != cj[1][2][0]:
            # both singletons: equal -> Err, different -> Ok(state) (entailed)
            ok = r[0] == "if" and r[1][0] == "binop" and r[1][1] == "Eq"
            if ok:
                l, rr = r[1][2], r[1][3]
                ok = l[0] == "call" and rr[0] == "call" and l[1] == rr[1] and l[1].split("::")[-1] in ("min", "max", "singleton_value") and {show(l[2][0]), show(rr[2][0])} == {show(x) for x in (sym_subst(U), sym_subst(V))} if False else ok
                then, els = tables.result(r[2]), tables.result(r[3])
                ok = ok and then[0] == "ctor" and then[1].endswith("Err") and els[0] == "ctor" and els[1].endswith("Ok") and els[2][0][:2] == ("param", 1)
                ok = ok and l[2][0] != rr[2][0]
            ctx.expect(ok, rule, key + "|equal-singletons-fail", site, "two singleton domains: equal values fail, different values are entailed; found %s" % show(r, maxdepth=5)[:200])
            seen_fail = True
        elif g is not None and g[0] == "call" and suffix_match(g[1], "is_disjoint"):
            gc = g
            ok = gc[2][0] != gc[2][1] and r[0] == "ctor" and r[1].endswith("Ok") and r[2][0][:2] == ("param", 1)
            ctx.expect(ok, rule, key + "|disjoint-drops", site, "the constraint may be dropped only when the two domains are disjoint; guard %s" % show(g, maxdepth=4)[:120])
            seen_drop = True
        elif g is None:
            keeps = any(suffix_match(c[1], "with_constraint") for c in sym.calls(b))
            pds = list(dict.fromkeys(c for c in sym.calls(b, "process_domain")))
            ok = keeps and len(pds) == 2
            for c in pds:
                diffs = [d for d in sym.calls(c[2][2], "diff")]
                ok = ok and len(diffs) >= 1 and diffs[0][2][0] != diffs[0][2][1]
            ctx.expect(ok, rule, key + "|overlap-keeps-and-narrows", site, "overlapping domains: the constraint is kept and a singleton side is removed from the other side's domain (diff)")
            seen_keep = True
        else:
            ctx.violation(rule, key + "|unrecognised-arm", site, "unrecognised guarded arm %s" % show(g, maxdepth=4)[:120])
    ctx.expect(seen_fail and seen_drop and seen_keep, rule, key + "|table-complete", site, "the decision table must have the equal-singletons, disjoint and overlapping cases")


def sym_subst(x):
    return x


def _conjuncts(g):
    if isinstance(g, tuple) and g and g[0] == "binop" and g[1] == "And":
        return _conjuncts(g[2]) + _conjuncts(g[3])
    return [g]


# ----------------------------------------------------------------------
PLUMBING = [
    # (module path, relation fn, goal type, constraint type, fields in operand order)
    ("crate::relation::clpfd::plusfd", "plusfd", "PlusFd", "PlusFdConstraint", ("u", "v", "w")),
    ("crate::relation::clpfd::minusfd", "minusfd", "MinusFd", "MinusFdConstraint", ("u", "v", "w")),
    ("crate::relation::clpfd::timesfd", "timesfd", "TimesFd", "TimesFdConstraint", ("u", "v", "w")),
    ("crate::relation::clpfd::ltefd", "ltefd", "LessThanOrEqualFd", "LessThanOrEqualFdConstraint", ("u", "v")),
    ("crate::relation::clpfd::diseqfd", "diseqfd", "DiseqFd", "DiseqFdConstraint", ("u", "v")),
    ("crate::relation::clpz::plusz", "plusz", "PlusZ", "PlusZConstraint", ("u", "v", "w")),
    ("crate::relation::clpz::timesz", "timesz", "TimesZ", "TimesZConstraint", ("u", "v", "w")),
]


def check_operand_plumbing(ctx, lib, rule, only=None):
    """rel(a, b, c) constrains exactly (a, b, c) in that order: the relation function builds the goal
    with u = a, v = b, w = c; solve() hands self.u, self.v, self.w in that order to the constraint
    constructor, which stores them under the same names (the run() tables read them by name)."""
    n = 0
    ev = sym.Evaluator(lib)
    noin = sym.Evaluator(lib, inline=lambda p, f: False, extra_identity={"crate::Upcast::to_super", "crate::Upcast::into_super", "crate::GoalCast::cast_into"})
    for mod, rel, gty, cty, fields in PLUMBING:
        if only and rel not in only:
            continue
        if lib.fn("%s::%s" % (mod, rel)) is None:
            continue
        n += 1
        fn = streams.getfn(ctx, lib, rule, "%s::%s" % (mod, rel))
        if fn:
            t = ev.fn_term(fn)
            nodes = [s for s in sym.subterms(t) if s[0] == "struct" and s[1].endswith("::" + gty)]
            ok = len(nodes) == 1
            if ok:
                f = dict(nodes[0][2])
                ok = all(f.get(name, ("", -1))[:2] == ("param", i) for i, name in enumerate(fields)) and len(f) == len(fields)
            ctx.expect(ok, rule, "%s|goal-operands" % rel, site_of(fn), "%s(%s) must build a %s goal holding its operands in that order; found %s" % (rel, ", ".join(fields), gty, show(t, maxdepth=6)[:200]))
        fn = streams.getfn(ctx, lib, rule, "<%s::%s as crate::solver::Solve>::solve" % (mod, gty))
        if fn:
            t = noin.fn_term(fn)
            news = list(dict.fromkeys(c for c in sym.calls(t, "%s::new" % cty)))
            ok = len(news) == 1 and len(news[0][2]) == len(fields) and all(a == ("field", ("param", 0, "self"), name) for a, name in zip(news[0][2], fields))
            ctx.expect(ok, rule, "%s|posts-own-operands" % rel, site_of(fn), "%s::solve must post %s::new(%s); found %s" % (gty, cty, ", ".join("self." + x for x in fields), [show(c, maxdepth=4) for c in news][:2]))
        fn = streams.getfn(ctx, lib, rule, "%s::%s::new" % (mod, cty))
        if fn:
            t = noin.fn_term(fn)
            nodes = [s for s in sym.subterms(t) if s[0] == "struct" and s[1].endswith("::" + cty)]
            ok = len(nodes) == 1
            if ok:
                f = dict(nodes[0][2])
                ok = all(f.get(name, ("", -1))[:2] == ("param", i) for i, name in enumerate(fields)) and len(f) == len(fields)
            ctx.expect(ok, rule, "%s|constraint-operands" % rel, site_of(fn), "%s::new must store its operands under the names the propagator reads (%s, in order)" % (cty, ", ".join(fields)))
    ctx.floor(rule, n, 1, "relations with operand plumbing")
    # ltfd(u, v) = diseqfd(u, v) and ltefd(u, v) on the same operands, same order
    if only is None or "ltfd" in only:
        fn = lib.fn("crate::relation::clpfd::ltfd::ltfd")
        if fn is not None:
            ctx.fn_seen(fn["npath"])
            t = noin.fn_term(fn)
            a = list(dict.fromkeys(c for c in sym.calls(t, "diseqfd")))
            b = list(dict.fromkeys(c for c in sym.calls(t, "ltefd")))
            ok = len(a) == 1 and len(b) == 1 and [x[:2] for x in a[0][2]] == [("param", 0), ("param", 1)] and [x[:2] for x in b[0][2]] == [("param", 0), ("param", 1)]
            ctx.expect(ok, rule, "ltfd|strict-order", site_of(fn), "ltfd(u, v) must be diseqfd(u, v) together with ltefd(u, v), operands in the same order")


DSTORE_KEY_EXCEPTIONS = {
    # function -> (shape of the key, reason)
    "crate::state::State::update_var_domain": ("param", "callers pass the walked variable (process_domain branches on walk(x); checked by the re-examination rule)"),
    "crate::state::State::resolve_storable_domain": ("param", "same variable as update_var_domain received"),
    "crate::state::State::remove_domain": ("param", "called with a just-bound variable under its own name"),
    "crate::state::State::process_extension_fd": ("extension-key", "keys of the extension are the variables just bound; their domains were stored under those names"),
    "crate::state::State::exclude_from_domain": ("list-item", "a missed exclusion only delays pruning: the all-different propagator re-tests every member for duplicates once it is bound"),
}


def check_dstore_keys(ctx, lib, rule):
    """The domain store is keyed by *representative* variables: a domain moves to the value when its
    variable is bound (process_extension_fd).  So every lookup must use the walked term - looking up
    the operand as written misses the domain of an aliased variable (and verify_all_bound then
    rejects a well-formed program)."""
    ev = sym.Evaluator(lib, inline=lambda p, f: False)
    n = 0
    for p, fn in sorted(lib.fns.items()):
        if "hir" not in fn or fn.get("in_test_mod"):
            continue
        t = ev.fn_term(fn)
        for c in sorted(set(sym.calls(t)), key=str):
            name = c[1].split("::")[-1]
            if name not in ("get", "contains_key", "remove", "insert", "get_mut") or "HashMap" not in c[1] or not c[2] or "dstore" not in str(c[2][0]) or len(c[2]) < 2:
                continue
            n += 1
            ctx.fn_seen(p)
            k = c[2][1]
            walked = k[0] == "call" and suffix_match(k[1], "SMap::walk")
            key = "%s|%s(%s)" % (p, name, "walked" if walked else show(k, maxdepth=2)[:40])
            if walked:
                ctx.ok(rule, key, site_of(fn), "key is a walk result")
                continue
            exc = DSTORE_KEY_EXCEPTIONS.get(p)
            shape = "param" if k[0] == "param" else "extension-key" if "extension" in str(k) and k[0] == "proj" else "list-item" if k[0] == "item" else "other"
            ctx.expect(exc is not None and exc[0] == shape, rule, key, site_of(fn), "the domain store is looked up with %s, which is not the walked representative of the variable (an aliased variable's domain lives under its representative)" % show(k, maxdepth=4)[:120])
    ctx.floor(rule, n, 15, "domain-store lookups")


# constraint type (last path segment) -> term-typed fields deliberately not listed as operands
OPERAND_EXCEPTIONS = {
    "DistinctFd2Constraint": {"y": "y is the still-unbound sub-list of u (moved between y and n by run); u already lists every variable"},
}


def check_operands(ctx, lib, rule):
    """`Constraint::operands` is what `LResult::constraints` / `ConstraintStore::relevant` (which constraints an
    answer reports for a variable) and `State::verify_all_bound` (which variables need a domain) read.  Each
    implementation must list *every* term-typed field of its constraint, each one as itself - a copy-paste that
    lists `u` twice and `v` never still type-checks.  The substitution-shaped disequality delegates to
    `SMap::operands`, whose table is: every key; every value that is itself a variable."""
    impls = [p for p in lib.fns if p.endswith(" as crate::state::constraint::Constraint>::operands") and "hir" in lib.fns[p] and not lib.fns[p].get("in_test_mod")]
    ev = sym.Evaluator(lib, inline=lambda p, f: False)
    S = ("param", 0, "self")
    n = 0
    for p in sorted(impls):
        fn = lib.fns[p]
        ty_path = p[1:].split(" as ")[0]
        ty = ty_path.split("::")[-1]
        adt = lib.adts.get(ty_path)
        ctx.fn_seen(p)
        if not ctx.expect(adt is not None and len(adt.get("variants", [])) == 1, rule, "%s|type" % ty, site_of(fn), "cannot find the struct of %s" % ty):
            continue
        n += 1
        fields = adt["variants"][0]["fields"]
        termf = [f["name"] for f in fields if "lterm::LTerm" in f["ty"] or (f.get("tys") or {}).get("adt") == "crate::lterm::LTerm"]
        smapf = [f["name"] for f in fields if "SMap" in f["ty"]]
        want = [f for f in termf if f not in OPERAND_EXCEPTIONS.get(ty, {})]
        t = ev.fn_term(fn)
        eff, r = tables.flatten(t)
        if smapf and not termf:
            ok = r[0] == "call" and suffix_match(r[1], "SMap::operands") and r[2] == (("field", S, smapf[0]),)
            ctx.expect(ok and not eff, rule, "%s|delegates-to-substitution" % ty, site_of(fn), "a substitution-shaped constraint lists the operands of its substitution; found %s" % show(t, maxdepth=5)[:160])
            continue
        listed = [s for s in sym.subterms(r) if s[0] == "field" and s[1] == S]
        # every occurrence counts (a field listed twice in place of another is the slip this rule is for)
        occ = []

        def walk(x):
            if isinstance(x, tuple):
                if x and x[0] == "field" and len(x) > 2 and x[1] == S:
                    occ.append(x[2])
                    return
                for y in x:
                    walk(y)

        walk(r)
        ok = sorted(occ) == sorted(want) and not [e for e in eff if not tables.harmless_effect(e)]
        ctx.expect(ok, rule, "%s|lists=%s" % (ty, ",".join(want)), site_of(fn), "operands() must list each term field of the constraint exactly once (%s); found %s" % (want, occ))
    ctx.floor(rule, n, 8, "Constraint::operands implementations")
    for name in ("operands", "get_vars"):
        fn = lib.fn("crate::state::substitution::SMap::%s" % name)
        if not ctx.expect(fn is not None, rule, "SMap::%s|anchor" % name, "src/state/substitution.rs", "SMap::%s not found" % name):
            continue
        ctx.fn_seen(fn["npath"])
        t = ev.fn_term(fn)
        eff, r = tables.flatten(t)
        fors = [e for e in eff if e[0] == "for"]
        ok = len(fors) == 1
        why = "expected one loop over the pairs"
        if ok:
            f = fors[0]
            src, chain = streams.iter_chain(f[1])
            item = ("item", f[1])
            K, Vv = ("proj", item, "tuple", 0), ("proj", item, "tuple", 1)
            ok = unify(pat("@0.0"), src) is not None and all(m in streams.ONE_TO_ONE for m, _ in chain)
            why = "the loop must visit every pair of the substitution"
            if ok:
                occs = [(s, lits) for s, lits in tables.occurrences_with_guards(f[3]) if s[0] == "call" and suffix_match(s[1], "push")]
                ks = [(s, l) for s, l in occs if s[2][1] == K]
                vs = [(s, l) for s, l in occs if s[2][1] == Vv]
                other = [s for s, l in occs if s[2][1] not in (K, Vv)]
                ok = len(ks) == 1 and not ks[0][1] and len(vs) == 1 and len(vs[0][1]) == 1 and vs[0][1][0][1] is True and vs[0][1][0][0] == ("call", "crate::lterm::LTerm::is_var", (Vv,)) and not other
                why = "each key is listed unconditionally, each value exactly when it is a variable, nothing else; found pushes %s" % [(show(s[2][1], maxdepth=3), [(show(l[0], maxdepth=3), l[1]) for l in ll]) for s, ll in occs]
        ctx.expect(ok, rule, "SMap::%s|keys-and-variable-values" % name, site_of(fn), why)
