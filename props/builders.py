"""Shared rule: every goal-array builder of the operator layer is a total, order-preserving right fold
from the neutral element.

   Conj / DFSConj / InferredConj :: from_vec, from_array, from_conjunctions      unit = succeed
   Disj / DFSDisj               :: from_vec, from_array, from_conjunctions      unit = fail

`from_conjunctions(&[&[G]])` first turns each clause into a conjunction (`<Conj-of-that-kind>::from_array`).
The disjunction primitives and the BFS / DFS conjunction types have no caller in the crate's own tests, so
a swapped operand (`new(acc, g)`), a wrong seed or a lost element in one of the fifteen siblings changes
behaviour only for the users of that one constructor.  (Conde's own constructors are a separate rule:
C13.check_conde_builder.)"""
import C14

FAMILIES = (
    # type, module, new, unit, clause conjunction used by from_conjunctions
    ("Conj", "conj", "Conj::new", "succeed", "Conj::from_array"),
    ("DFSConj", "conj", "DFSConj::new", "succeed", "DFSConj::from_array"),
    ("InferredConj", "conj", "InferredConj::new", "succeed", "InferredConj::from_array"),
    ("Disj", "disj", "Disj::new", "fail", "Conj::from_array"),
    ("DFSDisj", "disj", "DFSDisj::new", "fail", "DFSConj::from_array"),
)


def check_all(ctx, lib, rule, only=None):
    n = 0
    for ty, mod, new, unit, inner in FAMILIES:
        if only is not None and ty not in only:
            continue
        for f in ("from_vec", "from_array"):
            C14.check_fold(ctx, lib, rule, "crate::operator::%s::%s::%s" % (mod, ty, f), new, unit=unit)
            n += 1
        C14.check_fold(ctx, lib, rule, "crate::operator::%s::%s::from_conjunctions" % (mod, ty), new, inner=inner, unit=unit)
        n += 1
    # from_iter (forward fold; labeling of compound fields and `for` bodies are built with it): every item, from `succeed`
    if not rule.startswith("C12"):
        import C12
        import C15

        C12.check_from_iter(C15._Prefixed(ctx, rule[:3]), lib)
    return n
