"""Shared rule: the small predicates, accessors and constructors of LTerm that every other table
treats as primitives ("is this a variable / a number / a list / empty", head / tail, get_number,
cons / empty_list / singleton / From<literal>) mean what their names say.

Decided by finite case analysis: each predicate is a match over the variants of LTermInner (nested
LValue kinds for the literal tests); an explicit arm decides its variants, a wildcard arm the
complement; the truth table must be "true exactly for the named kinds", an accessor must return the
payload of exactly that variant, a constructor must build exactly that variant from its arguments.
"""
import streams
import sym
import tables
from report import site_of
from sym import show, suffix_match

# predicate -> set of (variant[, literal kind]) for which it must be true
PRED = {
    "is_val": {"Val"},
    "is_var": {"Var"},
    "is_user": {"User"},
    "is_projection": {"Projection"},
    "is_empty": {"Empty"},
    "is_non_empty_list": {"Cons"},
    "is_list": {"Empty", "Cons"},
    "is_compound": {"Compound"},
}
LIT_PRED = {"is_number": "Number", "is_bool": "Bool", "is_char": "Char", "is_string": "String"}
ACCESSOR = {
    # fn -> (variant, payload index, literal kind or None)
    "head": ("Cons", 0, None),
    "tail": ("Cons", 1, None),
    "head_mut": ("Cons", 0, None),
    "tail_mut": ("Cons", 1, None),
    "get_user": ("User", 0, None),
    "get_projection": ("Projection", 0, None),
    "get_number": ("Val", 0, "Number"),
    "get_bool": ("Val", 0, "Bool"),
    "get_name": ("Var", 1, None),
}


def _variants(lib, path):
    adt = lib.adts.get(path)
    return [v.get("name") for v in (adt or {}).get("variants", [])]


def _top(p):
    """(variant, nested literal kind or None, is_catch_all) of an arm pattern."""
    if p[0] == "pctor":
        v = p[1].split("::")[-1]
        lit = None
        if v == "Val" and p[2] and p[2][0][0] == "pctor":
            lit = p[2][0][1].split("::")[-1]
        extra = None
        if v == "Var" and len(p[2]) > 1 and p[2][1][0] == "plit":
            extra = "named:" + str(p[2][1][1])
        return v, lit, extra
    return None, None, None


def _truth(m, V, LV):
    """dict (variant, lit|None) -> result body, following arm order (first match wins)."""
    out = {}
    cells = [(v, None) for v in V if v != "Val"] + [("Val", l) for l in LV]
    for p, g, b in m[2]:
        if g is not None:
            return None
        alts = p[1] if p[0] == "por" else (p,)
        for a in alts:
            if a[0] in ("pwild",) or (a[0] == "pbind" and a[3] is None):
                for c in cells:
                    out.setdefault(c, b)
                continue
            v, lit, extra = _top(a)
            if v is None:
                return None
            if extra is not None:
                out.setdefault((v, extra), b)
                continue
            for c in cells:
                if c[0] == v and (lit is None or c[1] == lit):
                    out.setdefault(c, b)
    return out if all(c in out for c in cells) else None


def _is_true(b):
    r = str(tables.result(b))
    return "true" in r and "false" not in r


def check_term_kinds(ctx, lib, rule):
    V = _variants(lib, "crate::lterm::LTermInner")
    LV = _variants(lib, "crate::lvalue::LValue")
    if not ctx.expect(len(V) >= 6 and len(LV) >= 3, rule, "variants", "src/lterm.rs", "cannot enumerate LTermInner / LValue variants"):
        return
    ev = sym.Evaluator(lib, inline=lambda p, f: False)
    n = 0
    for name, want in sorted(list(PRED.items()) + [(k, None) for k in LIT_PRED]):
        fn = lib.fn("crate::lterm::LTerm::%s" % name)
        if fn is None:
            continue
        n += 1
        ctx.fn_seen(fn["npath"])
        t = ev.fn_term(fn)
        eff, m = tables.flatten(t)
        ok = bool(m) and m[0] == "match" and m[1][:2] == ("param", 0) and not [e for e in eff if not tables.harmless_effect(e)]
        why = ""
        if ok:
            tab = _truth(m, V, LV)
            ok = tab is not None
            if ok:
                for (v, lit), b in sorted(tab.items(), key=str):
                    if lit is not None and str(lit).startswith("named:"):
                        continue
                    exp = (v in want) if want is not None else (v == "Val" and lit == LIT_PRED[name])
                    if _is_true(b) != exp:
                        ok = False
                        why += " %s%s->%s" % (v, "(%s)" % lit if lit else "", "true" if _is_true(b) else "false")
        ctx.expect(ok, rule, "LTerm::%s|truth-table" % name, site_of(fn), "LTerm::%s must be true exactly for %s;%s" % (name, sorted(want) if want is not None else "Val(%s)" % LIT_PRED[name], why or " unrecognised shape " + show(t, maxdepth=4)[:120]))
    ctx.floor(rule, n, 8, "LTerm kind predicates")
    # is_any: a variable whose name is the reserved "_"
    fn = lib.fn("crate::lterm::LTerm::is_any")
    if fn is not None:
        ctx.fn_seen(fn["npath"])
        t = ev.fn_term(fn)
        eff, m = tables.flatten(t)
        ok = bool(m) and m[0] == "match" and m[1][:2] == ("param", 0)
        if ok:
            trues = [(p, b) for p, g, b in m[2] if _is_true(b)]
            ok = len(trues) == 1 and trues[0][0][0] == "pctor" and trues[0][0][1].endswith("LTermInner::Var") and len(trues[0][0][2]) == 2 and trues[0][0][2][1][0] == "plit" and '"_"' in str(trues[0][0][2][1][1]).replace("\\", "") or (ok and len(trues) == 1 and "_" in str(trues[0][0]))
        ctx.expect(ok, rule, "LTerm::is_any|reserved-name", site_of(fn), "is_any must be true exactly for a variable named `_`")
    # accessors
    na = 0
    for name, (variant, idx, lit) in sorted(ACCESSOR.items()):
        fn = lib.fn("crate::lterm::LTerm::%s" % name)
        if fn is None:
            continue
        na += 1
        ctx.fn_seen(fn["npath"])
        t = ev.fn_term(fn)
        eff, m = tables.flatten(t)
        ok = bool(m) and m[0] == "match" and m[1][:2] == ("param", 0)
        why = ""
        if ok:
            tab = _truth(m, V, LV)
            ok = tab is not None
            if ok:
                for (v, l2), b in tab.items():
                    if l2 is not None and str(l2).startswith("named:"):
                        continue
                    r = tables.result(b)
                    is_target = v == variant and (lit is None or l2 == lit)
                    if is_target:
                        good = r[0] == "ctor" and r[1].endswith("Some") and len(r[2]) == 1
                        if good:
                            x = r[2][0]
                            # payload idx of `variant` (through the nested literal constructor when there is one)
                            chain = []
                            while x[0] == "proj":
                                chain.append((x[2].split("::")[-1], x[3]))
                                x = x[1]
                            good = x[:2] == ("param", 0) and chain[-1:] == [(variant, idx if lit is None else 0)] and (lit is None or chain[:1] == [(lit, 0)])
                    else:
                        good = r[0] == "ctor" and r[1].endswith("None")
                    if not good:
                        ok = False
                        why += " %s%s->%s" % (v, "(%s)" % l2 if l2 else "", show(r, maxdepth=3)[:50])
        ctx.expect(ok, rule, "LTerm::%s|payload-of=%s" % (name, variant + ("(%s)" % lit if lit else "")), site_of(fn), "LTerm::%s must return payload %d of %s and None otherwise;%s" % (name, idx, variant, why or " unrecognised shape"))
    ctx.floor(rule, na, 6, "LTerm accessors")
    # constructors
    for name, variant, args in (("cons", "Cons", 2), ("empty_list", "Empty", 0), ("singleton", "Cons", None), ("user", "User", 1)):
        fn = lib.fn("crate::lterm::LTerm::%s" % name)
        if fn is None:
            continue
        ctx.fn_seen(fn["npath"])
        t = ev.fn_term(fn)
        cs = list(dict.fromkeys(c for c in sym.ctors(t) if c[1].startswith("crate::lterm::LTermInner")))
        ok = len(cs) == 1 and cs[0][1].endswith("::" + variant)
        if ok and args is not None:
            ok = len(cs[0][2]) == args and all(a[:2] == ("param", i) for i, a in enumerate(cs[0][2]))
        if ok and name == "singleton":
            a = cs[0][2]
            ok = len(a) == 2 and a[0][:2] == ("param", 0) and (a[1][0] == "call" and suffix_match(a[1][1], "empty_list") or a[1][0] == "ctor" and a[1][1].endswith("Empty"))
        ctx.expect(ok, rule, "LTerm::%s|builds=%s" % (name, variant), site_of(fn), "LTerm::%s must build exactly LTermInner::%s from its arguments in order; found %s" % (name, variant, [show(c, maxdepth=3) for c in cs][:2]))
    # literal conversions: From<isize|bool|char|&str|String> build Val(the matching kind)
    nf = 0
    for p, fn in sorted(lib.fns.items()):
        if not (p.startswith("<crate::lterm::LTerm as std::convert::From<") and p.endswith(">>::from")) or "hir" not in fn:
            continue
        src = p[len("<crate::lterm::LTerm as std::convert::From<") : -len(">>::from")]
        kind = {"isize": "Number", "bool": "Bool", "char": "Char", "&str": "String", "std::string::String": "String"}.get(src)
        if kind is None:
            continue
        nf += 1
        ctx.fn_seen(p)
        t = sym.Evaluator(lib).fn_term(fn)
        vals = [c for c in sym.ctors(t) if c[1].endswith("LTermInner::Val")]
        lits = [c for c in sym.ctors(t) if c[1].endswith("LValue::" + kind)]
        other = [c for c in sym.ctors(t) if c[1].startswith("crate::lvalue::LValue::") and not c[1].endswith("::" + kind)]
        ok = len(set(vals)) >= 1 and (bool(lits) or any(suffix_match(c[1], "from") for c in sym.calls(t))) and not other
        ctx.expect(ok, rule, "LTerm::from<%s>|builds=Val(%s)" % (src, kind), site_of(fn), "a %s literal must become Val(%s)" % (src, kind))
    ctx.floor(rule, nf, 4, "literal conversions")


_LIT_KIND = {"bool": "Bool", "isize": "Number", "char": "Char", "&str": "String", "str": "String", "std::string::String": "String"}


def check_literal_comparisons(ctx, lib, rule):
    """Answers are observed through `==` between a term / value / result and a Rust literal (`result.q == 5`,
    `LValue == "a"`): the forty `PartialEq` impls between LTerm / LValue / LResult and bool, isize, char, &str,
    str, String, LValue, LTerm are siblings of one shape - true exactly when the container holds the literal's
    kind and its payload equals the literal, false for every other kind.  Finite truth table per impl."""
    n = 0
    ev = sym.Evaluator(lib, inline=lambda p, f: False)
    for p, fn in sorted(lib.fns.items()):
        if "PartialEq<" not in p or not p.endswith("::eq") or "hir" not in fn or fn.get("in_test_mod"):
            continue
        if p.startswith("<"):
            cont = p[1:].split(" as ")[0]
            lit = p.split("PartialEq<", 1)[1].rsplit(">>::eq", 1)[0]
            ci, li = 0, 1
        elif " for " in p:
            cont = p.split("PartialEq<", 1)[1].split("> for ")[0]
            lit = p.split("> for ", 1)[1].rsplit(">::eq", 1)[0]
            ci, li = 1, 0
        else:
            continue
        if cont.split("::")[-1] not in ("LTerm", "LValue", "LResult") or not cont.startswith("crate::"):
            continue
        kind = _LIT_KIND.get(lit)
        if kind is None and lit not in ("crate::lvalue::LValue", "crate::lterm::LTerm"):
            continue
        if cont.endswith("LValue") and kind is None:
            continue
        n += 1
        ctx.fn_seen(p)
        t = ev.fn_term(fn)
        eff, m = tables.flatten(t)
        C = lambda x: isinstance(x, tuple) and x[:2] == ("param", ci)
        L = lambda x: isinstance(x, tuple) and x[:2] == ("param", li)
        why = ""
        ok = not [e for e in eff if not tables.harmless_effect(e)]
        if ok and lit == "crate::lterm::LTerm":
            ok = m[0] == "binop" and m[1] == "Eq" and {True} == {(x[0] == "field" and C(x[1]) and x[2] == "0") or L(x) for x in (m[2], m[3])} and any(L(x) for x in (m[2], m[3]))
            why = "a result equals a term exactly when its wrapped term does"
        elif ok:
            ok = m[0] == "match" and C(m[1])
            why = "must match on the container"
            if ok:
                hits = 0
                for pat_, g, b in m[2]:
                    r = tables.result(b)
                    if r == ("lit", "Bool(false)") and g is None:
                        continue
                    # the one arm that may be true: the literal's kind, payload == literal
                    chain = []
                    x = None
                    if r[0] == "binop" and r[1] == "Eq" and g is None:
                        a, b_ = r[2], r[3]
                        x = a if L(b_) else (b_ if L(a) else None)
                    while x is not None and x[0] == "proj":
                        chain.append(x[2].split("::")[-1])
                        x = x[1]
                    want = ([kind] if cont.endswith("LValue") else ([kind, "Val"] if kind else ["Val"]))
                    if x is not None and C(x) and chain == want:
                        hits += 1
                    else:
                        ok = False
                        why = "arm `%s` yields %s" % (show(pat_, maxdepth=3)[:40], show(r, maxdepth=4)[:60])
                if ok and hits != 1:
                    ok = False
                    why = "%d arms compare the payload (exactly one expected)" % hits
        ctx.expect(ok, rule, "%s==%s|%s" % (cont.split("::")[-1], lit.split("::")[-1], "container-left" if ci == 0 else "literal-left"), site_of(fn), "`%s == %s` must be true exactly when the %s holds a %s whose payload equals the literal; %s" % (cont.split("::")[-1], lit, cont.split("::")[-1], kind or lit.split("::")[-1], why))
    ctx.floor(rule, n, 36, "literal comparison impls (LTerm / LValue / LResult x literal kinds, both operand orders)")
