"""C21 - LTerm equality, hashing and list operations are consistent (partly).

Decided (structural):
 * Eq/Hash agreement (K10): for each LTermInner variant the payloads fed to the hasher are a subset
   of the payloads compared by `==`; `==` relates only equal variants, compares variables by id
   only, and is symmetric under swapping self/other; VarID and LValue derive Hash and PartialEq from
   the same fields; no float field exists (so Eq's reflexivity claim is sound);
 * sibling constructors: from_vec ~ from_array and improper_from_vec ~ improper_from_array have the
   same term modulo `to_vec`, and are right folds (cons(element, acc) over the reversed sequence)
   ending in Empty, resp. in the last element;
 * sibling iterators: LTermIter::next and LTermIterMut::next yield the head of a Cons and continue
   with its tail unless that is Empty, end on Empty, yield an improper tail once - and never yield
   from a cursor cell that has already been emptied (typestate of the Option cursor).
 (round 5) literal comparisons: the 40 PartialEq impls between LTerm / LValue / LResult and Rust literals are
   siblings of one truth table; eq arms conjoin equalities only; compound eq / hash helpers and derive templates
   (with C20).
"""
import hirwalk
import streams
import sym
import tables
from facts import norm
from pat import pat
from report import site_of
from sym import ANY, AnyOf, P, V, show, suffix_match, unify

EXPLANATION = (
    "Static consistency rules on typed-HIR symbolic terms of lterm.rs / lvalue.rs: per-variant hashed-vs-compared payload sets, symmetry and same-variant discipline of PartialEq, "
    "derive agreement and absence of float fields, equality of sibling constructor terms modulo to_vec plus their right-fold shape, and a cursor typestate rule with per-kind yield table for the two list iterators."
)
NOT_DECIDED = "that extend, indexing, contains, is_improper and Display behave like the corresponding sequence operations on every term (value-level behaviour of loops over run-time data)"
TECHNIQUE = "static analysis: Eq/Hash payload-set agreement, sibling-term comparison and Option-cursor typestate over typed HIR via rustc_private driver"

VARIANTS = ["Val", "Var", "User", "Empty", "Cons", "Compound"]


def payload_set(t, side, variant):
    out = set()
    for s in sym.subterms(t):
        if s[0] == "proj" and s[1] == side and isinstance(s[2], str) and s[2].endswith("LTermInner::" + variant):
            out.add(s[3])
    return out


def check_eq_hash(ctx, lib, rule):
    hf = streams.getfn(ctx, lib, rule, "<crate::lterm::LTerm as std::hash::Hash>::hash")
    ef = streams.getfn(ctx, lib, rule, "<crate::lterm::LTerm as std::cmp::PartialEq>::eq")
    if not hf or not ef:
        return
    ht = sym.Evaluator(lib).fn_term(hf)
    et = sym.Evaluator(lib).fn_term(ef)
    eh, hm = tables.flatten(ht)
    ee, em = tables.flatten(et)
    if not (hm and hm[0] == "match" and em and em[0] == "match" and em[1][0] == "tuple" and len(em[1][1]) == 2):
        ctx.violation(rule, "shape", site_of(ef), "Hash::hash must match on self and PartialEq::eq on (self, other)")
        return
    S, O = em[1][1]
    SELF = hm[1]
    for v in VARIANTS:
        suf = "LTermInner::" + v
        harms = tables.find_arm(hm, suf)
        earms = [(p, g, b) for p, g, b in em[2] if p[0] == "ptuple" and len(p[1]) == 2 and all(x[0] == "pctor" and x[1].endswith(suf) for x in p[1])]
        key = "variant=%s" % v
        if len(harms) != 1 or len(earms) != 1:
            ctx.violation(rule, key + "|arms", site_of(ef), "expected one Hash arm and one (V, V) Eq arm for %s; found %d / %d" % (v, len(harms), len(earms)))
            continue
        hashed = payload_set(harms[0][2], SELF, v)
        cmp_s = payload_set(earms[0][2], S, v)
        cmp_o = payload_set(earms[0][2], O, v)
        ctx.expect(hashed <= cmp_s and cmp_s == cmp_o, rule, key + "|hashed-subset-of-compared", site_of(hf), "variant %s: payloads hashed %s must be a subset of payloads compared %s (same on both sides %s): equal terms must hash equally" % (v, sorted(map(str, hashed)), sorted(map(str, cmp_s)), sorted(map(str, cmp_o))))
        # pairwise: payload i of self is compared with payload i of other
        body = earms[0][2]
        ok = True
        for s in sym.subterms(body):
            if s[0] == "binop" and s[1] == "Eq":
                a, b_ = s[2], s[3]
                if a[0] == "proj" and b_[0] == "proj" and a[2] == b_[2]:
                    if a[3] != b_[3] or {a[1], b_[1]} != {S, O}:
                        ok = False
        ctx.expect(ok, rule, key + "|pairwise", site_of(ef), "variant %s: payload k of self must be compared with payload k of other" % v)
        neg = [q for q in sym.subterms(body) if (q[0] == "binop" and q[1] in ("Ne", "Lt", "Gt", "Le", "Ge", "BitXor")) or (q[0] == "unop" and q[1] == "Not") or (q[0] == "call" and isinstance(q[1], str) and q[1].split("::")[-1] == "ne")]
        ctx.expect(not neg, rule, key + "|equalities-only", site_of(ef), "variant %s: the arm may only conjoin equalities of payloads; found %s" % (v, [show(q, maxdepth=3)[:50] for q in neg][:2]))
        if v == "Var":
            ctx.expect(hashed == {0} and cmp_s == {0}, rule, key + "|id-only", site_of(ef), "variables are compared and hashed by id only (never by name): hashed %s compared %s" % (sorted(hashed), sorted(cmp_s)))
        if v == "Cons":
            ctx.expect(cmp_s == {0, 1} and hashed == {0, 1}, rule, key + "|head-and-tail", site_of(ef), "list cells must compare and hash head and tail")
    # mixed variants never equal; symmetric arm set
    kinds = []
    for p, g, b in em[2]:
        if p[0] == "ptuple" and len(p[1]) == 2:
            l, r = [tables.pat_ctors(x)[0].split("::")[-1] for x in p[1]]
            kinds.append((l, r, b))
        else:
            kinds.append(("*", "*", b))
    for l, r, b in kinds:
        res = tables.result(b)
        if l == r and l != "*":
            continue
        isfalse = res[0] == "lit" and "false" in str(res[1])
        ispanic = any(s[0] == "call" and "panic" in s[1] for s in sym.subterms(b))
        ctx.expect(isfalse or ispanic, rule, "mixed=%s,%s" % (l, r), site_of(ef), "terms of different kinds (%s, %s) must never be equal" % (l, r))
    pairs = {(l, r) for l, r, b in kinds}
    ctx.expect(all((r, l) in pairs for l, r in pairs), rule, "symmetric-arms", site_of(ef), "the arm set of == must be symmetric under swapping self and other: %s" % sorted(pairs))


def check_derives(ctx, lib, rule):
    for ty in ("crate::lterm::VarID", "crate::lvalue::LValue"):
        traits = {}
        for im in lib.impls:
            if norm(im.get("self_adt")) == ty and im.get("trait"):
                ts = str(im.get("trait_str") or "")
                name = norm(im["trait"]).split("::")[-1]
                if name == "PartialEq" and not ts.rstrip(">").endswith("PartialEq"):
                    continue  # PartialEq<OtherType>
                traits[name] = im
        hd = traits.get("Hash")
        pe = traits.get("PartialEq")
        both_derived = hd is not None and pe is not None and hd["span"].endswith("!") and pe["span"].endswith("!")
        ctx.expect(both_derived, rule, "%s|derive-hash-and-eq" % ty, site_of(hd or pe or {"span": ""}), "%s must derive both Hash and PartialEq (same field list); a hand-written one of the two can disagree" % ty)
    # no float fields anywhere in the term types
    bad = []
    for a in ("crate::lvalue::LValue", "crate::lterm::LTermInner", "crate::lterm::VarID"):
        adt = lib.adts.get(a)
        if not adt:
            ctx.violation(rule, "anchor-missing|%s" % a, "", "type %s not found" % a)
            continue
        for v in adt["variants"]:
            for f in v["fields"]:
                if "f32" in f["ty"] or "f64" in f["ty"]:
                    bad.append((a, v["name"], f["ty"]))
    ctx.expect(not bad, rule, "no-float-fields", "src/lvalue.rs", "a float payload makes == non-reflexive (NaN) although Eq is implemented: %s" % bad)


def strip_names(x):
    if isinstance(x, tuple):
        if x and x[0] == "param":
            return ("param", x[1])
        if x and x[0] == "var":
            return ("var",)
        if x and x[0] == "pbind":
            return ("pbind",)
        return tuple(strip_names(y) for y in x)
    return x


def check_constructors(ctx, lib, rule):
    ev = sym.Evaluator(lib, extra_identity={"std::slice<impl [T]>::to_vec", "core::slice<impl [T]>::to_vec"})
    pairs = (("from_vec", "from_array", "LTermInner::Empty"), ("improper_from_vec", "improper_from_array", None))

    def normalise(t):
        # is_empty of Vec vs slice are the same question
        if isinstance(t, tuple):
            if t and t[0] == "call" and t[1].split("::")[-1] == "is_empty":
                return ("call", "is_empty", tuple(normalise(x) for x in t[2]))
            return tuple(normalise(x) for x in t)
        return t

    for a, b, unit in pairs:
        fa = streams.getfn(ctx, lib, rule, "crate::lterm::LTerm::" + a)
        fb_ = streams.getfn(ctx, lib, rule, "crate::lterm::LTerm::" + b)
        if not fa or not fb_:
            continue
        ta, tb = ev.fn_term(fa), ev.fn_term(fb_)
        na, nb = normalise(strip_names(ta)), normalise(strip_names(tb))
        # compare ignoring pure `let` statements
        ra, rb = tables.result(na), tables.result(nb)
        ctx.expect(ra == rb, rule, "%s~%s|same-term" % (a, b), site_of(fb_), "%s and %s must build the same term from the same element sequence (they differ)" % (a, b))
        for fn, t in ((fa, ta), (fb_, tb)):
            check_fold(ctx, rule, fn, t, unit)


def check_fold(ctx, rule, fn, t, unit):
    key = fn["npath"]
    site = site_of(fn)
    fors = [s for s in sym.subterms(t) if s[0] == "for"]
    good = len(fors) == 1
    if good:
        f = fors[0]
        okc, rev, msg = streams.classify_iter(f[1], "@0")
        good = okc and rev
        body = [e for e in tables.stmts_of(f[3]) if not tables.harmless_effect(e)]
        good = good and len(body) == 1 and body[0][0] == "assign" and body[0][1][0] == "var"
        if good:
            acc = body[0][1]
            cons = [c for c in sym.ctors(body[0][2], "LTermInner::Cons")]
            good = len(cons) == 1 and cons[0][2] == (("item", f[1]), acc)
            inits = [s for s in sym.subterms(t) if s[0] == "seq" for st in s[1] if st[0] == "let" and st[1][0] == "pbind" and st[1][1] == acc[1] for s in [st[2]]]
            if unit is not None:
                good = good and bool(inits) and any(True for _ in sym.ctors(inits[0], unit))
            else:
                good = good and bool(inits) and unify(pat("unwrap(pop(@0))"), inits[0]) is not None
    ctx.expect(good, rule, key + "|right-fold", site, "must be a right fold: acc = %s; for x in elements.rev() { acc = cons(x, acc) }" % ("empty list" if unit else "last element (pop)"))


def check_iterators(ctx, lib, rule):
    for name in ("LTermIter", "LTermIterMut"):
        fn = streams.getfn(ctx, lib, rule, "<crate::lterm::%s as std::iter::Iterator>::next" % name)
        if not fn:
            continue
        t = sym.Evaluator(lib, named_lets=True).fn_term(fn)
        key = fn["npath"]
        site = site_of(fn)
        cursor = pat("@0.maybe_next")
        # typestate: a `take(cursor)` empties the cell; yielding from it afterwards without refilling is None
        takes = [c for c in sym.calls(t, "take") if unify(cursor, c[2][0]) is not None]
        paths = tables.block_paths(t)
        ctx.count("paths_enumerated", len(paths))
        emptied_then_yielded = False
        scr_take = _scrutinee_takes(t, cursor)
        for lits, effs, term in paths:
            res = term[1] if term is not None and term[0] == "ret" else (effs[-1] if effs else None)
            if res is None:
                continue
            refilled = any(e[0] == "assign" and unify(cursor, e[1]) is not None for e in effs) or any(e[0] == "call" and suffix_match(e[1], "replace") and unify(cursor, e[2][0]) is not None for e in effs[:-1])
            reads_cell = res[0] == "call" and res[1].split("::")[-1] == "take" and unify(cursor, res[2][0]) is not None
            if scr_take and reads_cell and not refilled:
                emptied_then_yielded = True
        ctx.expect(not emptied_then_yielded, rule, key + "|cursor-typestate", site, "an arm yields `self.maybe_next.take()` after the cursor has already been taken out for the match: it yields None instead of the element (the improper tail is skipped)")
        # yield table
        heads = [s for s in sym.subterms(t) if s[0] == "ctor" and s[1].endswith("Some") and s[2] and s[2][0][0] == "proj" and isinstance(s[2][0][2], str) and s[2][0][2].endswith("LTermInner::Cons") and s[2][0][3] == 0]
        ctx.expect(bool(heads), rule, key + "|yields-head", site, "a list cell must yield its head")
        adv = [s for s in sym.subterms(t) if (s[0] == "assign" and unify(cursor, s[1]) is not None and any(x[0] == "proj" and isinstance(x[2], str) and x[2].endswith("LTermInner::Cons") and x[3] == 1 for x in sym.subterms(s[2]))) or (s[0] == "call" and suffix_match(s[1], "replace") and unify(cursor, s[2][0]) is not None and any(x[0] == "proj" and isinstance(x[2], str) and x[2].endswith("LTermInner::Cons") and x[3] == 1 for x in sym.subterms(s[2][1])))]
        ctx.expect(bool(adv), rule, key + "|advances-to-tail", site, "after yielding the head the cursor must move to the tail")
        # improper tail: some path yields the current node itself (not a Cons payload)
        cur_sources = (cursor,)
        improper = False
        for lits, effs, term in paths:
            res = term[1] if term is not None and term[0] == "ret" else (effs[-1] if effs else None)
            if res is None:
                continue
            r = res
            if r[0] == "ctor" and r[1].endswith("Some") and r[2]:
                inner = r[2][0]
                base = inner
                while base[0] == "letv":
                    base = base[3]
                if base[0] == "try" and base[1][0] == "call" and base[1][1].split("::")[-1] == "take" and unify(cursor, base[1][2][0]) is not None:
                    improper = True
            if r[0] == "call" and r[1].split("::")[-1] == "take" and unify(cursor, r[2][0]) is not None and not scr_take:
                improper = True
        ctx.expect(improper, rule, key + "|yields-improper-tail", site, "a non-list, non-empty current node (improper tail) must be yielded as the final element")
        # after a cell: the iteration ends only when the tail is the empty list; any other tail
        # (a further cell, or an improper tail of any kind) becomes the next cursor
        adt = lib.adts.get("crate::lterm::LTermInner")
        KINDS = frozenset(v.get("name") for v in (adt or {}).get("variants", []))
        tails = list(dict.fromkeys(x for x in sym.subterms(t) if x[0] == "proj" and isinstance(x[2], str) and x[2].endswith("LTermInner::Cons") and x[3] == 1))
        if ctx.expect(len(tails) == 1 and len(KINDS) >= 5, rule, key + "|tail-projection", site, "expected one tail projection of the matched cell, found %d" % len(tails)):
            tail = tails[0]
            stop_kinds, go_kinds = set(), set()
            for s_, lits in tables.occurrences_with_guards(t):
                is_stop = s_[0] == "assign" and unify(cursor, s_[1]) is not None and s_[2][0] == "ctor" and s_[2][1].endswith("None")
                is_go = (s_[0] == "call" and suffix_match(s_[1], "replace") and unify(cursor, s_[2][0]) is not None and s_[2][1] == tail) or (s_[0] == "assign" and unify(cursor, s_[1]) is not None and any(x == tail for x in sym.subterms(s_[2])))
                if not (is_stop or is_go):
                    continue
                # only inside the cell arm (the tail projection is meaningful there)
                in_cell = any(l[0] == "matches" and w and any(c.endswith("LTermInner::Cons") for c in _all_ctors(l[2])) for l, w in lits)
                if not in_cell:
                    continue
                ks = _tail_kinds(lits, tail, {}, KINDS)
                (stop_kinds if is_stop else go_kinds).update(ks)
            # (an iterator that empties its cursor on entry stops implicitly: no explicit "stop" store)
            ok = stop_kinds <= {"Empty"} and go_kinds == set(KINDS) - {"Empty"}
            ctx.expect(ok, rule, key + "|continues-unless-empty-tail", site, "after a cell the iteration must stop exactly when the tail is [] and continue with every other tail; stops for %s, continues for %s" % (sorted(stop_kinds), sorted(go_kinds)))


def _scrutinee_takes(t, cursor):
    for s in sym.subterms(t):
        if s[0] == "match":
            for c in sym.calls(s[1], "take"):
                if unify(cursor, c[2][0]) is not None:
                    return True
    return False


def _all_ctors(p):
    out = []
    if isinstance(p, tuple) and p:
        if p[0] == "pctor":
            out.append(p[1])
            for x in p[2]:
                out += _all_ctors(x)
        elif p[0] in ("ptuple", "por"):
            for x in p[1]:
                out += _all_ctors(x)
        elif p[0] == "pbind" and p[3]:
            out += _all_ctors(p[3])
    return out


def _kind(c):
    return c.split("::")[-1]


def _tail_kinds(lits, tail, arms_before, KINDS):
    """Which variants of the tail are consistent with the branch literals."""
    S = set(KINDS)
    for l, w in lits:
        if l[0] == "call" and l[2] and l[2][0] == tail:
            name = l[1].split("::")[-1]
            sets = {"is_empty": {"Empty"}, "is_list": {"Empty", "Cons"}, "is_non_empty_list": {"Cons"}}
            if name in sets:
                S &= sets[name] if w else (KINDS - sets[name])
        if l[0] == "matches" and w and l[1] == tail:
            cs = tables.pat_ctors(l[2])
            if cs == ["*"]:
                S &= KINDS - arms_before.get(id(l[2]), set())
            else:
                S &= set(_kind(c) for c in cs)
    return S


def check_is_improper(ctx, lib, rule):
    """is_improper: a cell whose tail is the empty list ends a proper list (false); a tail that is
    itself a list cell is examined recursively; any other tail (variable, literal, compound, user
    term) makes the list improper (true). Display chooses the `[a, b | t]` form by the same test."""
    fn = streams.getfn(ctx, lib, rule, "crate::lterm::LTerm::is_improper")
    if not fn:
        return
    t = sym.Evaluator(lib, inline=lambda p, f: False).fn_term(fn)
    key = fn["npath"]
    site = site_of(fn)
    eff, m = tables.flatten(t)
    if not ctx.expect(m and m[0] == "match" and m[1][:2] == ("param", 0), rule, key + "|shape", site, "expected a match on self"):
        return
    cons = tables.find_arm(m, "LTermInner::Cons")
    if not ctx.expect(len(cons) == 1 and cons[0][1] is None, rule, key + "|cons-arm", site, "expected one unguarded arm for list cells"):
        return
    tail = ("proj", m[1], cons[0][0][1], 1)
    body = cons[0][2]
    adt = lib.adts.get("crate::lterm::LTermInner")
    KINDS = frozenset(v.get("name") for v in (adt or {}).get("variants", []))
    if not ctx.expect(len(KINDS) >= 5 and {"Empty", "Cons"} <= KINDS, rule, key + "|variants", site, "cannot enumerate the variants of LTermInner"):
        return
    # wildcard arms of an inner match on the tail cover the complement of the explicit arms before them
    arms_before = {}
    for mm in sym.subterms(body):
        if mm[0] == "match" and mm[1] == tail:
            seen = set()
            for p_, g_, b_ in mm[2]:
                cs = tables.pat_ctors(p_)
                if cs == ["*"]:
                    arms_before[id(p_)] = set(seen)
                elif g_ is None:
                    for c in cs:
                        seen.add(_kind(c))
    results = []
    for s_, lits in tables.occurrences_with_guards(body):
        val = None
        if s_[0] == "lit" and "Bool(" in str(s_[1]):
            val = "true" if "true" in str(s_[1]) else "false"
        elif s_[0] == "call" and suffix_match(s_[1], "is_improper") and s_[2] and s_[2][0] == tail:
            val = "rec"
        if val is None:
            continue
        # only results, not conditions: a literal that is itself a branch condition is not a result
        results.append((val, frozenset(_tail_kinds(lits, tail, arms_before, KINDS))))
    want = {k: "true" for k in KINDS}
    want.update({"Empty": "false", "Cons": "rec"})
    ok = bool(results)
    seen = set()
    why = []
    for val, S in set(results):
        for k in S:
            seen.add(k)
            if want[k] != val:
                ok = False
                why.append("tail kind %s yields %s (expected %s)" % (k, val, want[k]))
    ok = ok and seen == set(KINDS)
    ctx.expect(ok, rule, key + "|tail-table", site, "is_improper of a cell: tail [] -> false, tail cell -> recurse, any other tail -> true; %s" % ("; ".join(sorted(set(why))) or "cases seen %s" % sorted(seen)))
    # non-list terms are not improper lists
    other = [(p_, b_) for p_, g_, b_ in m[2] if "*" in tables.pat_ctors(p_) or any(c.endswith("LTermInner::Empty") for c in tables.pat_ctors(p_))]
    ctx.expect(all("false" in str(tables.result(b_)) for p_, b_ in other) and bool(other), rule, key + "|non-cells", site, "the empty list and non-list terms are not improper")
    # Display uses is_improper(self) to choose the bar form
    fd = streams.getfn(ctx, lib, rule, "<crate::lterm::LTerm as std::fmt::Display>::fmt")
    if fd:
        td = sym.Evaluator(lib, inline=lambda p, f: False).fn_term(fd)
        ifs = [x for x in sym.subterms(td) if x[0] == "if" and x[1][0] == "call" and suffix_match(x[1][1], "is_improper") and x[1][2][0][:2] == ("param", 0)]
        okd = len(set(ifs)) == 1
        if okd:
            bar_then = "|" in "".join(str(l[1]) for l in sym.subterms(ifs[0][2]) if l[0] == "lit")
            bar_else = ifs[0][3] is not None and "|" in "".join(str(l[1]) for l in sym.subterms(ifs[0][3]) if l[0] == "lit")
            okd = bar_then and not bar_else
        ctx.expect(okd, rule, fd["npath"] + "|bar-iff-improper", site_of(fd), "Display must print the ` | tail` form exactly for improper lists (self.is_improper())")


def check_list_ops_via_iter(ctx, lib, rule):
    """contains / indexing are defined through the element iterators (so they see exactly the
    element sequence decided above, improper tail included); extend appends at the end of the spine."""
    ev = sym.Evaluator(lib, inline=lambda p, f: False)
    fn = streams.getfn(ctx, lib, rule, "crate::lterm::LTerm::contains")
    if fn:
        t = ev.fn_term(fn)
        r = tables.result(t)
        ok = r[0] == "call" and suffix_match(r[1], "any") and len(r[2]) == 2 and r[2][0][0] == "call" and suffix_match(r[2][0][1], "LTerm::iter") and r[2][0][2][0][:2] == ("param", 0) and r[2][1][0] == "closure"
        if ok:
            clo = r[2][1]
            b = tables.result(clo[3])
            elem = ("cparam", clo[1], 0)
            ok = b[0] == "binop" and b[1] == "Eq" or (b[0] == "call" and suffix_match(b[1], "eq"))
            operands = b[2:4] if b[0] == "binop" else b[2]
            ok = ok and elem in operands and any(o[:2] == ("param", 1) or (o[0] == "call" and o[2] and o[2][0][:2] == ("param", 1)) for o in operands)
        ctx.expect(ok, rule, "LTerm::contains|any-over-iter", site_of(fn), "contains(v) must be `self.iter().any(|u| u == v)` (membership in the element sequence, improper tail included); found %s" % show(t, maxdepth=6)[:200])
    for name, it in (("<crate::lterm::LTerm as std::ops::Index<usize>>::index", "LTerm::iter"), ("<crate::lterm::LTerm as std::ops::IndexMut<usize>>::index_mut", "LTerm::iter_mut")):
        fn = streams.getfn(ctx, lib, rule, name)
        if fn:
            t = ev.fn_term(fn)
            nth = list(dict.fromkeys(c for c in sym.calls(t, "nth")))
            ok = len(nth) == 1 and nth[0][2][0][0] == "call" and suffix_match(nth[0][2][0][1], it) and nth[0][2][0][2][0][:2] == ("param", 0) and nth[0][2][1][:2] == ("param", 1)
            ctx.expect(ok, rule, name.split("::")[-1] + "|nth-of-iter", site_of(fn), "indexing must be the n-th element of %s (same element sequence as iteration); found %s" % (it, show(t, maxdepth=5)[:160]))
    for name, target in (("crate::lterm::LTerm::iter", "LTermIter::new"), ("crate::lterm::LTerm::iter_mut", "LTermIterMut::new")):
        fn = streams.getfn(ctx, lib, rule, name)
        if fn:
            t = ev.fn_term(fn)
            r = tables.result(t)
            ctx.expect(r[0] == "call" and suffix_match(r[1], target) and r[2][0][:2] == ("param", 0), rule, name.split("::")[-1] + "|starts-at-self", site_of(fn), "%s must start the iterator at the term itself" % name.split("::")[-1])
    for name in ("crate::lterm::LTermIter::new", "crate::lterm::LTermIterMut::new"):
        fn = streams.getfn(ctx, lib, rule, name)
        if fn:
            t = ev.fn_term(fn)
            nodes = [x for x in sym.subterms(t) if x[0] == "struct" and "LTermIter" in x[1]]
            ok = len(nodes) == 1
            if ok:
                f = dict(nodes[0][2])
                v = f.get("maybe_next", ("", 0))
                ok = v[0] == "ctor" and v[1].endswith("Some") and v[2] and v[2][0][:2] == ("param", 0)
            ctx.expect(ok, rule, name.split("::")[-2] + "::new|cursor-at-start", site_of(fn), "a new list iterator must point at the term it was created for")


def run(ctx, fb, cfg):
    lib = fb.lib
    R = "C21."
    check_eq_hash(ctx, lib, R + "K10.eq-hash")
    check_derives(ctx, lib, R + "K10.derives")
    check_constructors(ctx, lib, R + "K6.sibling-constructors")
    check_iterators(ctx, lib, R + "K6.sibling-iterators")
    check_is_improper(ctx, lib, R + "K6.is-improper")
    check_list_ops_via_iter(ctx, lib, R + "K3.list-ops-via-iter")
    import termkinds

    termkinds.check_term_kinds(ctx, lib, R + "K5.term-kinds")
    termkinds.check_literal_comparisons(ctx, lib, R + "K5.literal-comparisons")
    # `==` / hash on compound terms go through the blanket CompoundEq / CompoundHash helpers and the
    # library's compound impls (shared with C20): two compounds of different types are never equal
    import C15
    import C20

    C20.check_library(C15._Prefixed(ctx, "C21"), lib)
    # ... and the PartialEq / Hash the derive generates for #[compound] structs compare self with other, field by field
    if cfg == "lib-default":
        import macrolib

        S = macrolib.load_sem(ctx, fb)
        if S is not None:
            C20.check_derive(C15._Prefixed(ctx, "C21"), S)
