"""C23 - Solving well-formed programs never panics.

K8 panic inventory: every panic-capable site (calls into core::panicking / std::rt::begin_panic /
panic_fmt, Option/Result::unwrap/expect, MIR Assert terminators for overflow, division by zero,
bounds) in non-test library code reachable in the call graph from goal solving
(Solve::solve, Constraint::run, Engine::step, StreamIterator::next, Solver::*, ResultIterator::next,
Query::run*, and the public relation/operator constructors) is classified:
  guarded       - mechanically: the site is evaluated only under the branch literal that makes it dead
                  (get_number().unwrap() <= is_number(); as_term().unwrap() <= is_term();
                   pop().unwrap() <= !is_empty(); len()-1 <= len() > 1; unreachable!() after one
                   downcast per AnyGoal impl);
  invariant     - dead by a representation invariant decided elsewhere (named in the table);
  precondition  - the panic *is* the documented rejection of an ill-formed program;
  reachable     - everything else: reported (LTerm::project is the recorded finding F4).
A site that is in none of the tables is a violation: that is the realistic regression (a new
unwrap() on a value that can be None).
 (round 4, shared) Constraint::operands completeness (verify_all_bound reads it).
 (round 5) calls of std APIs that panic on a bad position / size (split_at, split_off, remove, insert, drain(range),
   chunks(0), ...) are inventory sites; constructor asserts are the documented satisfiable disjunctions.
"""
import hirwalk
import streams
import sym
import tables
from facts import norm
from pat import pat
from report import site_of
from sym import ANY, AnyOf, P, show, suffix_match, unify

EXPLANATION = (
    "Static panic inventory over MIR call/assert terminators of every non-test function reachable (resolved call graph with trait-impl expansion) from the solving entry points, "
    "each site classified as mechanically guarded (branch literals over typed-HIR symbolic terms), invariant, documented precondition, or reachable; unknown sites fail the check."
)
NOT_DECIDED = "absence of stack exhaustion on deep recursion; panics inside user-supplied closures and User impls; that the documented preconditions are the only ill-formed inputs"
TECHNIQUE = "static analysis: panic-site inventory on MIR + call-graph reachability + dominating-guard check on typed HIR via rustc_private driver"

PANIC_PREFIX = ("core::panicking", "std::rt::begin_panic", "std::rt::panic", "core::option::unwrap_failed", "core::result::unwrap_failed", "core::option::expect_failed", "std::process::abort", "std::panicking")
UNWRAPS = ("unwrap", "expect", "unwrap_err", "expect_err")

# (function suffix, kind, detail substring) -> (class, max count, reason)
TABLE = [
    # ---- preconditions: operand kinds documented by the relation constructors
    ("Constraint::new", "panic", "assertion failed", "precondition", 3, "operand-kind assert of a constraint constructor (operands must be variables / numbers / lists as documented)"),
    ("DistinctFd2Constraint::new", "panic", "assertion failed", "precondition", 2, "as above"),
    ("DistinctFdConstraint as crate::state::constraint::Constraint>::run", "panic", "", "precondition", 2, "distinctfd operands must be a list of variables and numbers (\"Cannot constrain\" / \"Invalid constant\")"),
    ("DistinctFd2Constraint as crate::state::constraint::Constraint>::run", "panic", "", "precondition", 2, "distinctfd operands must walk to variables or numbers"),
    ("State::verify_all_bound", "panic", "", "precondition", 1, "every FD operand must be given a domain before labeling (documented)"),
    ("LTerm::var", "panic", "Invalid variable name", "precondition", 1, "the name \"_\" is reserved"),
    ("LTerm::improper_from_vec", "panic", "Improper list", "precondition", 1, "an improper list needs at least one element"),
    ("LTerm::improper_from_array", "panic", "Improper list", "precondition", 1, "as above"),
    ("LTerm::improper_from_vec", "unwrap", "", "guarded-by-table", 1, "pop() after the is_empty() test above it"),
    ("LTerm::improper_from_array", "unwrap", "", "guarded-by-table", 1, "as above"),
    ("FiniteDomain as std::convert::From<std::vec::Vec<isize>>>::from", "panic", "empty finite domain", "precondition", 1, "infd with an empty value list is ill-formed"),
    ("LTerm as std::iter::Extend<crate::lterm::LTerm>>::extend", "panic", "Only list type", "precondition", 1, "extend() is only defined on lists"),
    ("LTerm as std::iter::Extend<crate::lterm::LTerm>>::extend", "unwrap", "", "invariant", 1, "tail_mut() of a term just checked to be a non-empty list"),
    ("LTerm as std::iter::FromIterator<crate::lterm::LTerm>>::from_iter", "unwrap", "", "invariant", 1, "tail_mut() of the cons cell created in the previous iteration"),
    ("LTerm as std::ops::Index<usize>>::index", "unwrap", "", "precondition", 1, "index out of range, like slice indexing"),
    ("LTerm as std::ops::IndexMut<usize>>::index_mut", "unwrap", "", "precondition", 1, "as above"),
    ("LTerm::projection", "panic", "unreachable", "precondition", 1, "projection() is only applied (by the macro) to a fresh variable"),
    ("LTerm as std::hash::Hash>::hash", "panic", "Projection", "precondition", 1, "Projection terms exist only inside project bodies (see finding F4)"),
    ("LTerm as std::cmp::PartialEq>::eq", "panic", "Projection", "precondition", 2, "as above"),
    # ---- arithmetic on program integers: the property's \"intermediate integers within isize\"
    ("PlusFdConstraint as crate::state::constraint::Constraint>::run", "assert", "overflow:Add", "precondition", 1, "u + v of program integers"),
    ("MinusFdConstraint as crate::state::constraint::Constraint>::run", "assert", "overflow:Sub", "precondition", 1, "u - v of program integers"),
    ("TimesFdConstraint as crate::state::constraint::Constraint>::run", "assert", "overflow:Mul", "precondition", 1, "u * v of program integers"),
    ("PlusZConstraint as crate::state::constraint::Constraint>::run", "assert", "overflow", "precondition", 4, "u + v, w - u, w - v of program integers"),
    ("TimesZConstraint as crate::state::constraint::Constraint>::run", "assert", "overflow:Mul", "precondition", 2, "u * v of program integers"),
    # ---- invariants decided elsewhere
    ("FiniteDomain::min", "unwrap", "", "invariant", 1, "a Sparse domain is never empty (C18: None-iff-empty, From<Vec> rejects empty)"),
    ("FiniteDomain::max", "unwrap", "", "invariant", 1, "as above"),
    ("map_sum::map_sum", "panic", "unreachable", "invariant", 1, "labeling iterates a stored domain: never empty (C18 None-iff-empty; process_domain rejects empty domains)"),
    ("State::update_var_domain", "panic", "assertion failed: x.is_var()", "invariant", 1, "only called from process_domain's Var arm"),
    ("State::resolve_storable_domain", "panic", "assertion failed: x.is_var()", "invariant", 1, "only called from update_var_domain"),
    ("State::exclude_from_domain", "panic", "assertion failed: x.is_list()", "invariant", 1, "only called by DistinctFd2Constraint::run with the list it builds"),
    ("DisequalityConstraint::walk_star", "panic", "assertion failed: kwalk.is_var()", "invariant", 1, "keys of a disequality extension are variables; reification maps free variables to `_` variables"),
    # ---- std APIs that panic on a bad position
    ("DistinctFd2Constraint as crate::state::constraint::Constraint>::run", "stdpanic", "insert", "invariant", 1, "Vec::insert at the position binary_search just returned in its Err (0 <= pos <= len)"),
    ("Conda::from_conjunctions", "stdpanic", "split_off", "invariant", 1, "split_off(1) inside `if !clause.is_empty()` (len >= 1)"),
    ("Condu::from_conjunctions", "stdpanic", "split_off", "invariant", 1, "as above"),
    # ---- the recorded finding
    ("LTerm::project", "panic", "Cannot project non-Projection", "reachable", 1, "F4: the projection is overwritten in place; a second state reaching the goal panics"),
]

# std functions that panic on an out-of-range position, a zero size, a double borrow or an overflow
STD_PANICS = {
    "split_at", "split_at_mut", "remove", "swap_remove", "insert", "drain", "split_off", "copy_from_slice", "clone_from_slice", "chunks", "chunks_exact",
    "rchunks", "windows", "step_by", "swap", "rotate_left", "rotate_right", "borrow", "borrow_mut", "copy_within", "repeat", "abs", "pow", "rem_euclid",
    "div_euclid", "split_first_chunk", "truncate_front", "extend_from_within", "splice", "replace_range", "insert_str", "with_capacity",
}

# mechanically guarded idioms: (callee of the panic-capable call, inner call, guard call that must hold on the same receiver)
GUARD_PAIRS = [("unwrap", "get_number", "is_number"), ("unwrap", "as_term", "is_term")]


def is_panic_call(c):
    return any(c.startswith(p) for p in PANIC_PREFIX)


def is_unwrap_call(c):
    last = c.split("::")[-1]
    return last in UNWRAPS and ("Option" in c or "Result" in c)


def sites_of(fn):
    out = []
    for b in fn["mir"]["blocks"]:
        if b["cleanup"]:
            continue
        t = b["term"]
        if t["k"] == "call":
            c = norm(t.get("callee") or "")
            if is_panic_call(c):
                msg = ""
                for a in t["args"]:
                    if "const" in a and '"' in a["const"]:
                        msg = a["const"]
                if "unreachable" in msg:
                    msg = "unreachable"
                out.append(("panic", msg, t["sp"]))
            elif is_unwrap_call(c):
                out.append(("unwrap", c.split("::")[-1], t["sp"]))
            elif c.startswith("std::ops::") and c.split("::")[-1] in ("add", "sub", "mul", "div", "rem", "neg") and _int_operand(t):
                # arithmetic on integer references goes through the std operator impls (same panics)
                op = c.split("::")[-2]
                out.append(("assert", "overflow:%s" % op, t["sp"]))
                if op in ("Div", "Rem"):
                    out.append(("assert", "divzero" if op == "Div" else "remzero", t["sp"]))
            elif c in ("std::ops::Index::index", "std::ops::IndexMut::index_mut") and _vec_operand(t):
                out.append(("index", "bounds", t["sp"]))
            elif c.split("::")[-1] in STD_PANICS and any(x in c for x in ("slice", "vec::Vec", "VecDeque", "string::String", "RefCell", "core::num", "core::str", "std::str")):
                # std APIs that panic on a bad position / size / borrow (their panic is inside std, not a site of ours)
                if c.split("::")[-1] == "drain" and "RangeFull" in str(t.get("gargs")) + str(t.get("callee_full")):
                    pass  # drain(..) over the full range cannot panic
                else:
                    out.append(("stdpanic", c.split("::")[-1], t["sp"]))
        elif t["k"] == "assert" and t["kind"] not in ("misaligned", "nullptr"):
            out.append(("assert", t["kind"], t["sp"]))
    return out


INTS = ("isize", "usize", "i8", "i16", "i32", "i64", "i128", "u8", "u16", "u32", "u64", "u128")


def _int_operand(t):
    ga = t.get("gargs") or []
    if not ga:
        return False
    g = ga[0]
    while isinstance(g, dict) and "ref" in g:
        g = g["ref"]
    return isinstance(g, dict) and g.get("prim") in INTS


def _vec_operand(t):
    ga = t.get("gargs") or []
    if not ga:
        return False
    g = ga[0]
    while isinstance(g, dict) and "ref" in g:
        g = g["ref"]
    return isinstance(g, dict) and (norm(g.get("adt", "")) in ("std::vec::Vec", "alloc::vec::Vec") or "slice" in g or "array" in g)


def call_graph(lib):
    trait_methods = {}
    for tp, tr in lib.traits.items():
        for it in tr["items"]:
            trait_methods[norm(it["path"])] = (tp, it["name"])
    impls_by = {}
    for im in lib.impls:
        tp = norm(im.get("trait"))
        if not tp:
            continue
        for it in im["items"]:
            impls_by.setdefault((tp, it["name"]), []).append(norm(it["path"]))
    bodies = dict(lib.fns)
    bodies.update(lib.closures)
    edges = {}
    for p, fn in bodies.items():
        if "mir" not in fn:
            continue
        e = set()
        for b in fn["mir"]["blocks"]:
            t = b["term"]
            if t["k"] != "call":
                continue
            r = norm(t.get("resolved")) if t.get("resolved") else None
            c = norm(t.get("callee") or "")
            if r:
                e.add(r)
            if c in trait_methods and (not r or t.get("virtual")):
                e.add(c)
                for x in impls_by.get(trait_methods[c], []):
                    e.add(x)
            elif c:
                e.add(c)
        # closures defined inside are assumed callable
        for cp in lib.closures:
            if cp.startswith(p + "::{closure"):
                e.add(cp)
        edges[p] = e
    return edges, bodies


def roots(lib):
    r = set()
    for im in lib.impls:
        tp = norm(im.get("trait")) or ""
        for it in im["items"]:
            if (tp.endswith("solver::Solve") and it["name"] == "solve") or (tp.endswith("constraint::Constraint") and it["name"] == "run") or (tp.endswith("engine::Engine") and it["name"] == "step") or (tp.endswith("stream::StreamIterator") and it["name"] == "next"):
                r.add(norm(it["path"]))
    for p, fn in lib.fns.items():
        if fn.get("in_test_mod"):
            continue
        if p.startswith("crate::solver::Solver::") or p.startswith("crate::query::") or p == "<crate::query::ResultIterator as std::iter::Iterator>::next":
            r.add(p)
        if (p.startswith("crate::relation::") or p.startswith("crate::operator::")) and fn.get("vis", "").startswith("Public") and "impl" not in fn:
            r.add(p)
    return r


def guarded_sites(lib, fn):
    """spans (file:line) of unwrap sites that are mechanically guarded in this function."""
    if "hir" not in fn:
        return {}
    t = sym.Evaluator(lib, inline=lambda p, f: False, named_lets=False).fn_term(fn)
    res = {"guarded": 0, "unguarded": []}
    for s, lits in tables.occurrences_with_guards(t):
        if s[0] != "call":
            continue
        last = s[1].split("::")[-1]
        for outer, inner, guard in GUARD_PAIRS:
            if last == outer and s[2] and s[2][0][0] == "call" and s[2][0][1].split("::")[-1] == inner:
                recv = s[2][0][2][0]
                ok = any(pol and l[0] == "call" and l[1].split("::")[-1] == guard and l[2] and l[2][0] == recv for l, pol in lits)
                if ok:
                    res["guarded"] += 1
                else:
                    res["unguarded"].append((show(s, maxdepth=3), [(show(l[0], maxdepth=3)[:60], p_) for l, p_ in lits][:4]))
        # min()/max() of a non-empty array literal is never None
        if last == "unwrap" and s[2] and s[2][0][0] == "call" and s[2][0][1].split("::")[-1] in ("min", "max") and s[2][0][2]:
            src, chain = streams.iter_chain(s[2][0][2][0])
            while src[0] == "letv":
                src = src[3]
            if src[0] == "array" and len(src[1]) >= 1 and all(n in streams.ONE_TO_ONE for n, _ in chain):
                res["guarded"] += 1
            else:
                res["unguarded"].append((show(s, maxdepth=3), []))
        # pop().unwrap() under !is_empty()
        if last == "unwrap" and s[2] and s[2][0][0] == "call" and s[2][0][1].split("::")[-1] == "pop":
            recv = s[2][0][2][0]
            ok = any((not pol) and l[0] == "call" and l[1].split("::")[-1] == "is_empty" and l[2] and l[2][0] == recv for l, pol in lits)
            if ok:
                res["guarded"] += 1
            else:
                res["unguarded"].append((show(s, maxdepth=3), []))
    return res


def check_constructor_asserts(ctx, lib, rule):
    """The "precondition" class of the inventory is only honest if the asserted condition is the documented one
    - satisfiable by every well-formed operand.  Every `assert!` of a constraint constructor is
    `x.is_var() || x.is_number()` (arithmetic / order / disequality operands) or `x.is_list()` (distinctfd),
    over a parameter, one per term parameter: `&&` for `||` makes the assert unsatisfiable and every use of the
    relation a panic."""
    ev = sym.Evaluator(lib, inline=lambda p, f: False)
    n = 0
    for p, fn in sorted(lib.fns.items()):
        if not p.endswith("Constraint::new") or "hir" not in fn or fn.get("in_test_mod") or not ("::clpfd::" in p or "::clpz::" in p):
            continue
        n += 1
        ctx.fn_seen(p)
        t = ev.fn_term(fn)
        conds = [s[1] for s in sym.subterms(t) if s[0] == "if" and any(isinstance(c[1], str) and "panic" in c[1] for c in sym.calls(s[2]))]
        conds = list(dict.fromkeys(conds))
        params = [i for i, ty in enumerate(fn.get("inputs") or []) if "lterm::LTerm" in ty]
        seen = []
        ok = True
        why = ""
        for c in conds:
            good = False
            if c[0] == "unop" and c[1] == "Not":
                x = c[2]
                if x[0] == "binop" and x[1] == "Or":
                    a, b = x[2], x[3]
                    names = {a[1].split("::")[-1], b[1].split("::")[-1]} if a[0] == "call" and b[0] == "call" else set()
                    good = names == {"is_var", "is_number"} and a[2] == b[2] and a[2][0][0] == "param"
                    if good:
                        seen.append(a[2][0][1])
                elif x[0] == "call" and x[1].split("::")[-1] == "is_list" and x[2][0][0] == "param":
                    good = True
                    seen.append(x[2][0][1])
            if not good:
                ok = False
                why = "unrecognised assert condition %s" % show(c, maxdepth=5)[:120]
        if ok and sorted(seen) != params:
            ok = False
            why = "asserts cover parameters %s, term parameters are %s" % (sorted(seen), params)
        ctx.expect(ok, rule, "%s|operand-kind-asserts" % p, site_of(fn), "each term operand of a constraint constructor is asserted once to be a variable-or-number (or a list): %s" % (why or "ok"))
    ctx.floor(rule, n, 7, "constraint constructors with operand asserts")


def run(ctx, fb, cfg):
    lib = fb.lib
    # the "precondition" panic of verify_all_bound is dead on well-formed programs only if the
    # domain store is consulted under the walked representative (rule shared with C16)
    if any(p.startswith("crate::relation::clpfd") for p in lib.fns):
        import fdrules

        fdrules.check_dstore_keys(ctx, lib, "C23.K3.domain-store-keys")
        fdrules.check_registry(ctx, lib, "C23.K11.registry")
        fdrules.check_operands(ctx, lib, "C23.K10.operands-complete")
        check_constructor_asserts(ctx, lib, "C23.K2.precondition-asserts")
    # the inventory classifies the "Projection" panics of LTerm::hash / eq as preconditions (such terms exist only
    # inside project bodies): that holds only if Project::solve replaces *every* projection, unconditionally,
    # before the body runs (table shared with C11)
    import C11

    C11.check_what_is_projected(ctx, lib, "C23.K3.what-is-projected")
    R = "C23.K8.panic-inventory"
    edges, bodies = call_graph(lib)
    rs = roots(lib)
    ctx.floor(R, len(rs), 60, "solving entry points (roots)")
    reach = set()
    work = list(rs)
    while work:
        p = work.pop()
        if p in reach:
            continue
        reach.add(p)
        for q in edges.get(p, ()):
            if q in bodies and q not in reach:
                work.append(q)
    ctx.count("functions_reachable", len(reach))
    anygoal_impls = len([im for im in lib.impls if (norm(im.get("trait")) or "").endswith("goal::AnyGoal")])
    total = 0
    unreachable_sites = 0
    used = {}
    for p in sorted(bodies):
        fn = bodies[p]
        if "mir" not in fn or fn.get("in_test_mod"):
            continue
        sites = sites_of(fn)
        if not sites:
            continue
        if p not in reach:
            unreachable_sites += len(sites)
            continue
        ctx.fn_seen(p)
        # a private helper all of whose call sites are in one function is inventoried as part of that function
        # (extract-function refactorings move a site, they do not add one)
        owner = p
        helpers = sym.helper_fns(lib)
        hops = 0
        while owner.split("::{closure")[0] in helpers and hops < 4:
            owner = helpers[owner.split("::{closure")[0]]
            hops += 1
        g = guarded_sites(lib, lib.fns.get(p.split("::{closure")[0], fn)) if True else {}
        n_unwrap_guarded = g.get("guarded", 0) if g else 0
        n_unwrap_sites = len([s for s in sites if s[0] == "unwrap"])
        # group sites
        groups = {}
        for kind, detail, sp in sites:
            groups.setdefault((kind, detail), []).append(sp)
        for (kind, detail), sps in sorted(groups.items()):
            total += len(sps)
            in_table = any(k_ == kind and (p.endswith(fs_) or fs_ in p) and d_ in detail for fs_, k_, d_, _c, _m, _r in TABLE)
            key = "%s|%s|%s" % (p if in_table or owner == p else owner, kind, detail.strip('"')[:50])
            site = site_of(sps[0])
            if "/rustlib/" in site:
                site = site_of(fn)
            # 1. mechanical guards
            if kind == "unwrap" and g and not g.get("unguarded") and n_unwrap_guarded >= n_unwrap_sites:
                ctx.ok(R, key, site, "guarded: every unwrap() here is evaluated under its paired test (%d site(s))" % len(sps))
                continue
            if kind == "panic" and detail == "unreachable" and _unreachable_after_downcasts(lib, fn, anygoal_impls):
                ctx.ok(R, key, site, "guarded: unreachable!() after one downcast per AnyGoal implementation (%d impls)" % anygoal_impls)
                continue
            if kind == "assert" and detail in ("divzero", "remzero") and _division_guarded(lib, fn):
                ctx.ok(R, key, site, "guarded: every division / remainder is evaluated under divisor != 0")
                continue
            if kind == "assert" and detail in ("overflow:Div", "overflow:Rem") and ("relation::clpz" in p or "relation::clpfd" in p) and _division_guarded(lib, fn):
                ctx.ok(R, key, site, "precondition: isize::MIN / -1 is outside isize (intermediate integers within isize)")
                continue
            if kind == "index" and _index_zero_guarded(lib, fn, len(sps)):
                ctx.ok(R, key, site, "guarded: element 0 is read only under len() > 0 of the same vector")
                continue
            if kind == "assert" and detail == "overflow:Sub" and _len_minus_one_guarded(lib, fn):
                ctx.ok(R, key, site, "guarded: len() - 1 under len() > 1")
                continue
            # 2. table
            hit = None
            for who in (p, owner):
                for i, (fs, k, d, cls, mx, reason) in enumerate(TABLE):
                    if k == kind and (who.endswith(fs) or fs in who) and d in detail:
                        hit = i
                        break
                if hit is not None:
                    break
            if hit is None:
                ctx.violation(R, key, site, "panic-capable site (%s %s) reachable from goal solving is neither provably guarded nor a documented precondition: a well-formed program may panic here" % (kind, detail))
                continue
            fs, k, d, cls, mx, reason = TABLE[hit]
            used[hit] = used.get(hit, 0)
            if len(sps) > mx:
                ctx.violation(R, key + "|count", site, "%d sites of this kind in the function, the table allows %d: a new panic-capable site was added" % (len(sps), mx))
                continue
            if cls == "reachable":
                ctx.violation(R, key, site, "reachable panic: %s" % reason)
            else:
                ctx.ok(R, key, site, "%s: %s" % (cls, reason))
    ctx.count("panic_sites_classified", total)
    ctx.count("panic_sites_in_unreachable_functions", unreachable_sites)
    ctx.floor(R, total, 60, "panic-capable sites in reachable code")
    # invariant-class callers
    _check_callers(ctx, lib, R)


def _unreachable_after_downcasts(lib, fn, n_impls):
    base = lib.fns.get(fn["npath"].split("::{closure")[0], fn)
    if "hir" not in base:
        return False
    t = sym.Evaluator(lib).fn_term(base)
    cur = tables.result(t)
    n = 0
    while isinstance(cur, tuple) and cur and cur[0] == "if" and cur[1][0] == "iflet" and cur[1][2][0] == "call" and "downcast_ref" in cur[1][2][1]:
        n += 1
        if cur[3] is None:
            return False
        cur = tables.result(cur[3])
    is_panic = any(s[0] == "call" and "panic" in s[1] for s in sym.subterms(cur))
    return n >= n_impls and n_impls >= 2 and is_panic


def _len_minus_one_guarded(lib, fn):
    base = lib.fns.get(fn["npath"].split("::{closure")[0], fn)
    if "hir" not in base:
        return False
    t = sym.Evaluator(lib).fn_term(base)
    found = 0
    for s, lits in tables.occurrences_with_guards(t):
        if s[0] == "binop" and s[1] == "Sub" and s[2][0] == "call" and s[2][1].split("::")[-1] == "len" and "Pu128(1)" in str(s[3]):
            ok = any(pol and l[0] == "binop" and l[1] == "Gt" and l[2] == s[2] and "Pu128(1)" in str(l[3]) for l, pol in lits) or any(pol and l[0] == "binop" and l[1] in ("Ge",) and l[2] == s[2] and "Pu128(1)" in str(l[3]) for l, pol in lits)
            if not ok:
                return False
            found += 1
    return found > 0


def _division_guarded(lib, fn):
    base = lib.fns.get(fn["npath"].split("::{closure")[0], fn)
    if "hir" not in base:
        return False
    t = sym.Evaluator(lib).fn_term(base)
    found = 0
    for s, lits in tables.occurrences_with_guards(t):
        if s[0] == "binop" and s[1] in ("Div", "Rem"):
            d = s[3]
            ok = False
            for l, pol in lits:
                if l[0] == "binop" and l[1] in ("Eq", "Ne") and ((l[2] == d and "Pu128(0)" in str(l[3])) or (l[3] == d and "Pu128(0)" in str(l[2]))):
                    if (l[1] == "Eq") != pol:
                        ok = True
                if l[0] == "binop" and l[1] == "Gt" and l[2] == d and "Pu128(0)" in str(l[3]) and pol:
                    ok = True
            if not ok:
                return False
            found += 1
    return found > 0


def _same_vec(a, b):
    """self.conjunctions vs downcast(self).conjunctions denote the same vector."""
    def strip(x):
        if x[0] == "field":
            base = x[1]
            while base[0] == "proj" and base[1][0] == "call" and "downcast_ref" in base[1][1]:
                base = base[1][2][0]
            return ("field", base, x[2])
        return x

    return strip(a) == strip(b)


def _index_zero_guarded(lib, fn, nsites):
    base = lib.fns.get(fn["npath"].split("::{closure")[0], fn)
    if "hir" not in base:
        return False
    t = sym.Evaluator(lib).fn_term(base)
    found = 0
    seen = set()
    for s, lits in tables.occurrences_with_guards(t):
        if s[0] == "index" and id(s) not in seen:
            if "Pu128(0)" not in str(s[2]):
                return False
            ok = any(pol and l[0] == "binop" and l[1] == "Gt" and l[2][0] == "call" and l[2][1].split("::")[-1] == "len" and _same_vec(l[2][2][0], s[1]) and "Pu128(0)" in str(l[3]) for l, pol in lits)
            if not ok:
                return False
            found += 1
    return found > 0


def _check_empty_domain(ctx, lib, R):
    """Supports the `map_sum` invariant: process_domain rejects empty domains before anything else."""
    fn = lib.fns.get("crate::state::State::process_domain")
    if not fn:
        return
    t = sym.Evaluator(lib).fn_term(fn)
    eff, m = tables.flatten(t)
    good = False
    if m and m[0] == "match":
        p, g, b = m[2][0]
        good = g is not None and g[0] == "call" and g[1].split("::")[-1] == "is_empty" and unify(pat("@2"), g[2][0]) is not None and unify(pat("Err(_)"), tables.result(b)) is not None and "*" in tables.pat_ctors(p)
    ctx.expect(good, R, "invariant|process_domain-rejects-empty-domain", site_of(fn), "the unreachable!() of map_sum is dead only if no empty domain is ever stored: process_domain must fail first when domain.is_empty()")


def _check_callers(ctx, lib, R):
    _check_empty_domain(ctx, lib, R)
    for callee, allowed in (
        ("State::update_var_domain", {"crate::state::State::process_domain"}),
        ("State::resolve_storable_domain", {"crate::state::State::update_var_domain"}),
        ("State::exclude_from_domain", {"<crate::relation::clpfd::distinctfd::DistinctFd2Constraint as crate::state::constraint::Constraint>::run"}),
    ):
        callers = set(hirwalk.callers_of(lib, callee))
        ctx.expect(callers <= allowed and callers, R, "callers|%s" % callee, "", "the invariant that makes the assert in %s dead relies on its callers being %s; found %s" % (callee, sorted(allowed), sorted(callers)))
