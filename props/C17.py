"""C17 - CLP(FD) labeling returns every solution exactly once.

Decided (structural):
 * labeling reaches every FD variable of the query term: force_ans has arms for a variable with a
   domain (-> one branch per value), list cells (head and tail) and compound terms (every field);
 * hidden variables: after the query term, all keys of the domain store are labelled inside onceo;
 * one branch per value: the values are xdomain.iter() through bijective adaptors only (rev), and
   map_sum makes exactly one branch per item (C06);
 * propagation removes no solution: the narrowing intervals of plusfd / minusfd are the sound outer
   bounds, timesfd bounds w by the four corner products and narrows an operand by quotients only
   when no operand can be negative and the divisor cannot be zero;
 * domains hold no duplicate values (representation invariant, decided under C18).
 (round 5, shared) exact set algebra (C18 tables); order propagator cut-offs; Conj builders incl. from_iter
   (compound fields are labelled by the conjunction it builds); no FiniteDomain variant built outside fd.rs.
"""
import fdrules
import streams
import sym
import tables
import traversal
from pat import pat
from report import site_of
from sym import ANY, AnyOf, P, show, suffix_match, unify

NEEDS = {"clpfd"}
EXPLANATION = (
    "Static rules for labeling completeness on typed-HIR symbolic terms: traversal coverage of force_ans (variable-with-domain, list, compound), "
    "hidden-variable labeling inside onceo, bijective value enumeration, and interval-arithmetic tables proving that the narrowing bounds of the three arithmetic propagators are sound outer bounds (sign-aware for multiplication)."
)
NOT_DECIDED = "completeness of labeling + propagation for all programs (semantic); absence of duplicate domain values is decided under C18"
TECHNIQUE = "static analysis: variant-coverage + interval-arithmetic tables over typed HIR via rustc_private driver"


def check_force_ans(ctx, lib, rule):
    fn = streams.getfn(ctx, lib, rule, "crate::state::reification::force_ans")
    if not fn:
        return
    t = sym.Evaluator(lib, extra_identity=streams.GOAL_CAST).fn_term(fn)
    key = fn["npath"]
    site = site_of(fn)
    ms = [s for s in sym.subterms(t) if s[0] == "match" and s[1][0] == "tuple" and len(s[1][1]) == 2]
    if not ms:
        ctx.violation(rule, key + "|shape", site, "force_ans must match on (walked term, its domain)")
        return
    m = ms[0]
    xw, dom = m[1][1]
    ctx.expect(unify(pat("walk(arg1.smap, @0)"), xw) is not None, rule, key + "|walks", site, "force_ans must look at walk(state.smap, x)")
    ctx.expect(unify(("call", P("get"), (pat("arg1.dstore"), xw)), dom) is not None, rule, key + "|domain-of-walked", site, "the domain must be looked up for the walked variable")
    arms = [(p, g, b) for p, g, b in m[2] if p[0] == "ptuple" and p[1][0][0] == "pctor" and p[1][0][1].endswith("LTermInner::Var") and p[1][1][0] == "pctor" and p[1][1][1].endswith("Some")]
    if len(arms) != 1:
        ctx.violation(rule, key + "|var-arm", site, "expected one arm for (Var, Some(domain))")
        return
    r = tables.result(arms[0][2])
    good = r[0] == "call" and suffix_match(r[1], "map_sum") and len(r[2]) == 4
    if good:
        solver, state, f, it = r[2]
        src, chain = streams.iter_chain(it)
        names = [n for n, _ in chain]
        good = unify(("proj", dom, ANY, 0), src) is not None and all(n in ("iter", "into_iter", "rev", "copied", "cloned") for n in names) and unify(pat("arg1"), state) is not None
        if good:
            body = tables.result(f[3]) if f[0] == "closure" else None
            eqs = [s for s in sym.subterms(body) if s[0] == "struct" and s[1].endswith("eq::Eq")] if body else []
            good = len(eqs) == 1
            if good:
                d = dict(eqs[0][2])
                vals = [d.get("u"), d.get("v")]
                has_x = any(v == xw for v in vals)
                has_d = any(v is not None and any(s[0] == "cparam" for s in sym.subterms(v)) for v in vals)
                good = has_x and has_d
    ctx.expect(good, rule, key + "|one-branch-per-value", site, "a variable with a domain must be labelled by map_sum over *all* values of that domain (iter through rev only), each branch unifying the value with the variable; found %s" % show(r, maxdepth=6)[:240])


def check_hidden(ctx, lib, rule):
    fn = streams.getfn(ctx, lib, rule, "crate::state::reification::enforce_constraints_fd")
    if not fn:
        return
    t = sym.Evaluator(lib, extra_identity=streams.GOAL_CAST).fn_term(fn)
    key = fn["npath"]
    site = site_of(fn)
    arr = [s for s in sym.subterms(t) if s[0] in ("array", "tuple") and len(s[1]) >= 2 and any(True for _ in sym.calls(s, "force_ans"))]
    good = False
    msg = ""
    if arr:
        elems = arr[0][1]
        idx_q = [i for i, e in enumerate(elems) if unify(pat("force_ans(@0)"), tables.result(e)) is not None or (e[0] == "call" and suffix_match(e[1], "force_ans") and unify(pat("@0"), e[2][0]) is not None)]
        idx_h = [i for i, e in enumerate(elems) if any(True for _ in sym.calls(e, "keys"))]
        if idx_q and idx_h and idx_q[0] < idx_h[0]:
            h = elems[idx_h[0]]
            once = [c for c in sym.calls(h, "onceo")]
            keys = [c for c in sym.calls(h, "keys") if unify(pat("arg1.dstore"), c[2][0]) is not None]
            if once and keys:
                inner = [c for c in sym.calls(once[0], "force_ans")]
                if inner:
                    src, chain = streams.iter_chain(inner[0][2][0])
                    good = src == keys[0][2][0] or any(c is keys[0] or c == keys[0] for _, c in chain)
                    # adaptors that keep every key exactly once (a re-ordering keeps the set)
                    good = good and all(n in ("keys", "cloned", "copied", "collect", "iter", "into_iter", "to_vec", "rev") for n, _ in chain)
                    msg = show(inner[0], maxdepth=5)
            verify = [c for c in sym.calls(h, "verify_all_bound")]
            good = good and bool(verify)
    ctx.expect(good, rule, key + "|hidden-vars-once", site, "after the query term, *all* keys of the domain store must be labelled inside onceo (existence, not multiplicity), preceded by verify_all_bound; %s" % msg)


def run(ctx, fb, cfg):
    lib = fb.lib
    R = "C17."
    check_force_ans(ctx, lib, R + "K3.value-enumeration")
    n = traversal.run_table(ctx, lib, R + "K5.labeling-coverage", only=["force_ans"])
    ctx.floor(R + "K5.labeling-coverage", n, 1, "labeling traversal")
    check_hidden(ctx, lib, R + "K3.hidden-variables")
    for mod in ("plusfd", "minusfd", "timesfd"):
        fdrules.check_arith_propagator(ctx, lib, R + "K7c.sound-bounds", mod, what="bounds")
    # the order propagator prunes exactly the values that have no partner (u > max v, v < min u): `<=` for
    # `<` in a cut-off predicate drops the boundary answers (table shared with C16)
    fdrules.check_ltefd(ctx, lib, R + "K7.ltefd")
    # a value stored twice in a domain is labelled twice: the representation invariant of
    # FiniteDomain::Sparse (strictly increasing values) is shared with C18
    import C18

    C18.check_sparse_sites(ctx, lib, R + "K3.no-duplicate-values")
    # no value is lost by a narrowing: the set algebra the propagators call is exact in both representations
    C18.check_algebra_for_propagators(ctx, lib, R)
    # the fields of a compound answer term are labelled by the conjunction Conj::from_iter builds from them:
    # a field dropped by the builder is labelled only by the committed-choice pass (one value instead of all)
    import builders

    builders.check_all(ctx, lib, R + "K6.builders", only=("Conj",))
