"""C02 - Disequality constraints (CLP(Tree)) are sound, complete and order-free.

Decided (structural):
 a State::disunify is a *test*: unify_rec runs on a clone with a fresh extension; unify fails ->
   Ok(self) unchanged; succeeds with empty extension -> Err; otherwise
   Ok(self.with_constraint(DisequalityConstraint::new(extension))) - the returned state is the
   parameter `self`, never the unified state;
 b DisequalityConstraint::run has the same table on a scratch clone;
 c subsumes(self, other): self's pairs are unified in other's substitution, result is
   extension.is_empty(), Err -> false (this fixes the meaning "self implies other");
 d normalisation never weakens the store: a stored constraint s is discarded only when
   new.subsumes(s); the new constraint is left out only when some stored s.subsumes(new);
 e the `!=` goal is disunify -> unit stream / empty stream.
 f (round 4) both re-check loops (run, subsumes) thread the state *returned by unifying the
   previous pair* into the next pair (one conjunction of equations, not independent tests);
   the `implied` predicate of normalisation is false for a stored constraint of another kind
   (map_or(false, ..) / is_some_and / match .. None => false).
 (round 5) every unbound variable of the answer - the anonymous `_` included - enters the reifying map
   (fresh-any-per-var, with C03), so purify keeps the disequalities keyed on it.
"""
import streams
import sym
import tables
from pat import pat
from report import site_of
from sym import ANY, AnyOf, P, V, show, suffix_match, unify

EXPLANATION = (
    "Static tables for disunification on typed-HIR symbolic terms: disunify / DisequalityConstraint::run are tests on a clone whose result state is the original; "
    "direction of subsumes; path-literal table of ConstraintStore::push_and_normalize (what may be discarded under which subsumption literal); the != goal."
)
NOT_DECIDED = "that answers' ground instances equal the program's ground solutions for all programs and posting orders (semantic); re-run of the store after bindings is decided under C04"
TECHNIQUE = "static analysis: typed-HIR provenance and path-literal tables via rustc_private driver"

EV = lambda lib: sym.Evaluator(lib, named_lets=True, keep_clone=True)


def is_clone_of(t, what):
    return t[0] == "call" and "clone" in t[1].lower() and len(t[2]) == 1 and unify(what, t[2][0]) is not None


def unlet(t):
    while isinstance(t, tuple) and t and t[0] == "letv":
        t = t[3]
    return t


def fresh_smap(t):
    return unify(AnyOf(pat("SMap(new())"), pat("new()")), unlet(t)) is not None


def check_disunify(ctx, lib, rule):
    fn = streams.getfn(ctx, lib, rule, "crate::state::State::disunify")
    if not fn:
        return
    t = EV(lib).fn_term(fn)
    key = fn["npath"]
    site = site_of(fn)
    eff, m = tables.flatten(t)
    ok = m and m[0] == "match" and m[1][0] == "call" and suffix_match(m[1][1], "unify_rec") and len(m[1][2]) == 4
    ctx.expect(ok, rule, key + "|shape", site, "disunify must branch on the result of unify_rec")
    if not ok:
        return
    st, ext, u, v = m[1][2]
    ctx.expect(is_clone_of(st, pat("@0")), rule, key + "|on-clone", site, "unification must run on a clone of the state (a test, not an update); it runs on %s" % show(st, maxdepth=3))
    ctx.expect(ext[0] == "letv" and fresh_smap(ext), rule, key + "|fresh-extension", site, "the extension must be a fresh SMap")
    ctx.expect({u[0:2], v[0:2]} == {("param", 1), ("param", 2)}, rule, key + "|operands", site, "the two operands of != must be unified")
    bad = [e for e in eff if not tables.harmless_effect(e)]
    ctx.expect(not bad, rule, key + "|no-other-effects", site, "unexpected statements")

    def ok_arm(body, b):
        r = tables.result(body)
        if r[0] != "if" or r[3] is None:
            return (None, "Ok arm must test extension.is_empty()")
        cond = r[1]
        neg = False
        if cond[0] == "unop" and cond[1] == "Not":
            cond, neg = cond[2], True
        isempty = cond[0] == "call" and suffix_match(cond[1], "is_empty") and _same_ext(cond[2][0], ext)
        if not isempty:
            return (None, "condition must be extension.is_empty(): %s" % show(r[1], maxdepth=4))
        e_branch, ne_branch = (r[3], r[2]) if neg else (r[2], r[3])
        if unify(pat("Err(_)"), tables.result(e_branch)) is None:
            return (None, "terms already equal (empty extension): the disequality must fail")
        rr = tables.result(ne_branch)
        want = ("ctor", P("Ok"), (("call", P("with_constraint"), (pat("@0"), V("c"))),))
        bb = unify(want, rr, b)
        if bb is None:
            return (None, "non-empty extension: must return Ok(self.with_constraint(..)) on the *original* state; found %s" % show(rr, maxdepth=5)[:200])
        c = unlet(bb["c"])
        cons_ok = (c[0] == "ctor" and c[1].endswith("DisequalityConstraint") and _same_ext(c[2][0], ext)) or (c[0] == "call" and suffix_match(c[1], "DisequalityConstraint::new") and _same_ext(c[2][0], ext))
        return (bb if cons_ok else None, "the constraint must hold exactly the extension of this unification")

    tables.check_match_table(ctx, rule, key, site, t, m[1], {"Ok": ok_arm, "Err": "Ok(@0)"})


def _same_ext(t, ext):
    # extension or extension.0 / deref
    while isinstance(t, tuple) and t and t[0] == "field" and t[2] == "0":
        t = t[1]
    return t == ext


def check_run(ctx, lib, rule):
    fn = streams.getfn(ctx, lib, rule, "<crate::relation::diseq::DisequalityConstraint as crate::state::constraint::Constraint>::run")
    if not fn:
        return
    t = EV(lib).fn_term(fn)
    key = fn["npath"]
    site = site_of(fn)
    eff, res = tables.flatten(t)
    fors = [e for e in eff if e[0] == "for"]
    lets = [e for e in eff if e[0] == "let"]
    if len(fors) != 1:
        ctx.violation(rule, key + "|shape", site, "expected one loop over the constraint's pairs")
        return
    f = fors[0]
    src, chain = streams.iter_chain(f[1])
    ctx.expect(unify(AnyOf(pat("@0.0"), pat("@0.0.0")), src) is not None and all(n in streams.ONE_TO_ONE for n, _ in chain), rule, key + "|all-pairs", site, "every pair of the constraint must be tested: %s" % show(f[1], maxdepth=4))
    calls = [c for c in sym.calls(f[3], "unify_rec") if len(c[2]) == 4]
    uniq = []
    for c in calls:
        if c not in uniq:
            uniq.append(c)
    ok = len(uniq) == 1
    if ok:
        c = uniq[0]
        st, ext, u, v = c[2]
        # scratch state: a `var` whose initial value is a clone of the parameter
        init = [l for l in lets if l[1][0] == "pbind" and st[0] == "var" and l[1][1] == st[1]]
        ok = st[0] == "var" and bool(init) and is_clone_of(init[0][2], pat("@1"))
        ctx.expect(ok, rule, key + "|on-clone", site, "pairs must be unified on a scratch clone of the state; state operand is %s" % show(st, maxdepth=3))
        ctx.expect(ext[0] == "letv" and fresh_smap(ext), rule, key + "|fresh-extension", site, "fresh extension expected")
        item = ("item", f[1])
        ctx.expect({u, v} == {("proj", item, "tuple", 0), ("proj", item, "tuple", 1)}, rule, key + "|pair", site, "each iteration must unify the two sides of the pair")
        # failing pair -> constraint entailed: return Ok(original state)
        mm = [s for s in sym.subterms(f[3]) if s[0] == "match" and s[1] == c]
        good = False
        if mm:
            errarm = tables.find_arm(mm[0], "Err")
            okarm = tables.find_arm(mm[0], "Ok")
            if len(errarm) == 1 and len(okarm) == 1:
                es = [e for e in tables.stmts_of(errarm[0][2]) if not tables.harmless_effect(e)]
                os_ = [e for e in tables.stmts_of(okarm[0][2]) if not tables.harmless_effect(e)]
                good = len(es) == 1 and es[0][0] == "ret" and unify(pat("Ok(@1)"), es[0][1]) is not None and len(os_) == 1 and os_[0][0] == "assign" and os_[0][1] == st
                if good:
                    # ... and what is threaded on is the state this very unification returned (bindings of earlier pairs must be
                    # visible to later ones: `[x, y] != [a, a]` is one conjunction of equations, not independent tests)
                    val = os_[0][2]
                    good = val[0] == "proj" and val[1] == c and val[2].endswith("Ok") and val[3] == 0
                    ctx.expect(good, rule, key + "|threads-unified-state", site, "the scratch state for the next pair must be the state returned by unifying this pair; found %s" % show(val, maxdepth=4)[:120])
                    good = True
        ctx.expect(good, rule, key + "|entailed", site, "a pair that no longer unifies entails the constraint: return Ok(state) with the original state (and otherwise thread the scratch state)")
        r = res
        good2 = False
        if r[0] == "if" and r[3] is not None:
            cond = r[1]
            neg = cond[0] == "unop" and cond[1] == "Not"
            if neg:
                cond = cond[2]
            if cond[0] == "call" and suffix_match(cond[1], "is_empty") and _same_ext(cond[2][0], ext):
                eb, nb = (r[3], r[2]) if neg else (r[2], r[3])
                rr = tables.result(nb)
                bb = unify(("ctor", P("Ok"), (("call", P("with_constraint"), (pat("@1"), V("c"))),)), rr)
                if unify(pat("Err(_)"), tables.result(eb)) is not None and bb is not None:
                    cc = unlet(bb["c"])
                    good2 = (cc[0] in ("ctor", "call") and ("DisequalityConstraint" in cc[1]) and _same_ext(cc[2][0], ext)) or unify(pat("@0"), cc) is not None
        ctx.expect(good2, rule, key + "|verdict", site, "after all pairs unify: empty extension -> Err (violated); otherwise Ok(original state with a constraint holding the extension, or the constraint itself); found %s" % show(r, maxdepth=6)[:260])
    else:
        ctx.violation(rule, key + "|unify", site, "expected one unify_rec call in the loop")


def check_subsumes(ctx, lib, rule):
    fn = streams.getfn(ctx, lib, rule, "crate::relation::diseq::DisequalityConstraint::subsumes")
    if not fn:
        return
    t = EV(lib).fn_term(fn)
    key = fn["npath"]
    site = site_of(fn)
    eff, m = tables.flatten(t)
    ok = m and m[0] == "match" and m[1][0] == "call" and "downcast_ref" in m[1][1] and unify(pat("@1"), m[1][2][0]) is not None
    ctx.expect(ok, rule, key + "|downcast", site, "subsumes must downcast `other` to a disequality constraint")
    if not ok:
        return
    other = ("proj", m[1], ANY, 0)
    some = tables.find_arm(m, "Some")
    none = tables.find_arm(m, "None")
    ctx.expect(len(none) == 1 and "false" in str(tables.result(none[0][2])), rule, key + "|other-kind", site, "a constraint of another kind is never subsumed")
    if len(some) != 1:
        ctx.violation(rule, key + "|some", site, "Some arm expected")
        return
    body = some[0][2]
    eff2, res = tables.flatten(body)
    fors = [e for e in eff2 if e[0] == "for"]
    lets = [e for e in eff2 if e[0] == "let"]
    if len(fors) != 1:
        ctx.violation(rule, key + "|loop", site, "expected a loop over self's pairs")
        return
    f = fors[0]
    src, chain = streams.iter_chain(f[1])
    ctx.expect(unify(AnyOf(pat("@0.0"), pat("@0.0.0")), src) is not None and all(n in streams.ONE_TO_ONE for n, _ in chain), rule, key + "|receiver-pairs", site, "the *receiver's* pairs are the ones unified (direction of subsumes): iterates %s" % show(f[1], maxdepth=4))
    calls = []
    for c in sym.calls(f[3], "unify_rec"):
        if c not in calls:
            calls.append(c)
    ok = len(calls) == 1
    if ok:
        st, ext, u, v = calls[0][2]
        init = [l for l in lets if l[1][0] == "pbind" and st[0] == "var" and l[1][1] == st[1]]
        # state built from other's substitution
        good = bool(init)
        if good:
            i0 = init[0][2]
            smaps = [s for s in sym.subterms(i0) if s[0] == "struct" and dict(s[2]).get("smap") is not None] + [s for s in sym.calls(i0, "with_smap")]
            good = False
            for s in smaps:
                val = dict(s[2])["smap"] if s[0] == "struct" else s[2][1]
                inner = val[2][0] if (val[0] == "call" and "clone" in val[1].lower()) else val
                if unify(AnyOf(("field", other, "0"), ("call", P("smap_ref"), (other,))), inner) is not None:
                    good = True
        ctx.expect(good, rule, key + "|in-others-substitution", site, "the pairs must be unified in a state whose substitution is *other's* pairs")
        errs = [s for s in sym.subterms(f[3]) if s[0] == "ret"]
        ctx.expect(bool(errs) and all("false" in str(e[1]) for e in errs), rule, key + "|err-false", site, "a pair that cannot be unified -> not subsumed (false)")
        c = calls[0]
        mm = [s for s in sym.subterms(f[3]) if s[0] == "match" and s[1] == c]
        okarm = tables.find_arm(mm[0], "Ok") if mm else []
        thr = False
        if len(okarm) == 1:
            os_ = [e for e in tables.stmts_of(okarm[0][2]) if not tables.harmless_effect(e)]
            thr = len(os_) == 1 and os_[0][0] == "assign" and os_[0][1] == st and os_[0][2][0] == "proj" and os_[0][2][1] == c and os_[0][2][2].endswith("Ok") and os_[0][2][3] == 0
        ctx.expect(thr, rule, key + "|threads-unified-state", site, "the state for the next pair must be the one returned by unifying this pair")
        ctx.expect(res[0] == "call" and suffix_match(res[1], "is_empty") and _same_ext(res[2][0], ext), rule, key + "|result", site, "result must be extension.is_empty(); found %s" % show(res, maxdepth=4))
    else:
        ctx.violation(rule, key + "|unify", site, "expected one unify_rec call")


def _implied_predicate(clo, NEW):
    """The per-stored-constraint predicate of `implied`: true only when the stored constraint *is* a
    disequality and subsumes the new one - a stored constraint of another kind (finite-domain, user)
    implies nothing about a tree disequality.  Accepted idioms: downcast.map_or(false, |d| d.subsumes(new)),
    downcast.is_some_and(|d| ...), match downcast { Some(d) => d.subsumes(new), None | _ => false }."""
    if clo[0] != "closure":
        return False
    cp = ("cparam", clo[1], 0)
    body = tables.result(clo[3])

    def is_dc(x):
        return x[0] == "call" and "downcast_ref" in x[1] and "DisequalityConstraint" in x[1] and x[2][0] == cp

    def is_subs(x, who):
        return x[0] == "call" and suffix_match(x[1], "DisequalityConstraint::subsumes") and x[2][0] == who and unify(NEW, x[2][1]) is not None

    if body[0] == "call" and suffix_match(body[1], "map_or") and len(body[2]) == 3:
        dc, dflt, inner = body[2]
        return is_dc(dc) and dflt == ("lit", "Bool(false)") and inner[0] == "closure" and is_subs(tables.result(inner[3]), ("cparam", inner[1], 0))
    if body[0] == "call" and suffix_match(body[1], "is_some_and") and len(body[2]) == 2:
        dc, inner = body[2]
        return is_dc(dc) and inner[0] == "closure" and is_subs(tables.result(inner[3]), ("cparam", inner[1], 0))
    if body[0] == "match" and is_dc(body[1]):
        some = tables.find_arm(body, "Some")
        rest = [a for a in body[2] if a not in some]
        return len(some) == 1 and is_subs(tables.result(some[0][2]), ("proj", body[1], "std::prelude::v1::Some", 0)) and bool(rest) and all(tables.result(a[2]) == ("lit", "Bool(false)") for a in rest)
    return False


def check_normalize(ctx, lib, rule):
    fn = streams.getfn(ctx, lib, rule, "crate::state::constraint::store::ConstraintStore::push_and_normalize")
    if not fn:
        return
    t = EV(lib).fn_term(fn)
    key = fn["npath"]
    site = site_of(fn)
    # roles
    dcs = [c for c in sym.calls(t) if "downcast_ref" in c[1] and "DisequalityConstraint" in c[1]]
    new_dc = [c for c in dcs if unify(pat("@1"), c[2][0]) is not None]
    if not new_dc:
        ctx.violation(rule, key + "|roles", site, "cannot find the downcast of the new constraint")
        return
    NEW = ("proj", new_dc[0], ANY, 0)
    loops = [s for s in sym.subterms(t) if s[0] == "for" and any(n == "drain" for n, _ in streams.iter_chain(s[1])[1])]
    if len(loops) != 1:
        ctx.violation(rule, key + "|drain-loop", site, "expected one loop draining the store")
        return
    f = loops[0]
    src, chain = streams.iter_chain(f[1])
    ctx.expect(unify(pat("@0.0"), src) is not None, rule, key + "|drains-self", site, "the loop must drain this store")
    item = ("item", f[1])
    item_dc = ("call", ANY, (item,))
    ITEM = ("proj", item_dc, ANY, 0)

    def subs(a, b_):
        return ("call", P("DisequalityConstraint::subsumes"), (a, b_))

    paths = tables.block_paths(f[3])
    ctx.count("paths_enumerated", len(paths))
    n_ok = 0
    for lits, effs, term in paths:
        inserted = [e for e in effs if e[0] == "call" and suffix_match(e[1], "insert") and e[2][1] == item]
        kept_elsewhere = [e for e in effs if e[0] == "call" and suffix_match(e[1], "push") and e[2][1] == item]
        is_diseq = [l for l in lits if l[0][0] == "iflet" and unify(item_dc, l[0][2]) is not None]
        diseq = bool(is_diseq) and is_diseq[0][1]
        has_new_subs_item = any(unify(subs(NEW, ITEM), l[0]) is not None and l[1] for l in lits)
        if len(inserted) > 1:
            ctx.violation(rule, key + "|double-insert", site, "a stored constraint is inserted twice on one path")
        if not inserted:
            if not diseq:
                ctx.violation(rule, key + "|drops-foreign", site, "a stored constraint that is not a disequality is not carried over")
            elif not has_new_subs_item:
                ctx.violation(rule, key + "|weakens-store", site, "a stored disequality is discarded on a path without the literal new.subsumes(stored) = true (path literals: %s): the stronger constraint would be lost" % [(show(l[0], maxdepth=3)[:80], l[1]) for l in lits])
            else:
                n_ok += 1
        else:
            if diseq and has_new_subs_item:
                ctx.note("stored constraint implied by the new one is kept (redundant but sound)")
            n_ok += 1
    ctx.expect(n_ok == len(paths) and len(paths) >= 3, rule, key + "|stored-table", site, "%d of %d loop paths satisfy: discarded => new.subsumes(stored)" % (n_ok, len(paths)))
    # store restored from the kept set
    asg = [s for s in sym.subterms(t) if s[0] == "assign" and unify(pat("@0.0"), s[1]) is not None]
    ctx.expect(len(asg) == 1, rule, key + "|restore", site, "the kept constraints must be stored back (self.0 = kept set) exactly once")
    # the new constraint: inserted on every path that does not return early; early return only when implied
    top = tables.block_paths(t)
    ctx.count("paths_enumerated", len(top))
    good = True
    for lits, effs, term in top:
        ins = [e for e in effs if e[0] == "call" and suffix_match(e[1], "insert") and unify(pat("@0.0"), e[2][0]) is not None and unify(pat("@1"), e[2][1]) is not None]
        if ins:
            continue
        # not inserted: must be justified by `some stored s subsumes new`
        just = False
        for l, pol in lits:
            ll = unlet(l)
            sc = [c for c in sym.calls(ll, "DisequalityConstraint::subsumes")]
            anyc = [c for c in sym.calls(ll, "any")]
            if pol and sc and anyc and all(unify(NEW, c[2][1]) is not None and unify(NEW, c[2][0]) is None for c in sc):
                src2, ch2 = streams.iter_chain(anyc[0][2][0])
                if unify(pat("@0.0"), src2) is not None and _implied_predicate(anyc[0][2][1], NEW):
                    just = True
        if not just:
            good = False
            ctx.violation(rule, key + "|new-left-out", site, "the new constraint is not inserted on a path that does not establish `some stored constraint subsumes it` (literals: %s)" % [(show(unlet(l[0]), maxdepth=4)[:100], l[1]) for l in lits])
    if good:
        ctx.ok(rule, key + "|new-table", site, "new constraint inserted unless implied by a stored one")


def check_goal(ctx, lib, rule):
    fn = streams.getfn(ctx, lib, rule, "<crate::relation::diseq::Diseq as crate::solver::Solve>::solve")
    if not fn:
        return
    t = sym.Evaluator(lib).fn_term(fn)
    D = AnyOf(pat("disunify(@2, @0.u, @0.v)"), pat("disunify(@2, @0.v, @0.u)"))
    tables.check_match_table(ctx, rule, fn["npath"], site_of(fn), t, D, {"Ok": lambda body, b: (unify(("ctor", P("Stream::Unit"), (("proj", ANY, P("Ok"), 0),)), tables.result(body), b), "Ok(state) -> unit stream"), "Err": "Stream::Empty"})


def run(ctx, fb, cfg):
    lib = fb.lib
    R = "C02."
    check_disunify(ctx, lib, R + "K3K6.disunify")
    check_run(ctx, lib, R + "K3K6.constraint-run")
    check_subsumes(ctx, lib, R + "K3.subsumes")
    check_normalize(ctx, lib, R + "K6.normalize")
    check_goal(ctx, lib, R + "K3.goal")
    # the disequalities reported with an answer are the stored ones, fully resolved (shared with C03)
    import C03

    C03.check_store_walk_star(ctx, lib, R + "K3.store-walk-star")
    # the reported disequalities survive purify only if their variables got reified names: the
    # reifying map must name every free variable of the answer, improper tails included
    import traversal

    C03.check_reify_threading(ctx, lib, R + "K3.reify-threads")
    C03.check_is_anyvar(ctx, lib, R + "K6.is-anyvar")
    # ... `_` included: every unbound variable of the answer, whatever its name, enters the reifying map
    C03.check_smap_reify_var(ctx, lib, R + "K3.fresh-any-per-var")
    traversal.run_table(ctx, lib, R + "K5.traversal", only=["SMap::reify", "is_anyvar"])
