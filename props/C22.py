"""C22 - User extension hooks observe a consistent constraint lifecycle.

Decided (structural):
 * single doorway: State::cstore_to_mut is called only by State::with_constraint / take_constraint;
   the private `cstore` field is touched only by the listed accessor functions;
 * pairing: with_constraint calls U::with_constraint before the store insertion, and reports every
   constraint dropped by normalisation to U::take_constraint; take_constraint calls
   U::take_constraint iff the store really gave the constraint up;
 * no silent removal: inside ConstraintStore, `&mut self` methods remove elements only in `take`
   and `push_and_normalize`, and the latter accounts for every drained constraint (kept or
   reported as dropped) and for the new one (inserted or reported);
 * with_cstore goes through take_constraint / with_constraint for every constraint;
 * process_extension runs diseq, fd, user stages in order on the same extension and the user
   stage is User::process_extension.
 (round 4, shared with C01) the extension handed to the hook holds exactly the bindings added.
"""
import hirwalk
import streams
import sym
import tables
from pat import pat
from report import site_of
from sym import ANY, AnyOf, P, V, show, suffix_match, unify

EXPLANATION = (
    "Static who-may-call / pairing rules on typed HIR: the only &mut doorway to a state's constraint store, hook calls paired with every insertion and removal "
    "(including constraints dropped as redundant by normalisation), accounting of drained constraints in push_and_normalize, with_cstore, and the process_extension stage order."
)
NOT_DECIDED = "hook counts on a given history (they follow from the pairing); behaviour of user-supplied hook bodies"
TECHNIQUE = "static analysis: who-may-call + must-pair rules over typed HIR via rustc_private driver"

EV = lambda lib: sym.Evaluator(lib, named_lets=True)

FIELD_ALLOWED = {
    "crate::state::State::new": "constructor",
    "crate::state::State::cstore_ref": "read accessor",
    "crate::state::State::cstore_to_mut": "the clone-on-write doorway",
    "crate::state::State::get_cstore": "shares the Rc",
    "crate::state::State::run_constraints": "reads the store to list the constraints to re-run",
}
REMOVERS = ("take", "remove", "drain", "retain", "clear", "extract_if", "drain_filter")


def check_doorway(ctx, lib, rule):
    callers = hirwalk.callers_of(lib, "State::cstore_to_mut")
    allowed = {"crate::state::State::with_constraint", "crate::state::State::take_constraint"}
    for p, ns in sorted(callers.items()):
        ctx.fn_seen(p)
        ctx.expect(p in allowed, rule, "%s|calls-cstore_to_mut" % p, site_of(ns[0]), "only State::with_constraint / take_constraint may obtain the state's store mutably (hooks would be bypassed)")
    ctx.floor(rule, len([p for p in callers if p in allowed]), 2, "doorway callers")
    # direct accesses of the private field
    n = 0
    for p, fn in hirwalk.fns_nontest(lib, derive=True):
        hits = [x for x in hirwalk.field_nodes(fn, "cstore") if "state::State" in x.get("base_ty", "")]
        if not hits:
            continue
        n += 1
        if fn["span"].endswith("!"):
            ctx.ok(rule, "%s|derive-touches-cstore" % p, site_of(fn), "derive-generated (Clone/Debug)")
            continue
        ctx.expect(p in FIELD_ALLOWED, rule, "%s|touches-cstore-field" % p, site_of(hits[0]), "direct access to State's private `cstore` field outside the accessor functions")
    ctx.floor(rule, n, 4, "functions touching State.cstore")
    # struct literals naming the field
    for p, fn in hirwalk.fns_nontest(lib):
        for x in hirwalk.nodes(fn["hir"]):
            if x.get("k") == "Struct" and str(x.get("path", "")).endswith("state::State") and any(f["field"] == "cstore" and "e" in f for f in x.get("fields", [])):
                ctx.expect(p == "crate::state::State::new", rule, "%s|builds-state-with-cstore" % p, site_of(x), "a State literal setting `cstore` outside State::new replaces the store without hooks")


def check_with_take(ctx, lib, rule):
    fn = streams.getfn(ctx, lib, rule, "crate::state::State::with_constraint")
    if fn:
        t = EV(lib).fn_term(fn)
        key = fn["npath"]
        site = site_of(fn)
        st = [e for e in tables.stmts_of(t) if not tables.harmless_effect(e) or e[0] == "let"]
        seq = []
        dropped = None
        for e in st:
            if e[0] == "call" and suffix_match(e[1], "User::with_constraint") and unify(pat("@0"), e[2][0]) is not None and unify(pat("@1"), e[2][1]) is not None:
                seq.append("hook")
            elif e[0] == "let" and e[2][0] == "call" and suffix_match(e[2][1], "push_and_normalize"):
                seq.append("push")
                if e[1][0] == "pbind":
                    dropped = e[1][1]
                ctx.expect(unify(pat("@0.cstore"), e[2][2][0]) is not None and unify(pat("@1"), e[2][2][1]) is not None, rule, key + "|push-args", site, "the constraint given to the hook must be the one inserted into this state's store")
            elif e[0] == "call" and suffix_match(e[1], "push_and_normalize"):
                seq.append("push-unobserved")
            elif e[0] == "for":
                it = e[1]
                src, chain = streams.iter_chain(it)
                body = [x for x in tables.stmts_of(e[3]) if not tables.harmless_effect(x)]
                good = src[0] == "letv" and src[1] == dropped and all(n in streams.ONE_TO_ONE for n, _ in chain) and len(body) == 1 and body[0][0] == "call" and suffix_match(body[0][1], "User::take_constraint") and unify(pat("@0"), body[0][2][0]) is not None and body[0][2][1] == ("item", it)
                seq.append("report-dropped" if good else "for?")
            elif e == ("param", 0, e[2] if len(e) > 2 else None):
                seq.append("ret-self")
            else:
                seq.append("other:" + show(e, maxdepth=3)[:60])
        ctx.expect(seq == ["hook", "push", "report-dropped", "ret-self"], rule, key + "|sequence", site, "with_constraint must be: U::with_constraint(self, c); dropped = store.push_and_normalize(c); U::take_constraint for every dropped constraint; self.  found %s" % seq)
    fn = streams.getfn(ctx, lib, rule, "crate::state::State::take_constraint")
    if fn:
        t = EV(lib).fn_term(fn)
        key = fn["npath"]
        site = site_of(fn)
        eff, m = tables.flatten(t)
        ok = m and m[0] == "match" and m[1][0] == "call" and suffix_match(m[1][1], "take") and unify(pat("@0.cstore.0"), m[1][2][0]) is not None or (m and m[0] == "match" and m[1][0] == "call" and suffix_match(m[1][1], "ConstraintStore::take"))
        if not ok:
            # hoisted form: `let taken = store.take(c); if let Some(c) = &taken { U::take_constraint(self, c) }; (self, taken)`
            t = sym.Evaluator(lib, inline=lambda p_, f_: False).fn_term(fn)  # plain terms: the `let taken` is looked through
            takes = list(dict.fromkeys(c for c in sym.calls(t) if isinstance(c[1], str) and c[1].endswith("ConstraintStore::take")))
            hooks = [(s_, lits) for s_, lits in tables.occurrences_with_guards(t) if s_[0] == "call" and suffix_match(s_[1], "User::take_constraint")]
            res = tables.result(t)
            hoisted = len(takes) == 1 and len(hooks) == 1 and res == ("tuple", (("param", 0, "self"), takes[0]))
            if hoisted:
                TAKE = takes[0]
                h, lits = hooks[0]
                under_some = any(pol and l[0] in ("iflet", "matches") and TAKE in l and "Some" in str(l) for l, pol in lits)
                hoisted = under_some and h[2][0][:2] == ("param", 0) and h[2][1] == ("proj", TAKE, "std::prelude::v1::Some", 0)
            if hoisted:
                ctx.ok(rule, key + "|take", site, "hoisted form: hook exactly under Some(taken), result (self, taken)")
                ctx.ok(rule, key + "|arm=Some", site, "hoisted form")
                ctx.ok(rule, key + "|arm=None", site, "hoisted form")
                return
        ctx.expect(ok, rule, key + "|take", site, "take_constraint must branch on store.take(constraint)")
        if ok:
            taken = ("proj", m[1], ANY, 0)

            def some_arm(body, b):
                st = [e for e in tables.stmts_of(body) if not tables.harmless_effect(e)]
                good = len(st) == 2 and unify(("call", P("User::take_constraint"), (pat("@0"), taken)), st[0]) is not None and unify(("tuple", (pat("@0"), ("ctor", P("Some"), (taken,)))), st[1]) is not None
                return (b if good else None, "Some(c): U::take_constraint(self, c) then (self, Some(c))")

            def none_arm(body, b):
                st = [e for e in tables.stmts_of(body) if not tables.harmless_effect(e)]
                good = len(st) == 1 and unify(pat("(@0, None)"), st[0]) is not None
                return (b if good else None, "None: no hook, (self, None)")

            tables.check_match_table(ctx, rule, key, site, t, m[1], {"Some": some_arm, "None": none_arm})


def check_store(ctx, lib, rule):
    # removers inside ConstraintStore's &mut self methods
    n = 0
    for p, fn in hirwalk.fns_nontest(lib):
        if not p.startswith("crate::state::constraint::store::ConstraintStore::"):
            continue
        ctx.fn_seen(p)
        bymut = fn.get("inputs") and fn["inputs"][0].startswith("&mut") or (fn.get("inputs") and "&'" in fn["inputs"][0] and " mut " in fn["inputs"][0])
        for c, r, node in hirwalk.calls(fn):
            name = (c or "").split("::")[-1]
            if name in REMOVERS and ("HashSet" in (c or "") or "hash" in (c or "")):
                n += 1
                if not bymut:
                    ctx.ok(rule, "%s|by-value-%s" % (p, name), site_of(node), "consumes a store by value (cannot be a state's store)")
                else:
                    short = p.split("::")[-1]
                    ctx.expect((short, name) in (("take", "take"), ("push_and_normalize", "drain")), rule, "%s|removes-with-%s" % (p, name), site_of(node), "a &mut method of the store removes constraints with HashSet::%s outside take / push_and_normalize: removal would bypass U::take_constraint" % name)
    ctx.floor(rule, n, 2, "removal sites in ConstraintStore")
    # accounting in push_and_normalize
    fn = streams.getfn(ctx, lib, rule, "crate::state::constraint::store::ConstraintStore::push_and_normalize")
    if not fn:
        return
    t = EV(lib).fn_term(fn)
    key = fn["npath"]
    site = site_of(fn)
    res = tables.result(t)
    ctx.expect(res[0] == "letv" and unify(AnyOf(pat("new()"), ("call", P("Vec::new"), ())), res[3]) is not None or (res[0] == "letv" and "Vec" in str(res[3])), rule, key + "|returns-dropped", site, "push_and_normalize must return the list of constraints it dropped")
    dropped = res
    loops = [s for s in sym.subterms(t) if s[0] == "for" and any(nm == "drain" for nm, _ in streams.iter_chain(s[1])[1])]
    if len(loops) == 1:
        f = loops[0]
        item = ("item", f[1])
        paths = tables.block_paths(f[3])
        bad = 0
        for lits, effs, term in paths:
            kept = [e for e in effs if e[0] == "call" and suffix_match(e[1], "insert") and e[2][1] == item]
            rep = [e for e in effs if e[0] == "call" and suffix_match(e[1], "push") and e[2][0] == dropped and e[2][1] == item]
            if len(kept) + len(rep) != 1:
                bad += 1
        ctx.expect(bad == 0 and len(paths) >= 3, rule, key + "|drained-accounted", site, "every drained constraint must be either kept or reported as dropped (exactly one of the two) on every path; %d of %d paths do not" % (bad, len(paths)))
        ctx.count("paths_enumerated", len(paths))
    else:
        ctx.violation(rule, key + "|drain-loop", site, "expected one loop draining the store")
    top = tables.block_paths(t)
    bad = 0
    for lits, effs, term in top:
        ins = [e for e in effs if e[0] == "call" and suffix_match(e[1], "insert") and unify(pat("@0.0"), e[2][0]) is not None and unify(pat("@1"), e[2][1]) is not None]
        rep = [e for e in effs if e[0] == "call" and suffix_match(e[1], "push") and e[2][0] == dropped and unify(pat("@1"), e[2][1]) is not None]
        retv = term[1] if term is not None and term[0] == "ret" else res
        if len(ins) + len(rep) != 1 or retv != dropped:
            bad += 1
    ctx.expect(bad == 0 and top, rule, key + "|new-accounted", site, "the new constraint must be inserted or reported as dropped (exactly one) and the dropped list returned on every path; %d of %d paths do not" % (bad, len(top)))
    ctx.count("paths_enumerated", len(top))


def check_with_cstore(ctx, lib, rule):
    fn = streams.getfn(ctx, lib, rule, "crate::state::State::with_cstore")
    if not fn:
        return
    t = EV(lib).fn_term(fn)
    key = fn["npath"]
    site = site_of(fn)
    eff, res = tables.flatten(t)
    fors = [e for e in eff if e[0] == "for"]
    good = len(fors) == 2 and res[0] == "var"
    if good:
        f1, f2 = fors
        s1 = [e for e in tables.stmts_of(f1[3]) if not tables.harmless_effect(e)]
        s2 = [e for e in tables.stmts_of(f2[3]) if not tables.harmless_effect(e)]
        a1 = len(s1) == 1 and s1[0][0] == "assign" and s1[0][1] == res and unify(("field", ("call", P("take_constraint"), (res, ("item", f1[1]))), "0"), s1[0][2]) is not None
        a2 = len(s2) == 1 and s2[0][0] == "assign" and s2[0][1] == res and unify(("call", P("with_constraint"), (res, ("item", f2[1]))), s2[0][2]) is not None
        src1, ch1 = streams.iter_chain(f1[1])
        src2, ch2 = streams.iter_chain(f2[1])
        old = src1
        while old[0] == "letv":
            old = old[3]
        i1 = all(n in streams.ONE_TO_ONE for n, _ in ch1) and "cstore" in show(old)
        i2 = all(n in streams.ONE_TO_ONE for n, _ in ch2) and unify(AnyOf(pat("@1"), pat("@1.0")), src2) is not None
        good = a1 and a2 and i1 and i2
    ctx.expect(good, rule, key + "|replace", site, "with_cstore must take every old constraint through take_constraint and add every new one through with_constraint; found %s" % show(t, maxdepth=5)[:300])


def check_process_extension(ctx, lib, rule):
    fn = streams.getfn(ctx, lib, rule, "crate::state::State::process_extension")
    if fn:
        t = sym.Evaluator(lib, inline=lambda p, f: False).fn_term(fn)
        want = pat("process_extension_user(process_extension_fd(process_extension_diseq(@0, @1)?, @1)?, @1)")
        ctx.expect(unify(want, tables.result(t)) is not None and not tables.semis(t), rule, fn["npath"] + "|stages", site_of(fn), "process_extension must run the diseq, fd and user stages in this order on the same extension, stopping at the first failure; found %s" % show(t, maxdepth=6)[:260])
    fn = streams.getfn(ctx, lib, rule, "crate::state::State::process_extension_user")
    if fn:
        t = sym.Evaluator(lib).fn_term(fn)
        ctx.expect(unify(pat("process_extension(@0, @1)"), tables.result(t)) is not None and "User" in tables.result(t)[1], rule, fn["npath"] + "|hook", site_of(fn), "the user stage must be User::process_extension(state, extension); found %s" % show(t, maxdepth=4))
    callers = hirwalk.callers_of(lib, "State::process_extension")
    ctx.expect(set(callers) == {"crate::state::State::unify"}, rule, "callers|process_extension", "", "process_extension must be called exactly from State::unify (after every successful unification): callers %s" % sorted(callers))


def run(ctx, fb, cfg):
    lib = fb.lib
    R = "C22."
    check_doorway(ctx, lib, R + "K1.doorway")
    check_with_take(ctx, lib, R + "K2.pairing")
    check_store(ctx, lib, R + "K1K6.no-silent-removal")
    check_with_cstore(ctx, lib, R + "K6.with-cstore")
    check_process_extension(ctx, lib, R + "K3.extension-hook")
    # "process_extension is called after every successful unification": State::unify always hands
    # its extension on, empty or not (rule shared with C01); every posting of a finite-domain goal
    # builds a fresh constraint object (the store and the hook balance key constraints by identity)
    import C01

    C01.check_state_unify(ctx, lib, R + "K3.state-unify")
    # "... with exactly that unification's new bindings": every binding unify_rec adds to the substitution is
    # recorded in the extension as the same (variable, value) pair (table shared with C01)
    C01.check_unify_rec(ctx, lib, R + "K3K5.unify-rec")
    if any(p.startswith("crate::relation::clpfd") for p in lib.fns):
        import fdrules

        fdrules.check_posting(ctx, lib, R + "K3.posting")
        fdrules.check_operand_plumbing(ctx, lib, R + "K3.operand-plumbing", only=("plusfd", "minusfd", "timesfd", "ltefd", "diseqfd"))


def run_once(ctx, tier):
    import witness

    witness.run(ctx, "C22", ['w6_cstore_private'])
