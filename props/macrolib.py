"""Shared helpers for the macro-crate rules (K11/K12): template shapes, adaptor discipline,
per-variant alternatives.  See rules/tmplsem.py for the canonical template form."""
import tmplsem
from tmplsem import Matcher, expected, show

# classes of library entry points that may stand for one another in a template without changing
# what the generated goal / term denotes (each member is checked to be what its class says by a
# library-side rule: order-preserving total folds for the conjunction builders, etc.)
CLASSES = {
    "CONJ": ["conj::InferredConj::from_array", "conj::Conj::from_array", "InferredConj::from_array", "Conj::from_array"],
    "CONJC": ["conj::InferredConj::from_conjunctions", "conj::Conj::from_conjunctions", "InferredConj::from_conjunctions", "Conj::from_conjunctions"],
    "EQ": ["relation::eq::eq", "relation::eq"],
    "DISEQ": ["relation::diseq::diseq", "relation::diseq"],
    "NEWVAR": ["CompoundTerm::new_var", "LTerm::var"],
    "WILD": ["LTerm::any", "CompoundTerm::new_wildcard"],
    "SUCCEED": ["relation::succeed", "relation::succeed::succeed"],
    "FAIL": ["relation::fail", "relation::fail::fail"],
    "ANYO": ["operator::anyo::anyo", "operator::anyo"],
    "EVERYG": ["operator::everyg", "operator::everyg::everyg"],
}
SYMMETRIC = ("EQ", "DISEQ")


class SymMatcher(Matcher):
    """Matcher that accepts either operand order for the symmetric relations (== and != do not
    depend on operand order)."""

    def match(self, e, a):
        if isinstance(e, tuple) and e and e[0] == "call" and isinstance(a, tuple) and a and a[0] == "call" and e[1][0] == "path" and e[1][1] in SYMMETRIC and len(e[2]) == 2 and isinstance(a[2], list) and len(a[2]) == 2:
            save = (dict(self.bound), self.why)
            if Matcher.match(self, e, a):
                return True
            self.bound, self.why = dict(save[0]), save[1]
            swapped = ("call", e[1], [e[2][1], e[2][0]])
            return Matcher.match(self, swapped, a)
        return Matcher.match(self, e, a)


def load_sem(ctx, fb):
    data = fb.templates()
    if data is None or not data.get("templates"):
        ctx.violation("K12.templates", "anchor-missing|templates.json", "macros/src/lib.rs", "the template extractor produced nothing (fail closed)")
        return None
    s = tmplsem.Sem(data)
    ctx.count("templates_extracted", len(s.T.templates))
    ctx.count("delegations_extracted", len(data.get("delegations", [])))
    return s


def match_shape(alt, shapes, names=None, classes=None):
    """-> (matcher|None, why). `shapes`: one expected shape or a list of acceptable ones."""
    if isinstance(shapes, str):
        shapes = [shapes]
    why = []
    for s in shapes:
        m = SymMatcher(names, dict(CLASSES, **(classes or {})))
        if m.match(expected(s), alt.tree):
            return m, ""
        why.append(m.why)
    return None, " / ".join(w for w in why if w)


def check_shape(ctx, rule, key, alt, shapes, names=None, what=""):
    m, why = match_shape(alt, shapes, names)
    ctx.expect(
        m is not None,
        rule,
        key,
        alt.site,
        "%s: template is `%s`, expected `%s` (%s)" % (what or key, show(alt.tree)[:500], shapes if isinstance(shapes, str) else " | ".join(shapes), why),
        detail=show(alt.tree)[:300],
    )
    return m


def check_adaptors(ctx, rule, key, alt, extra=()):
    """Every interpolated list reaches the template through adaptors that keep each element exactly
    once and in order."""
    ok = True
    for o in alt.origins.values():
        bad = [a for a in o.adaptors if a.split("[")[0] not in tmplsem.ONE_TO_ONE and a != "map-field" and a not in extra]
        if bad:
            ok = False
            ctx.violation(rule, "%s|list=%s" % (key, o.text), alt.site, "interpolated list %s passes through `%s`, which does not keep every element once and in written order" % (o.text, ", ".join(bad)))
    if ok:
        ctx.ok(rule, key, alt.site, ", ".join(repr(o) for o in alt.origins.values())[:200])
    return ok


def single_alt(ctx, sem, rule, ty, conds=None):
    """The one template of `impl ToTokens for ty` (optionally under the given branch conditions)."""
    alts = [a for a in sem.alts(ty) if a.kind == "template"]
    if conds is not None:
        alts = [a for a in alts if [tuple(c) for c in a.conds] == [tuple(c) for c in conds]]
    if len(alts) != 1:
        ctx.violation(rule, "anchor-missing|ToTokens for %s" % ty, "macros/src/lib.rs", "expected exactly one template in `impl ToTokens for %s`%s, found %d" % (ty, " under %s" % conds if conds else "", len(alts)))
        return None
    return alts[0]


def by_variant(sem, ty, enum, depth=0):
    """dict variant -> [alts] for an impl whose to_tokens matches on `enum` (arm patterns at `depth`)."""
    out = {}
    for a in sem.alts(ty):
        c = a.ctor(depth)
        if c is None:
            continue
        if c.startswith(enum + "::"):
            out.setdefault(c.split("::", 1)[1], []).append(a)
        else:
            out.setdefault(c, []).append(a)
    return out


def payload(enum, variant, key=0):
    return "%s::%s#%s" % (enum, variant, key)


# ---- K6 census: the macro front end only ever *appends* to the sequences it builds -------------------------
import re as _re

_SEQ_OPS = _re.compile(
    r"::(insert|reverse|rev|sort\w*|swap\w*|rotate_\w+|remove|retain|dedup\w*|truncate|drain|split_off|pop|pop_front|push_front|last|first|nth|skip|take|step_by|filter|filter_map|skip_while|take_while|chain|cycle|zip|rsplit\w*|next_back|rfold|rfind|max\w*|min\w*)$"
)
_SEQ_TYPES = ("std::vec::Vec", "std::collections::VecDeque", "crate::syn::punctuated::Punctuated", "core::slice", "std::slice", "std::iter::Iterator", "std::iter::DoubleEndedIterator")
# confirmed by reading: (function, callee) -> (max sites, reason)
SEQ_OP_TABLE = {
    ("<crate::CompoundPath as crate::syn::parse::Parse>::parse", "crate::syn::punctuated::Punctuated::pop"): (3, "splits `a::b::Type::Variant` into prefix / type / variant from the end of the path; what is popped is kept"),
    ("crate::make_compound_modifications_to_path", "std::iter::Iterator::last"): (1, "renames only the last path segment (`Foo` -> `_Inner_compound_Foo`)"),
}


def check_sequence_ops(ctx, mac, rule):
    """The order of clauses, arms, or-pattern alternatives, patterns and arguments in the expansion is the
    order in which the parsers *collected* them: every `impl Parse` accumulates with push / push_value /
    parse_terminated and every emitter iterates forwards.  So in the whole macro crate no sequence is ever
    reordered, truncated or filtered: any call of a reordering / dropping operation on a Vec, Punctuated, slice
    or iterator that is not in the confirmed table is reported (MIR call census, resolved callees; hash sets
    are exempt - they carry no order)."""
    seen = {}
    nfn = 0
    appends = 0
    for p, fn in sorted(mac.fns.items()):
        mir = fn.get("mir")
        if not mir or fn.get("in_test_mod"):
            continue
        nfn += 1
        for b in mir["blocks"]:
            t = b.get("term") or {}
            if t.get("k") != "call" or not isinstance(t.get("callee"), str):
                continue
            c = _re.sub(r"::<[^<>]*(<[^<>]*>[^<>]*)*>", "", t["callee"])
            if c.endswith(("Vec::push", "Punctuated::push", "Punctuated::push_value")):
                appends += 1
            if not _SEQ_OPS.search(c) or not c.startswith(_SEQ_TYPES) and not any(s in c for s in ("Vec::", "Punctuated::", "VecDeque::", "slice")):
                continue
            seen.setdefault((p, c), []).append(":".join(t.get("sp", "").split(":")[:2]))
    for (p, c), sites in sorted(seen.items()):
        ctx.fn_seen(p)
        lim = SEQ_OP_TABLE.get((p, c))
        if lim is None:
            ctx.violation(rule, "%s|%s" % (p, c.split("::")[-1]), sites[0], "the macro front end calls `%s`, which can reorder or drop collected clauses / arms / patterns; only appends and forward iteration are confirmed (source order = expansion order)" % c)
        elif len(sites) > lim[0]:
            ctx.violation(rule, "%s|%s|more-sites" % (p, c.split("::")[-1]), sites[-1], "%d sites of `%s` where %d were confirmed (%s)" % (len(sites), c, lim[0], lim[1]))
        else:
            ctx.ok(rule, "%s|%s" % (p, c.split("::")[-1]), sites[0], "confirmed exception: %s" % lim[1])
    ctx.count("macro_functions_censused", nfn)
    ctx.floor(rule, nfn, 60, "macro-crate functions with MIR")
    ctx.floor(rule, appends, 10, "append sites (push / push_value) in the macro crate")
