"""C11 - project sees the current value of projected variables in every branch.

Decided (structural):
 * goals are immutable when solved (K9 + call graph): from no Solve::solve(&self, ..) impl is a
   function with a user-written unsafe block / back-door call reachable (goal objects are shared
   by every state that reaches them and may be solved any number of times);
 * stated-belief contradiction (K8): LTerm::project panics unless the term is still a Projection,
   and itself destroys the Projection it requires; Project::solve calls it without testing
   is_projection();
 * what is projected (K3): every variable of the goal is projected with walk*(state.smap, .) of the
   *incoming* state and the body is solved with that same state.
Expected on this tree: the first two fail at Project::solve -> LTerm::project (finding F4).
 (round 4, shared with C20) walk* of compound values: the library impls for pairs / Option and
   the derive templates walk every field, each field itself, deeply, in the same substitution.
"""
import C23 as panics
import hirwalk
import mutaudit
import streams
import sym
import tables
from facts import norm
from pat import pat
from report import site_of
from sym import ANY, P, show, suffix_match, unify

EXPLANATION = (
    "Static rules for project: call-graph reachability of unsafe / in-place writes from Solve::solve implementations, the guard discipline of the panic in LTerm::project, "
    "and a provenance table for Project::solve (each variable projected with walk* in the incoming state, body solved in that state)."
)
NOT_DECIDED = "that body goals resumed later see the projected value of their own state (this is exactly what the in-place write breaks; recorded as finding F4, a repair needs the projected value to live in the state rather than in the goal)"
TECHNIQUE = "static analysis: call-graph reachability of unsafe writes from Solve::solve + typed-HIR provenance table via rustc_private driver"


def run(ctx, fb, cfg):
    lib = fb.lib
    R = "C11."
    # "x denotes the fully walked value": walk* resolves list elements, tails and compound fields
    # all the way down (traversal table shared with C03/C20)
    import traversal

    traversal.run_table(ctx, lib, R + "K5.walk-star-is-deep", only=["walk_star"])
    # a project goal works for several reaching states only when it is rebuilt per state: the
    # closure operator must re-evaluate its body on every solve and hold no cached goal (shared with C15)
    import C15

    C15.check_unfolding(C15._Prefixed(ctx, "C11"), lib)
    # walk* of a compound value (pair, Option, #[compound] struct) walks *every* field in the same
    # substitution, deeply: the library impls and the derive templates (shared with C20)
    import C20

    C20.check_library(C15._Prefixed(ctx, "C11"), lib)
    # the projected copy of an unbound variable is a second allocation of the *same* variable: unification must
    # identify variables by id (the same-variable arm of unify_rec), never by pointer (table shared with C01)
    import C01

    C01.check_unify_rec(ctx, lib, R + "K3K5.unify-rec")
    if cfg == "lib-default":
        import macrolib

        S = macrolib.load_sem(ctx, fb)
        if S is not None:
            C20.check_derive(C15._Prefixed(ctx, "C11"), S)
    edges, bodies = panics.call_graph(lib)
    bd = mutaudit.backdoors(lib)
    unsafe_fns = set(bd)
    rule = R + "K9.goal-immutable-when-solved"
    n = 0
    for im in lib.impls:
        if not (norm(im.get("trait")) or "").endswith("solver::Solve"):
            continue
        for it in im["items"]:
            if it["name"] != "solve":
                continue
            root = norm(it["path"])
            if root not in bodies or bodies[root].get("in_test_mod"):
                continue
            n += 1
            ctx.fn_seen(root)
            # bounded reachability (do not cross into other Solve::solve impls: each is its own root)
            seen = set()
            work = [(root, (root,))]
            hit = None
            while work and hit is None:
                p, path = work.pop()
                if p in seen:
                    continue
                seen.add(p)
                if p in unsafe_fns:
                    hit = path
                    break
                for q in edges.get(p, ()):
                    if q in bodies and q not in seen:
                        if q != root and q.endswith("as crate::solver::Solve>::solve"):
                            continue
                        work.append((q, path + (q,)))
            if hit:
                ctx.violation(rule, "%s|reaches=%s" % (root, hit[-1]), site_of(bodies[root]), "solving this goal can reach an in-place (unsafe) write: %s; the goal object is shared by every state that reaches it" % " -> ".join(x.split("::")[-2] + "::" + x.split("::")[-1] for x in hit))
            else:
                ctx.ok(rule, "%s|no-unsafe-reachable" % root, site_of(bodies[root]), "%d functions reachable" % len(seen))
    ctx.floor(rule, n, 20, "Solve::solve implementations")
    # panic guard discipline
    rule = R + "K8.project-panic-guard"
    fn = streams.getfn(ctx, lib, rule, "<crate::operator::project::Project as crate::solver::Solve>::solve")
    if fn:
        t = sym.Evaluator(lib).fn_term(fn)
        guarded = True
        found = 0
        for s, lits in tables.occurrences_with_guards(t):
            if s[0] == "call" and suffix_match(s[1], "LTerm::project"):
                found += 1
                recv = s[2][0]
                ok = any(pol and l[0] == "call" and l[1].split("::")[-1] == "is_projection" and l[2] and l[2][0] == recv for l, pol in lits)
                guarded = guarded and ok
        pfn = lib.fns.get("crate::lterm::LTerm::project")
        panics_ = bool(pfn) and any(k == "panic" for k, d, sp in panics.sites_of(pfn))
        if found and panics_ and not guarded:
            ctx.violation(rule, "%s|calls-project-unguarded" % fn["npath"], site_of(fn), "Project::solve calls LTerm::project, which panics on a non-Projection term and itself replaces the Projection, without testing is_projection(): reaching the goal a second time panics")
        else:
            ctx.ok(rule, "%s|project-guard" % fn["npath"], site_of(fn), "guarded or project() cannot panic")
        check_what_is_projected(ctx, lib, R + "K3.what-is-projected")


def check_what_is_projected(ctx, lib, rule):
    """`project |x| { body }`: every variable of the goal is replaced by walk*(state.smap, var) of the incoming
    state - deep, so a list whose spine runs through bound variables is seen as the list it denotes - and the body is
    solved with that same state (shared with C12: `for x in &l` inside a project iterates the projected value)."""
    fn = streams.getfn(ctx, lib, rule, "<crate::operator::project::Project as crate::solver::Solve>::solve")
    if not fn:
        return
    t = sym.Evaluator(lib).fn_term(fn)
    eff, res = tables.flatten(t)
    fors = [e for e in eff if e[0] == "for"]
    good = len(fors) == 1
    if good:
        f = fors[0]
        src, chain = streams.iter_chain(f[1])
        good = unify(pat("@0.variables"), src) is not None and all(n_ in streams.ONE_TO_ONE for n_, _ in chain)
        body = [e for e in tables.stmts_of(f[3]) if not tables.harmless_effect(e)]
        good = good and len(body) == 1 and body[0][0] == "call" and suffix_match(body[0][1], "LTerm::project") and body[0][2][0] == ("item", f[1])
        if good:
            cl = body[0][2][1]
            good = cl[0] == "closure" and unify(pat("walk_star(@2.smap, arg0)"), tables.result(cl[3])) is not None
        good = good and unify(pat("solve(@0.body, @1, @2)"), res) is not None
    ctx.expect(good, rule, fn["npath"] + "|table", site_of(fn), "every variable of the goal must be projected with walk*(state.smap, var) of the incoming state and the body solved with that same state; found %s" % show(t, maxdepth=6)[:300])
