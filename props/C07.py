"""C07 - Interleaving disjunction is fair and productive (mechanism only).

Decided (structural, each necessary for fairness/productivity):
 * swap: when a stream s is merged with a later lazy stream l in BFS mode, the residual of s
   goes *second* (Lazy(r) -> MPlus(l, r); Cons(h, r) -> Cons(h, MPlus(l, r)));
 * the BFS fold of conde delays the accumulated alternatives (Lazy::Delay);
 * suspension: Conj, DFSConj, InferredConj, Fresh, Disj, DFSDisj::solve return a Pause without
   calling solve / start / step, and the conjunction constructors never return an operand as is
   (a clause goal always sits behind a Pause), so every recursion through a relation passes a
   suspension that only Engine::step resumes;
 * Anyo::solve re-creates itself only as a clause of a conde.
 (round 4) operator search kinds: conde/matche/conda/condu/matcha/matchu/anyo/onceo take and
   return interleaving goals (typed signatures; a DFSGoal casts silently into a Goal context and
   Conde::solve picks the search by downcast); Conde::from_array / from_vec / from_conjunctions
   keep one branch per clause; disjunction builders are total folds from `fail`.
 (round 5) the library's own Disj merges breadth-first.
"""
import streams
import sym
import tables
from pat import pat
from report import site_of
from streams import BFS
from sym import show, suffix_match, unify

EXPLANATION = (
    "Static check of the fairness mechanism on typed-HIR symbolic terms: operand order of every BFS MPlus built from a stream residual (the swap), "
    "Delay of accumulated conde alternatives, absence of synchronous solve/start/step calls in the six suspending solve impls, conjunction constructors "
    "never returning an operand unchanged, Anyo recursion only under a conde clause. Decides the mechanism, not fairness of a given program."
)
NOT_DECIDED = "that every branch's answers appear after finitely many steps for all programs (fairness induction + productivity argument per program)"
TECHNIQUE = "static analysis: typed-HIR provenance tables (operand order, who-may-call) via rustc_private driver"

SUSPENDING = [
    "<crate::operator::conj::Conj as crate::solver::Solve>::solve",
    "<crate::operator::conj::DFSConj as crate::solver::Solve>::solve",
    "<crate::operator::conj::InferredConj as crate::solver::Solve>::solve",
    "<crate::operator::fresh::Fresh as crate::solver::Solve>::solve",
    "<crate::operator::disj::Disj as crate::solver::Solve>::solve",
    "<crate::operator::disj::DFSDisj as crate::solver::Solve>::solve",
]
SYNC = ("solve", "start", "start_dfs", "step", "next", "peek", "trunc")


def check_suspension(ctx, lib, rule):
    n = 0
    for s in SUSPENDING:
        fn = streams.getfn(ctx, lib, rule, s)
        if not fn:
            continue
        n += 1
        t = streams.evaluator(lib).fn_term(fn)
        bad = [c for c in sym.calls(t) if c[1].split("::")[-1] in SYNC]
        ctx.expect(not bad, rule, fn["npath"] + "|no-sync-solve", site_of(fn), "solve must return a suspension; it calls %s synchronously (recursion would no longer pass through Engine::step)" % (bad[0][1] if bad else ""))
        pauses = [c for c in sym.ctors(t) if c[1].endswith("Lazy::Pause") or c[1].endswith("Lazy::PauseDFS")]
        ctx.expect(bool(pauses), rule, fn["npath"] + "|pauses", site_of(fn), "solve must build a Pause / PauseDFS node around the incoming state")
    ctx.floor(rule, n, 6, "suspending solve impls")


def check_new_never_identity(ctx, lib, rule, fn_suffix):
    fn = streams.getfn(ctx, lib, rule, fn_suffix)
    if not fn:
        return
    t = streams.plain_evaluator(lib).fn_term(fn)
    rets = [s[1] for s in sym.subterms(t) if s[0] == "ret" and s[1] is not None] + [tables.result(t)]
    bad = []
    for r in rets:
        r = tables.result(r)
        # unwrap InferredGoal{goal: x} / dynamic(x)
        inner = r
        for _ in range(3):
            if inner[0] == "struct" and dict(inner[2]).get("goal") is not None and "InferredGoal" in inner[1]:
                inner = dict(inner[2])["goal"]
            elif inner[0] == "call" and suffix_match(inner[1], "dynamic") and inner[2]:
                inner = inner[2][0]
            elif inner[0] == "ctor" and inner[1].endswith("::Dynamic") and inner[2]:
                inner = inner[2][0]
        isnode = inner[0] == "struct" and dict(inner[2]).get("goal_1") is not None
        isconst = (inner[0] == "ctor" and inner[1].split("::")[-1] in ("Succeed", "Fail")) or (inner[0] == "call" and inner[1].split("::")[-1] in ("succeed", "fail"))
        if not (isnode or isconst):
            bad.append(r)
    ctx.expect(not bad, rule, fn["npath"] + "|always-node", site_of(fn), "a conjunction constructor must return succeed, fail or a node holding both goals; it returns %s (an operand returned unchanged is solved without a Pause)" % (show(bad[0], maxdepth=4)[:160] if bad else ""))


def check_anyo(ctx, lib, rule):
    fn = streams.getfn(ctx, lib, rule, "<crate::operator::anyo::Anyo as crate::solver::Solve>::solve")
    if not fn:
        return
    t = streams.plain_evaluator(lib).fn_term(fn)
    site = site_of(fn)
    key = fn["npath"]
    res = tables.result(t)
    # result: solve(conde(param{body: [[g],[anyo(..)]]}), solver, state)
    ok = res[0] == "call" and suffix_match(res[1], "solve") and len(res[2]) == 3
    inner = res[2][0] if ok else None
    ok = ok and inner[0] == "call" and (suffix_match(inner[1], "conde") or suffix_match(inner[1], "Conde::from_conjunctions") or suffix_match(inner[1], "from_conjunctions"))
    ctx.expect(ok, rule, key + "|conde", site, "Anyo::solve must solve a conde over {g, anyo{g}}; found %s" % show(res, maxdepth=4)[:200])
    if not ok:
        return
    # every re-creation of an Anyo goal is inside the conde argument
    def anyo_sites(term):
        return [c for c in sym.subterms(term) if (c[0] == "call" and (suffix_match(c[1], "anyo") or suffix_match(c[1], "Anyo::new"))) or (c[0] == "struct" and c[1].endswith("Anyo"))]

    all_sites = anyo_sites(t)
    inside = anyo_sites(inner)
    ctx.expect(len(inside) >= 1 and len(all_sites) == len(inside) + 0 * 1 or _only_lets(t, all_sites, inside), rule, key + "|recursion-under-clause", site, "the nested anyo goal must only occur as a clause of the conde (so that it is reached through a Pause)")
    # and Anyo::solve does not call itself or any nested solve besides the conde's
    sync = [c for c in sym.calls(t) if c[1].split("::")[-1] in ("solve", "start", "step")]
    ctx.expect(len([c for c in sync if c is not res and c != res]) == 0, rule, key + "|single-solve", site, "Anyo::solve may only call solve once, on the conde it builds")
    # the two clauses use the goal itself and the recursive anyo
    g = ("field", ("param", 0, sym.ANY), "g")
    uses_g = [s for s in sym.subterms(inner) if s == ("field", ("param", 0, s[1][2] if len(s) > 1 and isinstance(s[1], tuple) and len(s[1]) > 2 else None), "g")]
    ctx.expect(len(uses_g) >= 2, rule, key + "|clauses", site, "the conde must have the clauses g and anyo{g}")


def _only_lets(t, all_sites, inside):
    # let-bound copies of the conde argument duplicate the sites; accept multiples of the inner count
    return len(inside) >= 1 and len(all_sites) % len(inside) == 0


def check_step_is_bounded(ctx, lib, rule):
    """One engine step does a bounded amount of work: Engine::step contains no loop, and resumes a
    suspension with `start*`, never by stepping the result again (a step that runs a branch to
    maturity starves its siblings when that branch diverges)."""
    fn = streams.getfn(ctx, lib, rule, "<crate::stream::StreamEngine as crate::engine::Engine>::step")
    if not fn:
        return
    t = sym.Evaluator(lib, inline=lambda p, f: False).fn_term(fn)
    loops = [s for s in sym.subterms(t) if s[0] in ("loop", "while", "for")]
    ctx.expect(not loops, rule, fn["npath"] + "|no-loop", site_of(fn), "Engine::step must not loop: each call matures at most one suspension (found %d loop(s))" % len(loops))
    eff, m = tables.flatten(t)
    if m and m[0] == "match":
        for p, g, b in m[2]:
            cs = tables.pat_ctors(p)
            if any("Pause" in c or "Delay" in c for c in cs):
                steps = [c for c in sym.calls(b, "step")]
                ctx.expect(not steps, rule, fn["npath"] + "|resume-without-stepping|" + "/".join(c.split("::")[-1] for c in cs), site_of(fn), "resuming a suspension must not step the resumed stream in the same call")


def run(ctx, fb, cfg):
    lib = fb.lib
    R = "C07."
    streams.check_mplus(ctx, lib, BFS, R + "K3.swap")
    streams.check_conde_fold(ctx, lib, R + "K3.conde-delay", BFS)
    check_suspension(ctx, lib, R + "K1.suspension")
    for f in ("crate::operator::conj::Conj::new", "crate::operator::conj::DFSConj::new", "crate::operator::conj::InferredConj::new"):
        check_new_never_identity(ctx, lib, R + "K3.clause-behind-pause", f)
    check_anyo(ctx, lib, R + "K3.anyo")
    # engine resumes: Pause -> start, Delay -> the stream itself
    streams.check_engine_step(ctx, lib, R + "K5.engine-step", [BFS, streams.DFS] if hasattr(streams, "DFS") else [BFS])
    check_step_is_bounded(ctx, lib, R + "K6.step-is-one-step")
    # a closure unfolding is suspended: Closure::solve is eager, so the body the macro puts inside
    # the `move ||` must be a conjunction node (whose solve returns a Pause) - never the bare clause
    if cfg == "lib-default":
        import C14
        import macrolib

        S = macrolib.load_sem(ctx, fb)
        if S is not None:
            a = macrolib.single_alt(ctx, S, R + "K12.closure-suspends", "Closure")
            if a is not None:
                shapes, names, why = C14.CONSTRUCT_TABLE["Closure"]
                macrolib.check_shape(ctx, R + "K12.closure-suspends", "Closure", a, shapes, names, "the closure body is always wrapped in a conjunction builder, even for a single clause (the conjunction's Pause is what suspends a recursive unfolding)")
    streams.check_engine_delay_iter(ctx, lib, R + "K3.engine-delay")
    import builders

    builders.check_all(ctx, lib, R + "K6.builders", only=("Disj", "Conj", "InferredConj"))
    import C13

    C13.check_conde_builder(ctx, lib, R + "K6.conde-builder")
    streams.check_operator_kinds(ctx, lib, R + "K10.operator-search-kind")
    streams.check_disj_solve(ctx, lib, BFS, R + "K3.disj", "<crate::operator::disj::Disj as crate::solver::Solve>::solve")
