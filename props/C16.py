"""C16 - CLP(FD) answers satisfy every posted finite-domain constraint.

Decided (structural):
 * registry: the Constraint impls under relation::clpfd are exactly the types tested in
   State::is_finite_domain (verify_all_bound relies on it);
 * domain plumbing: infd -> process_domain; update_var_domain intersects (empty -> fail);
   a singleton binds the variable, removes the domain and re-runs the store; process_extension_fd
   moves the domain of a bound variable onto its value (C04);
 * every propagator's ground test uses its declared operator (u+v==w, u-v==w, u*v==w, u<=v);
 * posting a constraint runs it on the incoming state;
 * R-STALE: process_domain looks at the *current* value of its operand; run_constraints repeats
   until the substitution stops growing; labeling starts by re-running the store - so a propagator
   that binds one of its own operands is re-examined with that binding.
 (round 5, shared) bindings recorded in the extension under the walked representative (unify_rec table, with
   C01/C22: process_extension_fd looks domains up by extension key); exact set algebra (C18 tables).
"""
import fdrules

NEEDS = {"clpfd"}
EXPLANATION = (
    "Static rules for the CLP(FD) machinery on typed-HIR symbolic terms: registry agreement (impls vs is_finite_domain), domain plumbing tables "
    "(process_domain / update_var_domain / resolve_storable_domain / DomFd), operator of each propagator's ground test, posting runs the constraint, "
    "and the re-examination discipline that makes aliasing operands safe (current-value walk, fixpoint of run_constraints, re-run before labeling)."
)
NOT_DECIDED = "satisfaction of all constraints by all answers of all programs (semantic); decision tables of diseqfd/distinctfd are checked only for their ground verdicts"
TECHNIQUE = "static analysis: registry agreement + typed-HIR tables + must-pass-through rules via rustc_private driver"


def run(ctx, fb, cfg):
    lib = fb.lib
    R = "C16."
    # is_number / get_number / is_var ... mean what the propagator tables assume
    import termkinds

    termkinds.check_term_kinds(ctx, lib, R + "K5.term-kinds")
    fdrules.check_registry(ctx, lib, R + "K11.registry")
    fdrules.check_domfd(ctx, lib, R + "K2K3.domain-plumbing")
    for mod in ("plusfd", "minusfd", "timesfd"):
        fdrules.check_arith_propagator(ctx, lib, R + "K7a.ground-test", mod, what="ground")
    fdrules.check_ltefd(ctx, lib, R + "K7.ltefd")
    fdrules.check_posting(ctx, lib, R + "K3.posting")
    fdrules.check_restale(ctx, lib, R + "K2K3.re-examination")
    fdrules.check_operand_plumbing(ctx, lib, R + "K3.operand-plumbing", only=("plusfd", "minusfd", "timesfd", "ltefd", "diseqfd", "ltfd"))
    fdrules.check_dstore_keys(ctx, lib, R + "K3.domain-store-keys")
    fdrules.check_sorted_search(ctx, lib, R + "K2.sorted-search")
    fdrules.check_distinctfd(ctx, lib, R + "K6.distinctfd-table")
    fdrules.check_diseqfd(ctx, lib, R + "K6.diseqfd-table")
    # a value accepted for a domain variable is checked against the domain found under the *extension's* key:
    # every binding unify_rec adds is recorded in the extension under the walked representative (with C01/C22)
    import C01

    C01.check_unify_rec(ctx, lib, R + "K3K5.unify-rec")
    # the domain a variable keeps after narrowing is computed by the set algebra (shared with C18)
    import C18

    C18.check_algebra_for_propagators(ctx, lib, R)
