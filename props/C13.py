"""C13 - Pattern matching has the documented match / matche / matcha / matchu meaning.

Decided (structural; nothing is expanded or run):

 * arm-block scoping (K12, both PatternMatchOperator templates): each (arm, alternative) becomes its
   own block `{ let __term__ = <matched term>; <one new variable per pattern name>;
   let __pattern__ = <pattern>; [ eq(__term__, __pattern__), <arm body> ] }` - the matched term is
   evaluated *before* the pattern names are bound (so a pattern name equal to a name in the term
   cannot capture it), the pattern *after* (so repeated names denote one variable), and the first
   goal of the arm is the equation;
 * dispatch: `match` -> Conde::from_conjunctions, any other operator name ->
   name(PatternMatchOperatorParam::new(..)) over the *same* arm blocks; in the library matche /
   matcha / matchu hand the arms unchanged to Conde / Conda / Condu::from_conjunctions, and
   Conde::from_conjunctions keeps every arm, in order, as the conjunction of its goals;
 * alignment (typed HIR of the macro crate): the four lists interpolated per arm (patterns, plain
   variables, compound variables, bodies) each get exactly one unconditional push per
   (arm, alternative); the variable set is collected from that alternative only, every collected
   name goes to exactly one of the two variable lists, and the body list holds every clause of the
   arm, cast but otherwise as written;
 * variable collection (K5): get_vars of TreeTerm / Pattern / CompoundPattern / argument types
   reaches every sub-pattern (list items, improper tails, compound arguments);
 * wildcards and compound arguments (K12): `_` is emitted as a *call* creating a new anonymous
   variable at each occurrence, a variable argument as the variable itself.
 (round 4) macro front end only appends (or-pattern alternatives, arms and patterns keep source
   order); Conde::from_array one branch per goal.
 (round 5, shared) the body of a committed arm: Conj builders and Conj::new keep every goal.
"""
import macrolib
import streams
import sym
import tables
import tmplsem
from macrolib import check_shape, payload
from pat import pat
from report import site_of
from sym import show, suffix_match, unify

EXPLANATION = (
    "Template rules (syn-extracted quote! trees of PatternMatchOperator and the pattern argument types) plus typed-HIR rules over the macro "
    "crate's emitter loops, get_vars recursion and the library's matche/matcha/matchu/Conde::from_conjunctions."
)
NOT_DECIDED = "answers of a given match expression against a reference expansion (needs execution); the committed-choice semantics of matcha/matchu is C08's"
TECHNIQUE = "static analysis: syntax-tree rules over quote! templates (syn) + typed-HIR loop/coverage tables via rustc_private driver"

LETS_A = "#(let #vars = NEWVAR(stringify!(#vars));)* #(let #compounds = NEWVAR(stringify!(#compounds));)*"
LETS_B = "#(let #compounds = NEWVAR(stringify!(#compounds));)* #(let #vars = NEWVAR(stringify!(#vars));)*"
ARM = "{ let __term__ = #term; %s let __pattern__ = #patterns; [EQ(__term__, __pattern__), #clauses] }"
ARMS = [ARM % LETS_A, ARM % LETS_B]
MATCH_SHAPES = ["Conde::from_conjunctions([#(%s),*])" % a for a in ARMS]
NAMED_SHAPES = ["#name(PatternMatchOperatorParam::new([#(%s),*]))" % a for a in ARMS]
LISTS = ("patterns", "vars", "compounds", "clauses")


def check_templates(ctx, S):
    R = "C13.K12.arm-block"
    alts = [a for a in S.alts("PatternMatchOperator") if a.kind == "template" and not a.rec.get("loops")]
    inner = [a for a in S.alts("PatternMatchOperator") if a.kind == "template" and a.rec.get("loops")]
    if not ctx.expect(len(alts) == 2, R, "PatternMatchOperator|templates", "macros/src/lib.rs", "expected the `match` template and the named-operator template, found %d" % len(alts)):
        return None
    # which branch is `match`?
    by = {}
    for a in alts:
        if len(a.conds) != 1:
            ctx.violation(R, "PatternMatchOperator|dispatch", a.site, "template is emitted under %s; expected one test of the operator name against \"match\"" % a.conds)
            return None
        c, taken = a.conds[0]
        cc = c.replace(" ", "")
        if '"match"' not in cc or not ("==" in cc or "!=" in cc):
            ctx.violation(R, "PatternMatchOperator|dispatch", a.site, "unrecognised dispatch condition `%s`" % c)
            return None
        is_match = taken if "==" in cc else not taken
        by["match" if is_match else "named"] = a
    if not ctx.expect(set(by) == {"match", "named"}, R, "PatternMatchOperator|dispatch", alts[0].site, "one template must serve `match` and the other every named operator"):
        return None
    names = {"term": "self.term", "name": "self.name"}
    m1 = check_shape(ctx, R, "match", by["match"], MATCH_SHAPES, names, "`match t { p => body }` is the disjunction over arms of { __term__ = t; new pattern variables; t == p; body }")
    m2 = check_shape(ctx, R, "named-operator", by["named"], NAMED_SHAPES, names, "a named pattern operator receives the same arm blocks as `match`")
    bound = None
    for m, a in ((m1, by["match"]), (m2, by["named"])):
        if m is None:
            continue
        locs = [m.bound.get(n) for n in LISTS]
        ok = all(l and l.startswith("local:") for l in locs) and len(set(locs)) == 4
        ctx.expect(ok, R, "%s|four-lists" % ("match" if a is by["match"] else "named-operator"), a.site, "patterns / variables / compound variables / bodies must be four separate per-arm lists; found %s" % locs)
        if ok:
            if bound is None:
                bound = dict(zip(LISTS, [l[6:] for l in locs]))
            else:
                b2 = dict(zip(LISTS, [l[6:] for l in locs]))
                same = bound["patterns"] == b2["patterns"] and bound["clauses"] == b2["clauses"] and {bound["vars"], bound["compounds"]} == {b2["vars"], b2["compounds"]}
                ctx.expect(same, "C13.K12.sibling", "match~named|same-lists", a.site, "both templates must be fed from the same four lists")
    # per-clause template: the clause itself, cast only
    if ctx.expect(len(inner) == 1, R, "arm-clause|template", "macros/src/lib.rs", "expected one per-clause template in the arm loop, found %d" % len(inner)):
        a = inner[0]
        ctx.expect(a.tree[0] == "interp" and a.tree[1].startswith("local:"), R, "arm-clause|as-written", a.site, "each arm clause must be emitted as written (cast only); found `%s`" % tmplsem.show(a.tree)[:120])
    return bound


# ----------------------------------------------------------------------
def _letv_name(t):
    return t[2] if isinstance(t, tuple) and t and t[0] == "letv" else None


def _top_stmts(body):
    return [e for e in tables.stmts_of(body)]


def check_alignment(ctx, mac, bound):
    R = "C13.K6.alignment"
    fn = mac.fns.get("<crate::PatternMatchOperator as crate::quote::ToTokens>::to_tokens")
    if fn is None:
        ctx.violation(R, "anchor-missing|PatternMatchOperator::to_tokens", "macros/src/lib.rs", "emitter not found in the macro crate's facts")
        return
    ctx.fn_seen(fn["npath"])
    site = site_of(fn)
    t = sym.Evaluator(mac, named_lets=True).fn_term(fn)
    eff, _ = tables.flatten(t)
    outer = [e for e in eff if e[0] == "for"]
    if not ctx.expect(len(outer) == 1, R, "loops|outer", site, "expected one loop over the arms, found %d" % len(outer)):
        return
    o = outer[0]
    src, chain = streams.iter_chain(o[1])
    ctx.expect(unify(pat("@0.arms"), src) is not None and not [n for n, _ in chain if n not in streams.ONE_TO_ONE], R, "loops|every-arm", site, "the outer loop must visit every arm of self.arms once, in order; iterates %s" % show(o[1], maxdepth=4))
    ostm = _top_stmts(o[3])
    inner = [e for e in ostm if e[0] == "for"]
    others = [e for e in ostm if e[0] != "for" and not tables.harmless_effect(e)]
    if not ctx.expect(len(inner) == 1 and not others, R, "loops|inner", site, "the arm loop must consist of one loop over the arm's alternatives (nothing hoisted out of it); found %s" % [show(x, maxdepth=3)[:80] for x in others]):
        return
    i = inner[0]
    isrc, ichain = streams.iter_chain(i[1])
    oitem = ("item", o[1])
    ctx.expect(isrc == ("field", oitem, "patterns") and not [n for n, _ in ichain if n not in streams.ONE_TO_ONE], R, "loops|every-alternative", site, "the inner loop must visit every alternative of the arm (arm.patterns) once, in order; iterates %s" % show(i[1], maxdepth=4))
    iitem = ("item", i[1])
    stm = _top_stmts(i[3])
    pushes = {}
    for e in stm:
        if e[0] == "call" and suffix_match(e[1], "Vec::push") and _letv_name(e[2][0]):
            pushes.setdefault(_letv_name(e[2][0]), []).append(e)
    # every push to one of the four lists anywhere in the function
    allp = {}
    for c in set(sym.calls(t, "Vec::push")):
        n = _letv_name(c[2][0])
        if n:
            allp.setdefault(n, set()).add(c)
    names = bound or dict(zip(LISTS, LISTS))
    good = True
    for role in LISTS:
        n = names[role]
        k = "list=%s" % role
        ok = len(pushes.get(n, [])) == 1 and len(allp.get(n, ())) == 1
        good &= ctx.expect(ok, R, k + "|one-push-per-alternative", site, "list `%s` must receive exactly one unconditional push per (arm, alternative): %d at the top of the alternative loop, %d in the whole function" % (n, len(pushes.get(n, [])), len(allp.get(n, ()))))
    if not good:
        return
    pv = None
    # patterns: the alternative itself
    p = pushes[names["patterns"]][0]
    ctx.expect(p[2][1] == iitem, R, "list=patterns|content", site, "the pattern list must hold the alternative itself; pushes %s" % show(p[2][1], maxdepth=4))
    # variable set: fresh per alternative, filled from that alternative only
    gv = [e for e in stm if e[0] == "call" and suffix_match(e[1], "get_vars")]
    okgv = len(gv) == 1 and gv[0][2][0] == iitem and _letv_name(gv[0][2][1]) is not None
    if okgv:
        pv = gv[0][2][1]
        decl = [e for e in stm if e[0] == "let" and e[1][0] == "pbind" and e[1][1] == pv[1]]
        okgv = len(decl) == 1 and len(set(c for c in sym.calls(t, "get_vars") if c[2][1][:2] == pv[:2])) == 1
    ctx.expect(okgv, R, "pattern-vars|per-alternative", site, "the pattern variable set must be created inside the alternative loop and filled by get_vars of that alternative only (names of other alternatives would otherwise shadow outer variables)")
    if pv is not None:
        va = pushes[names["vars"]][0][2][1]
        vb = pushes[names["compounds"]][0][2][1]
        okp = _letv_name(va) is not None and _letv_name(vb) is not None and va[:2] != vb[:2]
        # partition: a loop over the set whose two branches push the element to the two lists
        part = [c for c in set(sym.calls(i[3], "for_each")) if any(s[:2] == pv[:2] for s in sym.subterms(c[2][0]))]
        fors = [s for s in sym.subterms(i[3]) if s[0] == "for" and any(x[:2] == pv[:2] for x in sym.subterms(s[1]))]
        okpart = False
        if okp and (part or fors):
            if part:
                clo = part[0][2][1]
                body = clo[3] if clo[0] == "closure" else None
                elem = ("cparam", clo[1], 0) if clo[0] == "closure" else None
            else:
                body = fors[0][3]
                elem = ("item", fors[0][1])
            ifs = [s for s in sym.subterms(body) if s[0] == "if" and s[3] is not None] if body else []
            if len(ifs) >= 1:
                f = ifs[0]
                pa = [c for c in sym.calls(f[2], "Vec::push")]
                pb = [c for c in sym.calls(f[3], "Vec::push")]
                okpart = len(set(pa)) == 1 and len(set(pb)) == 1 and pa[0][2][1] == elem and pb[0][2][1] == elem and {pa[0][2][0][:2], pb[0][2][0][:2]} == {va[:2], vb[:2]}
                okpart = okpart and any(suffix_match(c[1], "is_compound") or suffix_match(c[1], "contains") for c in sym.calls(f[1]))
        ctx.expect(okp and okpart, R, "pattern-vars|partition", site, "every collected pattern name must go to exactly one of the two variable lists (compound-typed or plain)")
    # bodies: every clause of the arm
    cl = pushes[names["clauses"]][0][2][1]
    okc = _letv_name(cl) is not None
    if okc:
        fors = [s for s in stm if s[0] == "for"]
        okc = False
        for f in fors:
            fsrc, fchain = streams.iter_chain(f[1])
            if fsrc == ("field", oitem, "body") and not [n for n, _ in fchain if n not in streams.ONE_TO_ONE]:
                ps = [e for e in _top_stmts(f[3]) if e[0] == "call" and suffix_match(e[1], "push") and e[2][0][:2] == cl[:2]]
                allc = set(c for c in sym.calls(t, "push") if c[2][0][:2] == cl[:2])
                extra = [e for e in _top_stmts(f[3]) if e[0] in ("if", "match", "continue", "break", "ret")]
                okc = len(ps) == 1 and len(allc) == 1 and not extra
    ctx.expect(okc, R, "list=clauses|content", site, "the body list of an alternative must hold every clause of its arm (arm.body), one entry per clause, in order")


# ----------------------------------------------------------------------
GET_VARS = {
    # function -> (kind, details)
    "crate::TreeTerm::get_vars": None,
    "crate::InnerTreeTerm::get_vars": "TreeTerm::get_vars(@0.0, @1)",
    "crate::Pattern::get_vars": None,
    "crate::CompoundPattern::get_vars": None,
    "crate::UnnamedCompoundPattern::get_vars": ("args", "CompoundArgument::get_vars"),
    "crate::NamedCompoundPattern::get_vars": ("args", "NamedCompoundArgument::get_vars"),
    "crate::CompoundArgument::get_vars": ("pattern", None),
    "crate::NamedCompoundArgument::get_vars": ("pattern", None),
}


def check_get_vars(ctx, mac):
    R = "C13.K5.var-collection"
    ev = sym.Evaluator(mac)
    found = 0
    for name, spec in GET_VARS.items():
        fn = mac.fns.get(name)
        if fn is None:
            ctx.violation(R, "anchor-missing|%s" % name, "macros/src/lib.rs", "variable collector not found")
            continue
        found += 1
        ctx.fn_seen(name)
        site = site_of(fn)
        t = ev.fn_term(fn)
        if name == "crate::TreeTerm::get_vars":
            eff, m = tables.flatten(t)
            if not ctx.expect(m and m[0] == "match" and m[1][:2] == ("param", 0), R, name + "|shape", site, "expected a match on self"):
                continue
            arms = tables.arms_of(m)
            var = tables.find_arm(m, "TreeTerm::Var")
            ok = len(var) == 1 and any(suffix_match(c[1], "insert") and c[2][0][:2] == ("param", 1) and c[2][1] == ("proj", m[1], c[2][1][2] if len(c[2][1]) > 2 else None, 0) for c in sym.calls(var[0][2]))
            ctx.expect(ok, R, name + "|variant=Var", site, "a variable in a pattern must be added to the set")
            for v in ("ProperList", "ImproperList"):
                a = tables.find_arm(m, "TreeTerm::" + v)
                ok = len(a) == 1
                if ok:
                    fors = [s for s in sym.subterms(a[0][2]) if s[0] == "for"]
                    ok = len(fors) == 1
                    if ok:
                        f = fors[0]
                        fsrc, fchain = streams.iter_chain(f[1])
                        ok = fsrc[0] == "proj" and fsrc[1] == m[1] and fsrc[3] == "items" and not [n for n, _ in fchain if n not in streams.ONE_TO_ONE]
                        rec = [c for c in sym.calls(f[3], "get_vars") if ("item", f[1]) in list(sym.subterms(c[2][0])) and c[2][1][:2] == ("param", 1)]
                        skip = [s for s in sym.subterms(f[3]) if s[0] in ("continue", "break", "ret", "if", "match")]
                        ok = ok and len(set(rec)) == 1 and not skip
                ctx.expect(ok, R, name + "|variant=%s" % v, site, "every item of a %s pattern (including an improper tail) must be searched for variables" % v)
        elif name == "crate::InnerTreeTerm::get_vars":
            ctx.expect(unify(pat(spec), tables.result(t)) is not None and not tables.semis(t), R, name + "|delegates", site, "must delegate to the wrapped term; found %s" % show(t, maxdepth=4))
        elif name in ("crate::Pattern::get_vars", "crate::CompoundPattern::get_vars"):
            eff, m = tables.flatten(t)
            if not ctx.expect(m and m[0] == "match" and m[1][:2] == ("param", 0), R, name + "|shape", site, "expected a match on self"):
                continue
            enum = name.split("::")[1]
            variants = {"Pattern": ("Term", "Compound"), "CompoundPattern": ("Unnamed", "Named")}[enum]
            for v in variants:
                a = tables.find_arm(m, "%s::%s" % (enum, v))
                ok = len(a) == 1
                if ok:
                    r = tables.result(a[0][2])
                    ok = r[0] == "call" and suffix_match(r[1], "get_vars") and r[2][0][0] == "proj" and r[2][0][1] == m[1] and r[2][1][:2] == ("param", 1)
                ctx.expect(ok, R, name + "|variant=%s" % v, site, "%s::%s must pass its payload on to get_vars" % (enum, v))
        elif spec[0] == "args":
            fors = [s for s in sym.subterms(t) if s[0] == "for"]
            ok = len(fors) == 1
            if ok:
                f = fors[0]
                fsrc, fchain = streams.iter_chain(f[1])
                names = [n for n, _ in fchain]
                ok = any(s == ("field", ("param", 0, "self"), "arguments") for s in sym.subterms(f[1])) and not [n for n in names if n not in streams.ONE_TO_ONE and n not in ("unwrap", "as_ref", "iter")]
                rec = [c for c in sym.calls(f[3], "get_vars") if c[2][0] == ("item", f[1]) and c[2][1][:2] == ("param", 1)]
                skip = [s for s in sym.subterms(f[3]) if s[0] in ("continue", "break", "ret", "if", "match")]
                ok = ok and len(set(rec)) == 1 and not skip
            ctx.expect(ok, R, name + "|every-argument", site, "every argument of a compound pattern must be searched for variables")
        else:
            st = tables.stmts_of(t)
            first = st[0] if st else None
            ok = first is not None and first[0] == "call" and suffix_match(first[1], "Pattern::get_vars") and first[2][0] == ("field", ("param", 0, "self"), "pattern") and first[2][1][:2] == ("param", 1)
            ctx.expect(ok, R, name + "|pattern", site, "a compound argument must pass its pattern on to get_vars unconditionally")
    ctx.floor(R, found, 8, "get_vars collectors")


# ----------------------------------------------------------------------
ARG_TABLE = {
    # (outer ctor, inner ctor/guard) -> expected shape with names
    "Var": (["#x"], {"x": payload("TreeTerm", "Var")}),
    "Any": (["WILD()"], {}),
}


def check_arguments(ctx, S):
    R = "C13.K12.pattern-arguments"
    n = 0
    for ty, named in (("CompoundArgument", False), ("NamedCompoundArgument", True), ("UnnamedCompoundConstructorArgument", False), ("NamedCompoundConstructorArgument", True), ("TupleCompoundConstructorArgument", False)):
        for a in S.alts(ty):
            if len(a.arms) < 2:
                # catch-all over non-term patterns: delegate to the pattern itself
                want = ["{#i; #c; #p}"] if named else ["#p"]
                if a.kind == "delegate" or named:
                    m = check_shape(ctx, R, "%s|other-pattern" % ty, a, want, {"i": "self.ident", "c": "self.colon_token", "p": "self.pattern"}, "a nested pattern argument is emitted as that pattern")
                    n += 1
                continue
            inner = tmplsem.arm_ctor(a.arms[1])
            key = "%s|%s" % (ty, inner.split("::")[-1] if inner != "_" else "other-term")
            if inner == "TreeTerm::Var":
                body = "#x"
                names = {"x": payload("TreeTerm", "Var")}
            elif inner == "TreeTerm::Any":
                body = "WILD()"
                names = {}
            elif inner.startswith("_bind:"):
                # `term if term.is_empty()` -> the compound "none" value
                g = a.guards[1].replace(" ", "") if len(a.guards) > 1 else ""
                if not ctx.expect(g.endswith(".is_empty()"), R, key + "|guard", a.site, "unrecognised guarded arm `%s if %s`" % (a.arms[1], g)):
                    continue
                body = "CompoundTerm::new_none()"
                names = {}
                key = "%s|empty-list" % ty
            else:
                body = "#t"
                names = {"t": payload("Pattern", "Term")}
            names.update({"i": "self.ident", "c": "self.colon_token"})
            want = ["{#i; #c; %s}" % body] if named else [body]
            check_shape(ctx, R, key, a, want, names, "compound argument form %s" % inner)
            n += 1
    ctx.floor(R, n, 20, "pattern / constructor argument emissions")
    # compound pattern heads: path applied to all arguments in order
    RH = "C13.K12.compound-pattern"
    for ty, shape_args, shape_none in (
        ("UnnamedCompoundPattern", "#p(#(#a),*)", "#p"),
        ("NamedCompoundPattern", "#p{#(#a),*}", "#p{}"),
        ("UnnamedCompoundConstructor", "#p(#(#a),*)", "#p"),
        ("NamedCompoundConstructor", "#p{#(#a),*}", "#p{}"),
    ):
        alts = [a for a in S.alts(ty) if a.kind == "template"]
        ctx.floor(RH, len(alts), 2, "%s templates" % ty)
        for a in alts:
            if len(a.conds) != 1 or a.conds[0][0].replace(" ", "") != "self.arguments.is_some()":
                ctx.violation(RH, "%s|cond" % ty, a.site, "unrecognised condition %s" % a.conds)
                continue
            has = a.conds[0][1]
            check_shape(ctx, RH, "%s|%s" % (ty, "with-arguments" if has else "no-arguments"), a, shape_args if has else shape_none, {"p": "self.compound_path", "a": "self.arguments"}, "a compound pattern is its constructor applied to all argument patterns in order")
            macrolib.check_adaptors(ctx, "C13.K12.list-discipline", ty + ("|args" if has else "|none"), a)
    for ty, enum in (("Pattern", "Pattern"), ("CompoundPattern", "CompoundPattern"), ("CompoundConstructor", "CompoundConstructor")):
        tab = macrolib.by_variant(S, ty, enum)
        for v in S.variants(enum):
            alts = tab.get(v, [])
            ctx.expect(len(alts) == 1 and alts[0].tree == ("interp", payload(enum, v)), RH, "%s|variant=%s" % (ty, v), alts[0].site if alts else "macros/src/lib.rs", "%s::%s must emit its payload" % (enum, v))


# ----------------------------------------------------------------------
def check_library(ctx, lib):
    R = "C13.K3.dispatch"
    ev = streams.plain_evaluator(lib)
    for fnname, want in (
        ("crate::operator::matche::matche", "Conde::from_conjunctions(@0.arms)"),
        ("crate::operator::matcha::matcha", "Conda::from_conjunctions(@0.arms)"),
        ("crate::operator::matchu::matchu", "Condu::from_conjunctions(@0.arms)"),
    ):
        fn = streams.getfn(ctx, lib, R, fnname)
        if fn:
            t = ev.fn_term(fn)
            r = tables.result(t)
            if r[0] == "field" and r[2] == "goal":
                r = r[1]
            ctx.expect(unify(pat(want), r) is not None and not tables.semis(t), R, fn["npath"] + "|delegates", site_of(fn), "must be %s on the unchanged arms; found %s" % (want, show(t, maxdepth=4)[:200]))
    check_conde_builder(ctx, lib, "C13.K6.conde-builder")
    # matcha / matchu "apply the committed-choice rules of C08 to the same arms" (rules shared with C08)
    import C08

    C08.check_solve(ctx, lib, "C13.K3.matcha-commits", "Conda", "peek")
    C08.check_solve(ctx, lib, "C13.K3.matchu-commits", "Condu", "trunc")
    C08.check_builder(ctx, lib, "C13.K6.commit-builder", "Conda")
    C08.check_builder(ctx, lib, "C13.K6.commit-builder", "Condu")
    # the body of a committed arm is the conjunction Conj::from_vec folds with Conj::new: every goal kept
    import builders

    builders.check_all(ctx, lib, "C13.K6.builders", only=("Conj", "InferredConj"))
    streams.check_conj_new(ctx, lib, "C13.K6.conj-new", "crate::operator::conj::Conj::new", "Goal", "Conj")
    streams.check_conj_new(ctx, lib, "C13.K6.conj-new", "crate::operator::conj::InferredConj::new", "G", "InferredConj")


def check_conde_builder(ctx, lib, RB):
    """Conde::from_conjunctions: one conjunction per arm, all arms, in order."""
    ev = streams.plain_evaluator(lib)
    fn = streams.getfn(ctx, lib, RB, "crate::operator::conde::Conde::from_conjunctions")
    if fn:
        t = sym.Evaluator(lib, named_lets=True, extra_identity=streams.GOAL_CAST).fn_term(fn)
        key = fn["npath"]
        site = site_of(fn)
        eff, res = tables.flatten(t)
        fors = [e for e in eff if e[0] == "for"]
        others = [e for e in eff if e[0] not in ("for", "let") and not tables.harmless_effect(e)]
        ok = len(fors) == 1 and not others
        if ctx.expect(ok, RB, key + "|shape", site, "expected `v = []; for arm in arms { v.push(conjunction(arm)) }; Conde(v)` with no other path; extra statements: %s" % [show(o, maxdepth=3)[:100] for o in others]):
            f = fors[0]
            src, chain = streams.iter_chain(f[1])
            ctx.expect(src[:2] == ("param", 0) and not [n for n, _ in chain if n not in streams.ONE_TO_ONE], RB, key + "|every-arm", site, "every arm must be visited once, in order; iterates %s" % show(f[1], maxdepth=3))
            st = [e for e in tables.stmts_of(f[3]) if not tables.harmless_effect(e)]
            ok = len(st) == 1 and st[0][0] == "call" and suffix_match(st[0][1], "push") and st[0][2][0][0] == "letv"
            if ok:
                v = st[0][2][0]
                conj = st[0][2][1]
                while (conj[0] == "field" and conj[2] == "goal") or conj[0] == "letv":
                    conj = conj[1] if conj[0] == "field" else conj[3]
                ok = conj[0] == "call" and (suffix_match(conj[1], "InferredConj::from_array") or suffix_match(conj[1], "Conj::from_array")) and conj[2][0] == ("item", f[1])
                # result: Conde over exactly that vector
                nodes = [s for s in sym.subterms(res) if s[0] == "struct" and suffix_match(s[1], "conde::Conde")]
                ok = ok and len(nodes) == 1 and dict(nodes[0][2]).get("conjunctions", (0, 0))[:2] == v[:2]
                rets = [s for s in sym.subterms(t) if s[0] == "ret"]
                ok = ok and not rets
            ctx.expect(ok, RB, key + "|arm-conjunction", site, "each arm must become the conjunction of its goals (from_array) and the disjunction must hold exactly those; found %s" % show(f[3], maxdepth=6)[:240])
    fn = streams.getfn(ctx, lib, RB, "crate::operator::conde::Conde::from_vec")
    if fn:
        t = ev.fn_term(fn)
        nodes = [s for s in sym.subterms(t) if s[0] == "struct" and suffix_match(s[1], "conde::Conde")]
        ok = len(nodes) == 1 and dict(nodes[0][2]).get("conjunctions", (0, 0))[:2] == ("param", 0) and not [s for s in sym.subterms(t) if s[0] in ("if", "match", "ret")]
        ctx.expect(ok, RB, fn["npath"] + "|keeps-all", site_of(fn), "Conde::from_vec must keep the clause vector as given")
    fn = streams.getfn(ctx, lib, RB, "crate::operator::conde::Conde::from_array")
    if fn:
        t = ev.fn_term(fn)
        nodes = [s for s in sym.subterms(t) if s[0] == "struct" and suffix_match(s[1], "conde::Conde")]
        ok = len(nodes) == 1 and not [s for s in sym.subterms(t) if s[0] in ("if", "match", "ret", "for")]
        if ok:
            c = dict(nodes[0][2]).get("conjunctions", (0,))
            src, chain = streams.iter_chain(c)
            # goals.to_vec() / goals.iter().cloned().collect(): one branch per listed goal
            ok = src[:2] == ("param", 0) and all(n in streams.ONE_TO_ONE or n in ("to_vec", "collect") for n, _ in chain)
        ctx.expect(ok, RB, fn["npath"] + "|one-branch-per-goal", site_of(fn), "Conde::from_array(&[g1, .., gn]) is the disjunction with exactly the branches g1 .. gn (not one conjunction of them); found %s" % show(t, maxdepth=6)[:200])


def run(ctx, fb, cfg):
    if cfg != "lib-default":
        check_library(ctx, fb.lib)
        return
    S = macrolib.load_sem(ctx, fb)
    if S is None:
        return
    bound = check_templates(ctx, S)
    check_arguments(ctx, S)
    mac = fb.macros
    if mac is None:
        ctx.violation("C13.K6.alignment", "anchor-missing|macro crate facts", "macros/src/lib.rs", "no typed-HIR facts for proto_vulcan_macros")
    else:
        check_alignment(ctx, mac, bound)
        check_get_vars(ctx, mac)
        macrolib.check_sequence_ops(ctx, mac, "C13.K6.front-end-only-appends")
    check_library(ctx, fb.lib)
