"""C20 - Compound terms unify, constrain, reify and label structurally.

Decided (structural):
 * treated like list elements everywhere (K5): every structural recursion over LTermInner that has
   a `Cons` arm has a `Compound` arm that visits *all* children (table shared with C03/C17), and the
   reifying map is threaded through all children;
 * unification (K2/K5): same type id, children pairwise, arity and kind mismatches fail, compound vs
   list/literal hits the failing fallback (rules shared with C01), occurs check enters compounds;
 * derive output is field-complete (K12/K10 on make_compound_unnamed_struct /
   make_compound_named_struct): inside each, the generated impls Clone, CompoundObject::children,
   CompoundWalkStar, Hash, PartialEq, Debug of the inner struct all repeat over the *same* field
   list (built from the struct's fields with no filtering adaptor); `eq` compares field i of self
   with field i of other; the wrapper struct delegates children / walk_star / Hash / PartialEq /
   as_term to its inner term; type_name is the struct's name; both derive functions generate the
   same set of impls;
 * library impls (K3): `(LTerm, LTerm)` lists and walks both components; `Option<T>` lists/walks its
   payload and becomes the empty list when `None`; an `LTerm` used as a field is a term child whose
   children are those of its compound; compound_eq compares only same-typed objects.
 (round 4/5) Option<T>::into: a payload that already is a term is upcast to the term itself (F18) + census of
   the sites that wrap an object as a compound term; hashing feeds only the caller's hasher (no RandomState /
   DefaultHasher / finish in the library); is_term = as_term().is_some(); Conj::from_iter; what an answer reports
   for a compound value (constraints() / operands, with C03).
"""
import C01
import C03
import macrolib
import streams
import sym
import tables
import tmpl
import tmplsem
import traversal
from pat import pat
from report import site_of
from sym import ANY, AnyOf, P, show, suffix_match, unify

EXPLANATION = (
    "Variant-coverage table over every LTermInner traversal (typed HIR), unification / occurs-check rules for compound objects, "
    "field-completeness and sibling agreement of the #[compound] derive templates (syn-extracted quote! trees), and provenance tables for the library's "
    "CompoundObject impls (tuple, Option, LTerm)."
)
NOT_DECIDED = "equivalence with tagged-list encodings on all programs (needs execution)"
TECHNIQUE = "static analysis: variant-coverage + provenance tables on typed HIR via rustc_private driver + syntax-tree rules over derive templates (syn)"

FIELD_ADAPTORS_OK = {"iter", "enumerate", "map(?)", "map-field", "collect", "cloned", "into_iter"}
INNER_FIELDWISE = (("Clone", "clone"), ("CompoundObject", "children"), ("CompoundWalkStar", "compound_walk_star"), ("Hash", "hash"), ("PartialEq", "eq"), ("Debug", "fmt"))


def _field_nodes(tree, fields_origin):
    """All `X.#fields` nodes: returns list of base nodes X."""
    out = []
    for n in tmpl.walk(tree):
        if isinstance(n, tuple) and n and n[0] == "field" and n[2] == ("interp", fields_origin):
            out.append(n[1])
    return out


def check_derive(ctx, S):
    R = "C20.K12.derive-fields"
    RW = "C20.K12.derive-wrapper"
    sets = {}
    for fname in ("make_compound_unnamed_struct", "make_compound_named_struct"):
        ts = S.fn_templates(fname)
        if not ctx.expect(len(ts) == 1, R, "%s|template" % fname, "macros/src/lib.rs", "expected one derive template in %s, found %d" % (fname, len(ts))):
            continue
        rec = ts[0]
        site = "macros/src/lib.rs:%d" % rec["line"]
        fns = tmplsem.generated_fns(rec)
        inner = [g for g in fns if "inner_ident" in g.self_ty.replace(" ", "")]
        wrap = [g for g in fns if "struct_name" in g.self_ty.replace(" ", "") and "inner_ident" not in g.self_ty.replace(" ", "")]
        sets[fname] = sorted(("inner" if g in inner else "wrapper", g.trait, g.name) for g in fns)
        ctx.count("generated_fns:%s" % fname, len(fns))
        # the field list
        clone = [g for g in inner if (g.trait, g.name) == ("Clone", "clone")]
        if not ctx.expect(len(clone) == 1 and len(clone[0].reps()) == 1 and len(clone[0].reps()[0][1]) == 1, R, "%s|field-list" % fname, site, "cannot identify the field list from the generated Clone impl"):
            continue
        F = list(clone[0].reps()[0][1])[0]
        fo = clone[0].origins.get(F)
        bad = [a for a in (fo.adaptors if fo else ["?"]) if a.split("[")[0] not in FIELD_ADAPTORS_OK]
        ctx.expect(fo is not None and ".fields" in F and not bad, R, "%s|field-list-complete" % fname, site, "the field list must be built from all of the struct's fields in order (no filter/skip/take/rev); origin %s adaptors %s" % (F, fo.adaptors if fo else None))
        for tr, fn in INNER_FIELDWISE:
            g = [x for x in inner if (x.trait, x.name) == (tr, fn)]
            key = "%s|%s::%s" % (fname, tr, fn)
            if not ctx.expect(len(g) == 1, R, key + "|generated", site, "the inner struct must get exactly one %s::%s, found %d" % (tr, fn, len(g))):
                continue
            g = g[0]
            reps = g.reps()
            ok = len(reps) == 1 and reps[0][1] == {F}
            ctx.expect(ok, R, key + "|over-all-fields", site, "%s::%s must repeat over the one field list %s exactly once; repetition groups: %s" % (tr, fn, F, [sorted(o) for _, o in reps]))
            if not ok:
                continue
            rep = reps[0][0]
            bases = _field_nodes(rep[1], F)
            if fn == "eq":
                calls = [n for n in tmpl.walk(rep[1]) if isinstance(n, tuple) and n and n[0] == "call" and n[1][0] == "path" and tmplsem.path_endswith(n[1][1], "PartialEq::eq")]
                okq = len(calls) == 1 and calls[0][2] == [("field", ("path", "self"), ("interp", F)), ("field", ("path", "other"), ("interp", F))] or (len(calls) == 1 and calls[0][2] == [("field", ("path", "other"), ("interp", F)), ("field", ("path", "self"), ("interp", F))])
                conj = [n for n in tmpl.walk(rep[1]) if isinstance(n, tuple) and n and n[0] == "binary" and n[2].replace(" ", "") == "&&"]
                tail = g.tree[2] if g.tree[0] == "block" else None
                ctx.expect(okq and len(conj) == 1 and tail == ("path", "true"), R, key + "|pairwise", site, "eq must be the conjunction over all fields of eq(self.f, other.f) (same field on both sides), ending in true; found %s" % tmplsem.show(g.tree)[:240])
            elif fn == "hash":
                calls = [n for n in tmpl.walk(rep[1]) if isinstance(n, tuple) and n and n[0] == "call" and n[1][0] == "path" and tmplsem.path_endswith(n[1][1], "Hash::hash")]
                ctx.expect(len(calls) == 1 and calls[0][2] == [("field", ("path", "self"), ("interp", F)), ("path", "state")], R, key + "|each-field", site, "hash must feed every field into the hasher; found %s" % tmplsem.show(g.tree)[:200])
            elif fn == "children":
                t = g.tree
                ok2 = t[0] == "method" and t[2] == "into_iter" and t[1][0] == "array" and len(t[1][1]) == 1 and t[1][1][0][0] == "rep" and bases == [("path", "self")]
                ctx.expect(ok2, R, key + "|lists-each-field", site, "children must list every field of self, in declaration order; found %s" % tmplsem.show(t)[:200])
            elif fn == "compound_walk_star":
                ms = [n for n in tmpl.walk(rep[1]) if isinstance(n, tuple) and n and n[0] == "method" and n[2] == "compound_walk_star"]
                ok2 = len(ms) == 1 and ms[0][1] == ("field", ("path", "self"), ("interp", F)) and ms[0][3] == [("path", "smap")]
                ctx.expect(ok2 and g.tree[0] in ("call", "struct"), R, key + "|walks-each-field", site, "compound_walk_star must rebuild the struct from every field walked in the given substitution; found %s" % tmplsem.show(g.tree)[:200])
            elif fn == "clone":
                ctx.expect(bases == [("path", "self")] and g.tree[0] in ("call", "struct"), R, key + "|copies-each-field", site, "clone must copy every field; found %s" % tmplsem.show(g.tree)[:200])
        # type name
        for who in (inner, wrap):
            g = [x for x in who if (x.trait, x.name) == ("CompoundObject", "type_name")]
            if ctx.expect(len(g) == 1, R, "%s|type_name|%s" % (fname, "inner" if who is inner else "wrapper"), site, "type_name must be generated once"):
                t = g[0].tree
                ok = t[0] == "macro" and t[1] == "stringify" and len(t[2]) == 1 and t[2][0][0] == "interp" and t[2][0][1].endswith("itemstruct.ident")
                ctx.expect(ok, R, "%s|type_name|%s|is-struct-name" % (fname, "inner" if who is inner else "wrapper"), site, "type_name must be the name of the annotated struct; found %s" % tmplsem.show(t))
        # wrapper delegation
        W = {
            ("CompoundObject", "children"): "self.inner.children()",
            ("CompoundObject", "as_term"): "Some(self.inner)",
            ("PartialEq", "eq"): "PartialEq::eq(self.inner, other.inner)",
            ("Hash", "hash"): "{ Hash::hash(self.inner, state); }",
            ("CompoundTerm", "new_var"): "#s { inner: LTerm::var(name) }",
            ("CompoundTerm", "new_wildcard"): "#s { inner: LTerm::any() }",
            ("CompoundTerm", "new_none"): "#s { inner: LTerm::empty_list() }",
            ("CompoundWalkStar", "compound_walk_star"): "#s { inner: self.inner.compound_walk_star(smap) }",
        }
        for (tr, fn), shape in W.items():
            g = [x for x in wrap if (x.trait, x.name) == (tr, fn)]
            key = "%s|wrapper|%s::%s" % (fname, tr, fn)
            if not ctx.expect(len(g) == 1, RW, key + "|generated", site, "the wrapper struct must get exactly one %s::%s, found %d" % (tr, fn, len(g))):
                continue
            m = macrolib.SymMatcher({"s": [o for o in g[0].origins if o.endswith("itemstruct.ident")] or ["?"]}, macrolib.CLASSES)
            ok = m.match(tmplsem.expected(shape), g[0].tree)
            ctx.expect(ok, RW, key + "|delegates", site, "wrapper %s::%s must be `%s`; found `%s` (%s)" % (tr, fn, shape, tmplsem.show(g[0].tree)[:200], m.why))
        # into LTerm
        gi = [x for x in inner if x.name == "into" and "LTerm" in x.header and "struct_name" not in x.header.split(" for ")[0]]
        if ctx.expect(len(gi) == 1, RW, "%s|inner-into-lterm" % fname, site, "the inner struct must convert into an LTerm once"):
            t = gi[0].tree
            ok = t[0] == "call" and t[1][0] == "path" and tmplsem.path_endswith(t[1][1], "LTerm::from") and t[2] and t[2][0] == ("path", "self")
            ctx.expect(ok, RW, "%s|inner-into-lterm|wraps-self" % fname, site, "the compound term must wrap the object itself; found %s" % tmplsem.show(t)[:160])
    if len(sets) == 2:
        a, b = sets["make_compound_unnamed_struct"], sets["make_compound_named_struct"]
        ctx.expect(a == b, "C20.K12.derive-siblings", "unnamed~named|same-impls", "macros/src/lib.rs", "tuple-like and named #[compound] structs must get the same impls; only in one: %s" % sorted(set(a) ^ set(b)))
        ctx.floor("C20.K12.derive-siblings", len(a), 25, "generated functions per derive template")


def check_library(ctx, lib):
    R = "C20.K3.library-impls"
    ev = sym.Evaluator(lib)

    def fnof(path):
        return streams.getfn(ctx, lib, R, path)

    fn = fnof("<(crate::lterm::LTerm, crate::lterm::LTerm) as crate::compound::CompoundObject>::children")
    if fn:
        t = ev.fn_term(fn)
        arrs = [s for s in sym.subterms(t) if s[0] in ("array", "tuple") and len(s[1]) == 2]
        ok = any([x if x[0] != "cast" else x[1] for x in a[1]] == [("field", ("param", 0, "self"), "0"), ("field", ("param", 0, "self"), "1")] for a in arrs)
        ctx.expect(ok, R, "tuple|children", site_of(fn), "a pair's children are its two components, in order; found %s" % show(t, maxdepth=6)[:200])
    fn = fnof("<(crate::lterm::LTerm, crate::lterm::LTerm) as crate::compound::CompoundWalkStar>::compound_walk_star")
    if fn:
        t = ev.fn_term(fn)
        r = tables.result(t)
        want = ("tuple", (("call", P("walk_star"), (("param", 1, ANY), ("field", ("param", 0, ANY), "0"))), ("call", P("walk_star"), (("param", 1, ANY), ("field", ("param", 0, ANY), "1")))))
        want2 = ("tuple", (("call", P("walk_star"), (("field", ("param", 0, ANY), "0"), ("param", 1, ANY))), ("call", P("walk_star"), (("field", ("param", 0, ANY), "1"), ("param", 1, ANY)))))
        ctx.expect(unify(AnyOf(want, want2), r) is not None, R, "tuple|walk_star", site_of(fn), "a pair is walked component-wise in the same substitution; found %s" % show(r, maxdepth=6)[:200])
    fn = fnof("<std::option::Option as crate::compound::CompoundObject>::children") or None
    if fn:
        t = ev.fn_term(fn)
        r = tables.result(t)
        src, chain = streams.iter_chain(r)
        names = [n for n, _ in chain]
        ok = src[:2] == ("param", 0) and not [n for n in names if n not in streams.ONE_TO_ONE]
        maps = [c for n, c in chain if n == "map"]
        if maps:
            clo = maps[0][2][1]
            body = tables.result(clo[3]) if clo[0] == "closure" else None
            ok = ok and body is not None and (body == ("cparam", clo[1], 0) or (body[0] == "cast" and body[1] == ("cparam", clo[1], 0)))
        ctx.expect(ok, R, "Option|children", site_of(fn), "Some(x) has the one child x, None has none; found %s" % show(r, maxdepth=6)[:200])
    fn = fnof("<std::option::Option as crate::compound::CompoundWalkStar>::compound_walk_star")
    if fn:
        t = ev.fn_term(fn)
        r = tables.result(t)
        ok = r[0] == "call" and suffix_match(r[1], "Option::map") and r[2][0][:2] == ("param", 0) and r[2][1][0] == "closure"
        if ok:
            clo = r[2][1]
            body = tables.result(clo[3])
            ok = body[0] == "call" and suffix_match(body[1], "compound_walk_star") and body[2][0] == ("cparam", clo[1], 0) and body[2][1][:2] == ("param", 1)
        ctx.expect(ok, R, "Option|walk_star", site_of(fn), "an Option is walked through its payload in the same substitution; found %s" % show(r, maxdepth=6)[:200])
    fn = fnof("crate::compound<impl std::convert::Into<crate::lterm::LTerm> for std::option::Option>::into")
    if fn:
        t = ev.fn_term(fn)
        eff, m = tables.flatten(t)
        ok = m and m[0] == "match" and m[1][:2] == ("param", 0)
        if ok:
            some = tables.find_arm(m, "Some")
            none = tables.find_arm(m, "None")
            ok = len(some) == 1 and len(none) == 1
            if ok:
                rs = tables.result(some[0][2])
                ok = any(s == ("proj", m[1], s[2], 0) for s in sym.subterms(rs) if s[0] == "proj") and any(suffix_match(c[1], "LTermInner::Compound") for c in sym.ctors(rs)) or any(suffix_match(c[1], "from") for c in sym.calls(rs))
                rn = tables.result(none[0][2])
                ok = ok and (any(suffix_match(c[1], "LTermInner::Empty") for c in sym.ctors(rn)) or any(suffix_match(c[1], "empty_list") for c in sym.calls(rn)))
        ctx.expect(ok, R, "Option|into-term", site_of(fn), "Some(x) becomes the compound term of x, None the empty list; found %s" % show(t, maxdepth=6)[:200])
        # the payload type is generic (`T: CompoundObject`), and LTerm itself is a CompoundObject whose children()
        # is empty for every non-compound term (table `LTerm|children` below): an LTerm wrapped as an opaque
        # object unifies with any other wrapped LTerm (F18: `q == Some(1), q == Some(2)` had an answer).
        # So the wrap must be the None-arm of a dispatch on as_term(), whose Some-arm is the term itself.
        good = False
        if ok:
            rs = tables.result(some[0][2])
            payload = ("proj", m[1], ANY, 0)
            if rs[0] == "match" and rs[1][0] == "call" and suffix_match(rs[1][1], "as_term") and unify(payload, rs[1][2][0]) is not None:
                s2 = tables.find_arm(rs, "Some")
                n2 = [a for a in rs[2] if a not in s2]
                if len(s2) == 1 and len(n2) == 1:
                    tr = tables.result(s2[0][2])
                    while tr[0] == "call" and suffix_match(tr[1], "clone") and len(tr[2]) == 1:
                        tr = tr[2][0]
                    good = tr == ("proj", rs[1], "std::prelude::v1::Some", 0) and any(suffix_match(c[1], "LTermInner::Compound") for c in sym.ctors(n2[0][2]))
        ctx.expect(good, R, "Option|into-term|term-payload-is-not-wrapped", site_of(fn), "Some(x) with x already a term must upcast to x itself (dispatch on x.as_term()); only a non-term object is wrapped as LTermInner::Compound")
    # who may wrap an object as a compound term: every caller of LTerm::from(Rc<dyn CompoundObject>) is classified
    WRAP_SITES = {
        "crate::compound<impl std::convert::Into<crate::lterm::LTerm> for std::option::Option>::into": "generic payload: guarded by the as_term() dispatch above",
        "crate::compound<impl std::convert::Into<crate::lterm::LTerm> for (crate::lterm::LTerm, crate::lterm::LTerm)>::into": "concrete pair object (children = its two components)",
    }
    evn = sym.Evaluator(lib, inline=lambda p_, f_: False)
    nw = 0
    for p_, f_ in sorted(lib.fns.items()):
        if "hir" not in f_ or f_.get("in_test_mod"):
            continue
        if any("From<std::rc::Rc<(dyn crate::compound::CompoundObject)>>>::from" in c[1] for c in sym.calls(evn.fn_term(f_)) if isinstance(c[1], str)):
            nw += 1
            ctx.fn_seen(p_)
            ctx.expect(p_ in WRAP_SITES, R, "wrap-site|%s" % p_, site_of(f_), "new site wraps an object as a compound term (LTerm::from(Rc<dyn CompoundObject>)): classify it - a generic payload must dispatch on as_term() first")
    ctx.floor(R, nw, 2, "sites wrapping an object as a compound term")
    fn = fnof("<crate::lterm::LTerm as crate::compound::CompoundObject>::children")
    if fn:
        t = ev.fn_term(fn)
        eff, m = tables.flatten(t)
        ok = m and m[0] == "match"
        if ok:
            arm = tables.find_arm(m, "LTermInner::Compound")
            ok = len(arm) == 1
            if ok:
                r = tables.result(arm[0][2])
                ok = r[0] == "call" and suffix_match(r[1], "children") and r[2][0][0] == "proj" and r[2][0][1] == m[1]
        ctx.expect(ok, R, "LTerm|children", site_of(fn), "a compound term's children are its object's children; found %s" % show(t, maxdepth=6)[:200])
    fn = fnof("<crate::lterm::LTerm as crate::compound::CompoundObject>::as_term")
    if fn:
        t = ev.fn_term(fn)
        ctx.expect(unify(pat("Some(@0)"), tables.result(t)) is not None, R, "LTerm|as_term", site_of(fn), "an LTerm child is a term child (as_term = Some(self))")
    fn = fnof("<crate::lterm::LTerm as crate::compound::CompoundWalkStar>::compound_walk_star")
    if fn:
        t = ev.fn_term(fn)
        ctx.expect(unify(pat("walk_star(@1, @0)"), tables.result(t)) is not None, R, "LTerm|walk_star", site_of(fn), "an LTerm field is walked with walk*; found %s" % show(t, maxdepth=4))
    check_hashing(ctx, lib, R)
    fn = fnof("crate::compound::CompoundObject::is_term")
    if fn:
        t = sym.Evaluator(lib, inline=lambda p_, f_: False).fn_term(fn)
        eff, m = tables.flatten(t)
        ok = m and m[0] == "match" and m[1][0] == "call" and suffix_match(m[1][1], "as_term") and m[1][2][0][:2] == ("param", 0)
        if ok:
            so = tables.find_arm(m, "Some")
            no = [a for a in m[2] if a not in so]
            ok = len(so) == 1 and tables.result(so[0][2]) == ("lit", "Bool(true)") and bool(no) and all(tables.result(a[2]) == ("lit", "Bool(false)") for a in no)
        elif m and m[0] == "call" and suffix_match(m[1], "is_some"):
            ok = m[2][0][0] == "call" and suffix_match(m[2][0][1], "as_term")
        ctx.expect(ok, R, "CompoundObject|is_term", site_of(fn), "is_term() is as_term().is_some(): unification and the traversals dispatch on it for every child")
    # compound_eq: only same-typed objects can be equal
    fns = [f for p, f in lib.fns.items() if p.endswith("CompoundEq>::compound_eq") and "hir" in f]
    ctx.floor(R, len(fns), 1, "compound_eq implementations")
    for fn in fns:
        t = ev.fn_term(fn)
        eff, m = tables.flatten(t)
        ok = m and m[0] == "match" and any(suffix_match(c[1], "downcast_ref") or "downcast_ref" in c[1] for c in sym.calls(m[1]))
        if ok:
            some = tables.find_arm(m, "Some")
            none = tables.find_arm(m, "None")
            ok = len(some) == 1 and len(none) == 1 and "false" in str(tables.result(none[0][2])) and any(suffix_match(c[1], "eq") for c in sym.calls(some[0][2]))
        ctx.expect(ok, R, "compound_eq|same-type-only", site_of(fn), "objects of different types are never equal; same type compares with eq; found %s" % show(t, maxdepth=6)[:200])


def check_hashing(ctx, lib, R):
    """Equal terms hash equally only if every Hash impl of the term types feeds the *caller's* hasher, and
    nothing else: the blanket CompoundHash::compound_hash is exactly `self.hash(state)`, and no function of
    the library builds a hasher of its own (RandomState::new, DefaultHasher::new, build_hasher) or folds a
    digest (Hasher::finish) into another hasher - a per-call random key makes the same term hash differently
    on every call.  MIR call census over all non-test functions; the positive control is the set of
    Hash::hash calls the census must see."""
    import re as _re

    ev = sym.Evaluator(lib, inline=lambda p_, f_: False)
    fns = [f for p_, f in lib.fns.items() if p_.endswith("CompoundHash>::compound_hash") and "hir" in f]
    ctx.floor(R, len(fns), 1, "compound_hash implementations")
    for fn in fns:
        ctx.fn_seen(fn["npath"])
        t = ev.fn_term(fn)
        calls = list(sym.calls(t))
        ok = len(calls) == 1 and calls[0][1].endswith("Hash::hash") and len(calls[0][2]) == 2 and calls[0][2][0][:2] == ("param", 0) and calls[0][2][1][:2] == ("param", 1)
        ctx.expect(ok, R, "compound_hash|feeds-callers-hasher", site_of(fn), "compound_hash must be exactly self.hash(state) - the object's fields written into the hasher it was given; found %s" % show(t, maxdepth=5)[:200])
    seen = 0
    for p_, f in sorted(lib.fns.items()):
        mir = f.get("mir")
        if not mir or f.get("in_test_mod"):
            continue
        for b in mir["blocks"]:
            tm = b.get("term") or {}
            if tm.get("k") != "call" or not isinstance(tm.get("callee"), str):
                continue
            c = _re.sub(r"::<[^<>]*(<[^<>]*>[^<>]*)*>", "", tm["callee"])
            if c.endswith("Hash::hash"):
                seen += 1
            if _re.search(r"(RandomState::new|DefaultHasher::new|BuildHasher::build_hasher|build_hasher|Hasher::finish|BuildHasher::hash_one)$", c):
                ctx.violation(R, "%s|%s" % (p_, c.split("::")[-2] + "::" + c.split("::")[-1]), site_of(tm.get("sp", "")) if tm.get("sp") else site_of(f), "the library builds or finishes a hasher of its own (`%s`): hashing must only write into the hasher the caller passed, or equal terms stop hashing equally" % c)
    ctx.floor(R, seen, 8, "Hash::hash call sites seen by the hasher census (positive control)")


def check_generated_instances(ctx, fb):
    """Thorough tier: the impls the derive actually generated for the #[compound] structs of the
    in-repo examples / tests (read from the type-checked expansion, not run): every field of the
    generated inner struct is listed by children(), walked, hashed, compared pairwise and cloned."""
    R = "C20.K5.generated-instances"
    n = 0
    for key in sorted(fb.files):
        name, is_test, is_bin = key
        if name in ("proto_vulcan", "proto_vulcan_macros"):
            continue
        c = fb.crate(*key)
        ev = sym.Evaluator(c, inline=lambda p_, f_: False)
        for apath, adt in sorted(c.adts.items()):
            if not apath.split("::")[-1].startswith("_Inner"):
                continue
            vs = adt.get("variants", [])
            if len(vs) != 1:
                continue
            F = [f.get("name") for f in vs[0].get("fields", [])]
            n += 1
            S = ("param", 0, "self")

            def fn_of(trait, meth):
                for p_, fn in c.fns.items():
                    if p_.startswith("<%s as " % apath) and p_.endswith("%s>::%s" % (trait, meth)) and "hir" in fn:
                        return fn
                return None

            site = c.name
            for trait, meth in (("CompoundObject", "children"), ("CompoundWalkStar", "compound_walk_star"), ("Hash", "hash"), ("PartialEq", "eq"), ("Clone", "clone")):
                fn = fn_of(trait, meth)
                k = "%s::%s|%s::%s" % (c.name, apath.split("::")[-1], trait, meth)
                if not ctx.expect(fn is not None, R, k + "|generated", site, "generated %s::%s not found for %s" % (trait, meth, apath)):
                    continue
                ctx.fn_seen(fn["npath"])
                t = ev.fn_term(fn)
                site = ":".join(fn["span"].split(":")[:2])
                selfs = [x[2] for x in sym.subterms(t) if x[0] == "field" and x[1] == S]
                others = [x[2] for x in sym.subterms(t) if x[0] == "field" and x[1][:2] == ("param", 1)]
                seen = list(dict.fromkeys(selfs))
                if meth == "eq":
                    pairs = [(c_[2][0][2], c_[2][1][2]) for c_ in sym.calls(t, "eq") if len(c_[2]) == 2 and c_[2][0][0] == "field" and c_[2][1][0] == "field" and c_[2][0][1] == S and c_[2][1][1][:2] == ("param", 1)]
                    ok = sorted(set(pairs)) == sorted((f, f) for f in F)
                    ctx.expect(ok, R, k + "|pairwise-all-fields", site, "generated eq must compare every field with the same field of `other`; fields %s, compared pairs %s" % (F, sorted(set(pairs))))
                elif meth == "hash":
                    hs = [c_[2][0][2] for c_ in sym.calls(t, "hash") if c_[2] and c_[2][0][0] == "field" and c_[2][0][1] == S]
                    ctx.expect(list(dict.fromkeys(hs)) == F, R, k + "|all-fields", site, "generated hash must feed every field; fields %s, hashed %s" % (F, hs))
                elif meth == "compound_walk_star":
                    ws = [c_[2][0][2] for c_ in sym.calls(t, "compound_walk_star") if c_[2] and c_[2][0][0] == "field" and c_[2][0][1] == S and c_[2][1][:2] == ("param", 1)]
                    ctx.expect(list(dict.fromkeys(ws)) == F, R, k + "|all-fields", site, "generated walk* must walk every field in the given substitution; fields %s, walked %s" % (F, ws))
                else:
                    ctx.expect(seen == F, R, k + "|all-fields", site, "generated %s must mention every field of the struct in declaration order; fields %s, found %s" % (meth, F, seen))
    ctx.count("generated_compound_structs", n)
    ctx.floor(R, n, 2, "generated #[compound] inner structs in examples/tests")


def run(ctx, fb, cfg):
    lib = fb.lib
    R = "C20."
    if cfg == "all-targets":
        check_generated_instances(ctx, fb)
    feats = {"clpfd"} if cfg != "none" else None
    n = traversal.run_table(ctx, lib, R + "K5.traversal", features=feats, variants=("Cons", "Compound"))
    ctx.floor(R + "K5.traversal", n, 8, "traversal functions")
    C01.check_compound(ctx, lib, R + "K2K5.unify-compound")
    C01.check_occurs(ctx, lib, R + "K5.occurs")
    C03.check_reify_threading(ctx, lib, R + "K3.reify-threads")
    check_library(ctx, lib)
    # labeling treats compound fields like list elements: the fields are conjoined by Conj::from_iter (every item)
    import builders

    builders.check_all(ctx, lib, R + "K6.builders", only=("Conj",))
    # what an answer reports for a compound value: constraints() = relevant(anyvars()) on every kind of term,
    # operands complete (shared with C03)
    C03.check_lresult(ctx, lib, R + "K3.lresult-constraints")
    import fdrules

    fdrules.check_operands(ctx, lib, R + "K10.operands-complete")
    if cfg == "lib-default":
        S = macrolib.load_sem(ctx, fb)
        if S is not None:
            check_derive(ctx, S)
