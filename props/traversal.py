"""K5 traversal table shared by C03, C17, C20: every structural recursion over LTermInner that
handles list cells handles compound terms too, and both visit *all* sub-terms.

For a traversal function F matching on a term S:
  * variant Cons has an explicit (non-wildcard) arm in which both payloads (head and tail) flow
    into a call of one of F's recursion targets;
  * variant Compound has an explicit arm in which the payload flows into a call of one of F's
    compound targets;
  * a compound helper iterates `children(obj)` through element-preserving adaptors only and
    recurses both for term children (as_term -> Some) and nested objects (None).
"""
import streams
import sym
import tables
from pat import pat
from report import site_of
from sym import ANY, P, show, suffix_match, unify

# function -> (term targets, compound targets, helper function or None, helper's term target)
TABLE = [
    {
        "fn": "crate::state::substitution::SMap::walk_star",
        "term_targets": ["walk_star"],
        "compound_targets": ["walk_star", "compound_walk_star"],
        "helper": None,
    },
    {
        "fn": "crate::state::substitution::SMap::reify",
        "term_targets": ["SMap::reify"],
        "compound_targets": ["reify_compound"],
        "helper": "crate::state::substitution::SMap::reify_compound",
        "helper_term_targets": ["SMap::reify"],
    },
    {
        "fn": "crate::state::substitution::SMap::is_anyvar",
        "term_targets": ["SMap::is_anyvar"],
        "compound_targets": ["is_anyvar_compound"],
        "helper": "crate::state::substitution::SMap::is_anyvar_compound",
        "helper_term_targets": ["SMap::is_anyvar"],
    },
    {
        "fn": "crate::state::substitution::SMap::occurs_check",
        "term_targets": ["SMap::occurs_check"],
        "compound_targets": ["occurs_check_compound"],
        "helper": "crate::state::substitution::SMap::occurs_check_compound",
        "helper_term_targets": ["SMap::occurs_check"],
    },
    {
        "fn": "crate::lterm::LTerm::anyvars",
        "term_targets": ["LTerm::anyvars"],
        "compound_targets": ["anyvars_compound"],
        "helper": "crate::lterm::LTerm::anyvars_compound",
        "helper_term_targets": ["LTerm::anyvars"],
    },
    {
        "fn": "crate::state::reification::force_ans",
        "term_targets": ["force_ans"],
        "compound_targets": ["compound_terms"],
        "helper": "crate::state::reification::compound_terms",
        "helper_term_targets": ["push", "force_ans"],
        "needs": "clpfd",
    },
    {
        "fn": "<crate::lterm::LTerm as std::hash::Hash>::hash",
        "term_targets": ["hash"],
        "compound_targets": ["compound_hash", "hash"],
        "helper": None,
    },
    {
        "fn": "<crate::lterm::LTerm as std::cmp::PartialEq>::eq",
        "term_targets": ["eq"],
        "compound_targets": ["compound_eq", "eq"],
        "helper": None,
        "pairwise": True,
    },
]

CHILD_ADAPTORS = ("children", "any", "all", "map", "for_each", "iter", "into_iter", "cloned", "copied", "flat_map", "fold", "collect")


def _contains(t, sub):
    if t == sub:
        return True
    if isinstance(t, tuple):
        return any(_contains(x, sub) for x in t)
    return False


def flows_into(body, payload_pred, targets):
    """Is there a call to one of `targets` with an argument that contains a term satisfying payload_pred?"""
    for c in sym.subterms(body):
        if c[0] == "call" and any(suffix_match(c[1], t) or c[1].split("::")[-1] == t for t in targets):
            for a in c[2]:
                for s in sym.subterms(a):
                    if payload_pred(s):
                        return True
        if c[0] == "binop" and c[1] in ("Eq",) and "eq" in targets:
            for a in c[2:4]:
                for s in sym.subterms(a):
                    if payload_pred(s):
                        return True
    return False


def find_matches(t, variant_suffix):
    """match terms that have an explicit arm for the given LTermInner variant (possibly inside a tuple pattern)."""
    out = []
    for s in sym.subterms(t):
        if s[0] == "match":
            for p, g, b in s[2]:
                if _pat_mentions(p, variant_suffix):
                    out.append(s)
                    break
    return out


def _pat_mentions(p, suffix):
    if not isinstance(p, tuple) or not p:
        return False
    if isinstance(p[0], str) and p[0] in ("pctor", "pstruct") and isinstance(p[1], str) and p[1].endswith(suffix):
        return True
    return any(_pat_mentions(x, suffix) for x in p if isinstance(x, tuple))


def arms_for(m, suffix):
    return [(p, g, b) for p, g, b in m[2] if _pat_mentions(p, suffix)]


def check_entry(ctx, lib, rule, e, variants=("Cons", "Compound")):
    fn = streams.getfn(ctx, lib, rule, e["fn"])
    if not fn:
        return
    t = sym.Evaluator(lib).fn_term(fn)
    key = fn["npath"]
    site = site_of(fn)
    for variant in variants:
        suffix = "LTermInner::" + variant
        ms = find_matches(t, suffix)
        k = "%s|variant=%s" % (key, variant)
        if not ms:
            ctx.violation(rule, k, site, "the traversal has no explicit arm for %s: such sub-terms are treated as leaves (their variables / values are not visited)" % suffix)
            continue
        m = ms[0]
        arms = arms_for(m, suffix)
        ok_arm = False
        why = ""
        for p, g, b in arms:
            if variant == "Cons":
                def is_payload(i):
                    return lambda s: s[0] == "proj" and isinstance(s[2], str) and s[2].endswith(suffix) and s[3] == i

                n_sides = 2 if e.get("pairwise") else 1
                h = flows_into(b, is_payload(0), e["term_targets"])
                tl = flows_into(b, is_payload(1), e["term_targets"])
                if h and tl:
                    ok_arm = True
                else:
                    why = "head %s, tail %s" % ("visited" if h else "NOT visited", "visited" if tl else "NOT visited")
            else:
                def is_payload_c(s):
                    return s[0] == "proj" and isinstance(s[2], str) and s[2].endswith(suffix) and s[3] == 0

                if flows_into(b, is_payload_c, e["compound_targets"]):
                    ok_arm = True
                else:
                    why = "the compound payload does not reach %s" % "/".join(e["compound_targets"])
        ctx.expect(ok_arm, rule, k, site, "arm for %s does not visit all sub-terms (%s): %s" % (suffix, why, show(arms[0][2], maxdepth=5)[:240] if arms else ""))
    if e.get("helper"):
        check_helper(ctx, lib, rule, e)


def check_helper(ctx, lib, rule, e):
    fn = streams.getfn(ctx, lib, rule, e["helper"])
    if not fn:
        return
    t = sym.Evaluator(lib).fn_term(fn)
    key = fn["npath"]
    site = site_of(fn)
    ch = [c for c in sym.calls(t, "children")]
    ok = bool(ch)
    msg = "no iteration over children()"
    if ok:
        # every use of children(..) is consumed through element-preserving adaptors
        for s in sym.subterms(t):
            if s[0] == "call" and s[2] and _contains(s[2][0], ch[0]) and s[2][0] != ch[0] or (s[0] == "call" and s[2] and s[2][0] == ch[0]):
                name = s[1].split("::")[-1]
                if name in streams.LOSSY and name not in ("flat_map",):
                    ok = False
                    msg = "children() goes through `%s`, which can skip children" % name
        objparam = [c[2][0] for c in ch]
        term_rec = [c for c in sym.subterms(t) if c[0] == "call" and any(c[1].split("::")[-1] == x.split("::")[-1] for x in e["helper_term_targets"])]
        self_rec = [c for c in sym.calls(t, fn["npath"].split("::")[-1])]
        as_term = [c for c in sym.calls(t, "as_term")]
        if ok and not term_rec:
            ok, msg = False, "children that are terms are not passed on (%s)" % "/".join(e["helper_term_targets"])
        if ok and not self_rec:
            ok, msg = False, "nested objects are not descended into"
        if ok and not as_term:
            ok, msg = False, "children are not classified with as_term()"
        # every term child is passed on unconditionally, every nested object descended into
        if ok:
            ms = [m for m in sym.subterms(t) if m[0] == "match" and m[1][0] == "call" and suffix_match(m[1][1], "as_term")]
            ms = list(dict.fromkeys(ms))
            if not ms:
                ok, msg = False, "no `match child.as_term()` classification found"
            for m in ms:
                for p_, g_, b_ in m[2]:
                    cs = tables.pat_ctors(p_)
                    if any(suffix_match(c, "Some") for c in cs):
                        payload = ("proj", m[1], ANY, 0)
                        passes = [c for c in sym.subterms(b_) if c[0] == "call" and any(c[1].split("::")[-1] == x.split("::")[-1] for x in e["helper_term_targets"]) and any(unify(payload, a) is not None for x in c[2] for a in sym.subterms(x))]
                        if g_ is not None:
                            ok, msg = False, "a term child is handled only under the guard `%s`" % show(g_, maxdepth=3)[:80]
                        elif not passes:
                            ok, msg = False, "an arm for term children does not pass the term on (%s)" % show(b_, maxdepth=3)[:80]
                    elif any(suffix_match(c, "None") for c in cs):
                        if g_ is not None or not [c for c in sym.calls(b_, fn["npath"].split("::")[-1])]:
                            ok, msg = False, "the arm for nested objects does not descend into them unconditionally"
                    else:
                        ok, msg = False, "catch-all arm `%s` in the child classification can skip children" % sym.showpat(p_)
    ctx.expect(ok, rule, key + "|all-children", site, "compound helper must visit every child (terms and nested objects): %s" % msg)


def run_table(ctx, lib, rule, only=None, features=None, variants=("Cons", "Compound")):
    n = 0
    for e in TABLE:
        if only and not any(o in e["fn"] for o in only):
            continue
        if e.get("needs") and features is not None and e["needs"] not in features:
            continue
        check_entry(ctx, lib, rule, e, variants)
        n += 1
    return n
