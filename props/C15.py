"""C15 - Fresh variables are distinct and renaming-invariant.

Decided (structural):
 * identities are unique (K1/K3): `VarID` is constructed only in `VarID::new`, from
   `UNIQUE_ID_COUNTER.fetch_add(1)`, and that static is referenced nowhere else; `LTermInner::Var` is
   constructed only by `LTerm::var` / `LTerm::any`, each taking a new `VarID::new()` per call
   (compile-fail witness: the tuple constructor `VarID(..)` is private);
 * names are inert (K1): the name payload of `Var` is read only by the name accessors and the
   Display / Debug / Clone code - never by unification, walking, hashing, equality or search;
 * one creation per scope (K12): the fresh / query / pattern-arm templates emit one
   variable-constructor `let` per declared name inside the block that holds the uses, so Rust's
   lexical scoping makes same-named variables of other scopes different bindings;
 * one creation per unfolding (K12 + typed HIR): the closure template puts the body inside the
   `move ||`; `Closure::solve` calls the stored closure on every solve; every recursion cycle among
   the library's relations passes through such a closure body.
 (round 5, shared with C03) distinct variables stay distinct in the answer: reify threads its map through
   every field, one `_.n` per unbound variable.
"""
import C13
import C14
import macrolib
import streams
import sym
import tables
from facts import norm
from macrolib import check_shape
from report import site_of
from sym import show, suffix_match

EXPLANATION = (
    "Who-may-construct / who-may-read rules on typed HIR (VarID, LTermInner::Var, the id counter, the name payload), template rules for the "
    "variable-introducing constructs (syn-extracted quote! trees), call-graph rule that relation recursion passes through a re-evaluated closure, "
    "and a compile-fail witness for the private VarID constructor."
)
NOT_DECIDED = "alpha-equivalence of answers on all programs (follows from the bullets by induction; not mechanised); VarID uniqueness holds until the usize counter wraps"
TECHNIQUE = "static analysis: who-may-call/construct rules on typed HIR + syntax-tree template rules + call-graph closure rule + compile_fail witness"

NAME_READERS = {
    # function -> reason the read cannot influence answers
    "crate::lterm::LTerm::get_name": "accessor for display purposes",
    "crate::lterm::LTerm::is_any": "distinguishes the reserved name `_`, which LTerm::var rejects for user variables",
    "<crate::lterm::LTerm as std::fmt::Display>::fmt": "printing",
    "<crate::lterm::LTerm as std::fmt::Debug>::fmt": "printing",
    "<crate::lterm::LTermInner as std::fmt::Debug>::fmt": "derived printing",
    "<crate::lterm::LTermInner as std::clone::Clone>::clone": "copies the name together with the id",
    "crate::lterm::LTerm::var": "rejects the reserved name `_` at creation",
}
RECURSIVE_RELATIONS_FLOOR = 6  # member, member1, append, rember, permute, distinct


def _noinline(lib):
    return sym.Evaluator(lib, inline=lambda p, f: False)


def check_identity(ctx, lib):
    R = "C15.K1.unique-ids"
    ev = _noinline(lib)
    varid_sites = {}
    var_sites = {}
    counter_refs = {}
    name_reads = {}
    for p, fn in sorted(lib.fns.items()):
        if "hir" not in fn or fn.get("in_test_mod"):
            continue
        t = ev.fn_term(fn)
        a = [c for c in sym.ctors(t, "lterm::VarID")]
        if a:
            varid_sites[p] = a
        b = [c for c in sym.ctors(t, "LTermInner::Var")]
        if b:
            var_sites[p] = b
        c = [s for s in sym.subterms(t) if s[0] == "const" and str(s[1]).endswith("UNIQUE_ID_COUNTER")]
        if c:
            counter_refs[p] = c
        d = [s for s in sym.subterms(t) if s[0] == "proj" and str(s[2]).endswith("LTermInner::Var") and s[3] == 1]
        # a literal / nested pattern on the name position also reads the name
        e = [s for s in _patterns(t) if s[0] == "pctor" and str(s[1]).endswith("LTermInner::Var") and len(s[2]) > 1 and s[2][1][0] not in ("pwild", "pbind")]
        if d or e:
            name_reads[p] = d + e
    # VarID
    ctx.floor(R, len(varid_sites), 1, "VarID construction sites")
    for p, sites in varid_sites.items():
        ctx.fn_seen(p)
        ctx.expect(p == "crate::lterm::VarID::new", R, "%s|constructs-VarID" % p, site_of(lib.fns[p]), "VarID may be constructed only by VarID::new (an id made elsewhere can collide with an existing variable)")
    fn = lib.fns.get("crate::lterm::VarID::new")
    if fn:
        t = ev.fn_term(fn)
        r = tables.result(t)
        ok = r[0] == "ctor" and len(r[2]) == 1 and r[2][0][0] == "call" and suffix_match(r[2][0][1], "fetch_add") and r[2][0][2][0][0] == "const" and str(r[2][0][2][0][1]).endswith("UNIQUE_ID_COUNTER") and "1" in str(r[2][0][2][1][1]) and r[2][0][2][1][0] == "lit"
        ctx.expect(ok, R, "VarID::new|counter", site_of(fn), "VarID::new must be VarID(UNIQUE_ID_COUNTER.fetch_add(1, ..)); found %s" % show(t, maxdepth=5)[:200])
    ctx.floor(R, len(counter_refs), 1, "references to the id counter")
    for p in counter_refs:
        ctx.expect(p == "crate::lterm::VarID::new", R, "%s|touches-counter" % p, site_of(lib.fns[p]), "the id counter may be touched only by VarID::new")
    # Var
    ctx.floor(R, len(var_sites), 2, "LTermInner::Var construction sites")
    for p, sites in var_sites.items():
        ctx.fn_seen(p)
        if p == "<crate::lterm::LTermInner as std::clone::Clone>::clone":
            ctx.ok(R, "%s|copies-Var" % p, site_of(lib.fns[p]), "derived Clone copies id and name of an existing variable")
            continue
        allowed = p in ("crate::lterm::LTerm::var", "crate::lterm::LTerm::any")
        fresh = all(len(s[2]) == 2 and s[2][0] == ("call", s[2][0][1], ()) and suffix_match(s[2][0][1], "VarID::new") for s in sites)
        ctx.expect(allowed and fresh, R, "%s|constructs-Var" % p, site_of(lib.fns[p]), "a variable term may be created only by LTerm::var / LTerm::any with a VarID::new() taken at that call; found %s" % [show(s, maxdepth=4) for s in sites][:2])
    # names
    RN = "C15.K1.names-inert"
    ctx.floor(RN, len(name_reads), 3, "readers of a variable's name")
    for p in sorted(name_reads):
        ctx.fn_seen(p)
        ctx.expect(p in NAME_READERS, RN, "%s|reads-name" % p, site_of(lib.fns[p]), "the name of a variable is read here; only %s may look at names (renaming a bound variable must not change answers)" % ", ".join(sorted(x.split("::")[-1] for x in NAME_READERS)))


def _patterns(t):
    """All patterns occurring in match arms / let / if-let of a term."""
    for s in sym.subterms(t):
        if s[0] == "match":
            for p, g, b in s[2]:
                yield from _subpats(p)
        elif s[0] == "iflet":
            yield from _subpats(s[1])
        elif s[0] == "seq":
            for st in s[1]:
                if st[0] == "let":
                    yield from _subpats(st[1])


def _subpats(p):
    if not isinstance(p, tuple) or not p:
        return
    yield p
    if p[0] == "pctor":
        for x in p[2]:
            yield from _subpats(x)
    elif p[0] in ("ptuple", "por"):
        for x in p[1]:
            yield from _subpats(x)
    elif p[0] == "pstruct":
        for _, x in p[2]:
            yield from _subpats(x)
    elif p[0] == "pbind" and p[3]:
        yield from _subpats(p[3])


def check_templates(ctx, S):
    R = "C15.K12.creation-per-scope"
    for ty in ("Fresh",):
        a = macrolib.single_alt(ctx, S, R, ty)
        if a is not None:
            shapes, names, why = C14.CONSTRUCT_TABLE[ty]
            check_shape(ctx, R, ty, a, shapes, names, "one variable constructor per declared name, inside the block that holds the body")
    a = macrolib.single_alt(ctx, S, R, "Query")
    if a is not None:
        check_shape(ctx, R, "Query", a, C14.QUERY_SHAPE, {"q": "self.variables.name", "body": "self.body"}, "one variable constructor per query variable, before the goal that uses them")
    alts = [x for x in S.alts("PatternMatchOperator") if x.kind == "template" and not x.rec.get("loops")]
    ctx.floor(R, len(alts), 2, "pattern-match templates")
    for x in alts:
        shapes = C13.MATCH_SHAPES + C13.NAMED_SHAPES
        check_shape(ctx, R, "PatternMatchOperator|%s" % ("match" if any(t for c, t in x.conds if "==" in c) else "named"), x, shapes, {"term": "self.term", "name": "self.name"}, "pattern names are created inside their own arm block, after the matched term was taken and before the pattern is built")
    RU = "C15.K12.creation-per-unfolding"
    a = macrolib.single_alt(ctx, S, RU, "Closure")
    if a is not None:
        shapes, names, why = C14.CONSTRUCT_TABLE["Closure"]
        check_shape(ctx, RU, "Closure|body-inside-closure", a, shapes, names, "the body (with its variable constructors) must sit inside the `move ||` so that each unfolding re-creates it")


def _calls_with_closure_flag(n, inclo, out):
    if isinstance(n, dict):
        k = n.get("k")
        if k in ("Call", "MethodCall") and "callee" in n:
            out.append((norm(n.get("resolved") or n["callee"]), inclo, n.get("sp", "")))
        if k == "Closure":
            inclo = True
        for v in n.values():
            if isinstance(v, (dict, list)):
                _calls_with_closure_flag(v, inclo, out)
    elif isinstance(n, list):
        for x in n:
            _calls_with_closure_flag(x, inclo, out)


def check_unfolding(ctx, lib):
    R = "C15.K1.recursion-through-closure"
    edges = {}
    for p, fn in lib.fns.items():
        if "hir" not in fn or fn.get("in_test_mod"):
            continue
        out = []
        _calls_with_closure_flag(fn["hir"], False, out)
        edges[p] = [(c, i, s) for c, i, s in out if c in lib.fns]

    reach_cache = {}

    def reach(a):
        if a in reach_cache:
            return reach_cache[a]
        seen = set()
        st = [a]
        while st:
            x = st.pop()
            for c, _, _ in edges.get(x, []):
                if c not in seen:
                    seen.add(c)
                    st.append(c)
        reach_cache[a] = seen
        return seen

    n = 0
    for p in sorted(edges):
        if not (p.startswith("crate::relation::") or p.startswith("crate::operator::")):
            continue
        fn = lib.fns[p]
        # only goal constructors (functions that build goals): skip Solve impls and helpers with a state parameter
        if p.startswith("<") or "::solve" in p:
            continue
        if p not in reach(p):
            continue
        ret = fn.get("ret", "") or ""
        sites = [(c, i, s) for c, i, s in edges[p] if c == p or p in reach(c)]
        if not sites:
            continue
        n += 1
        ctx.fn_seen(p)
        bad = [s for c, i, s in sites if not i]
        ctx.expect(not bad, R, "%s|recursive-call-deferred" % p, site_of(fn), "the recursive use of %s at %s is evaluated while the goal is being built, not inside a closure that is re-run per unfolding (fresh variables would be shared between unfoldings, and construction would not terminate)" % (p.split("::")[-1], [x.split(":")[1] if ":" in x else x for x in bad][:3]))
    ctx.floor(R, n, RECURSIVE_RELATIONS_FLOOR, "recursive relation constructors")
    # Closure::solve re-evaluates
    fn = streams.getfn(ctx, lib, R, "<crate::operator::closure::Closure as crate::solver::Solve>::solve")
    if fn:
        t = streams.plain_evaluator(lib).fn_term(fn)
        r = tables.result(t)
        ok = r[0] == "call" and suffix_match(r[1], "solve") and r[2][0][0] == "callv" and r[2][0][1] == ("field", ("param", 0, "self"), "f") and not tables.semis(t)
        ctx.expect(ok, R, "Closure::solve|re-evaluates", site_of(fn), "Closure::solve must call the stored closure on every solve (no caching of the built goal); found %s" % show(t, maxdepth=5)[:200])
    # the Closure goal has no interior cache
    adt = lib.adts.get("crate::operator::closure::Closure")
    if adt:
        tys = [f.get("ty", "") for v in adt.get("variants", []) for f in v.get("fields", [])]
        bad = [t for t in tys if any(x in t for x in ("RefCell", "Cell<", "OnceCell", "Mutex", "RwLock", "Atomic"))]
        ctx.expect(not bad, R, "Closure|no-cache-field", "src/operator/closure.rs", "the closure goal must not hold a cache: %s" % bad)


class _Quiet:
    """Context wrapper that records nothing (used to obtain bindings from a rule of another property)."""

    def __init__(self, ctx):
        self._c = ctx

    def expect(self, cond, *a, **k):
        return cond

    def violation(self, *a, **k):
        pass

    def ok(self, *a, **k):
        pass

    def floor(self, *a, **k):
        return True

    def __getattr__(self, n):
        return getattr(self._c, n)


class _Prefixed(_Quiet):
    """Context wrapper that re-labels rule ids of a shared rule with this property's prefix."""

    def __init__(self, ctx, prefix):
        self._c = ctx
        self._p = prefix

    def _r(self, rule):
        return self._p + rule[3:] if rule[:3] != self._p else rule

    def expect(self, cond, rule, *a, **k):
        return self._c.expect(cond, self._r(rule), *a, **k)

    def violation(self, rule, *a, **k):
        return self._c.violation(self._r(rule), *a, **k)

    def ok(self, rule, *a, **k):
        return self._c.ok(self._r(rule), *a, **k)

    def floor(self, rule, *a, **k):
        return self._c.floor(self._r(rule), *a, **k)


def run(ctx, fb, cfg):
    lib = fb.lib
    check_identity(ctx, lib)
    check_unfolding(ctx, lib)
    if cfg == "lib-default":
        S = macrolib.load_sem(ctx, fb)
        if S is not None:
            check_templates(ctx, S)
            # the set of names that get a new variable in an arm is exactly the names of that
            # alternative (collected per alternative; shared with C13)
            if fb.macros is not None:
                bound = C13.check_templates(_Quiet(ctx), S)
                C13.check_alignment(_Prefixed(ctx, "C15"), fb.macros, bound)
                # every name occurring anywhere in a pattern is collected (and so gets its own
                # new variable): a name missed by get_vars silently captures an outer variable
                C13.check_get_vars(_Prefixed(ctx, "C15"), fb.macros)
    # distinct variables stay distinct in the answer: the reifying map is threaded through every field and
    # element, so each unbound variable gets its own `_.n` (shared with C03)
    import C03

    C03.check_reify_threading(ctx, lib, "C15.K3.reify-threads")
    C03.check_smap_reify_var(ctx, lib, "C15.K3.fresh-any-per-var")


def run_once(ctx, tier):
    import witness

    witness.run(ctx, "C15", ["w2_varid_private", "w3_counter_private"])
