"""C05 - Depth-first search yields answers in Prolog order.

Decided (structural): the DFS stream equations. If they hold, left-to-right depth-first
order follows by induction on the goal tree:
  merge_dfs(s, l)   keeps everything of s before l            (Stream::mplus_dfs)
  bind_dfs(s, g)    distributes g over s head-first           (Stream::bind_dfs)
  step(MPlusDFS(a,b)) = merge_dfs(step(a), b) ; step(BindDFS(s,g)) = bind_dfs(step(s), g)
  DFSDisj.solve     = MPlusDFS(Pause(s,g1), Pause(s,g2))
  DFSConj.solve     = BindDFS(Pause(s,g1), g2)
  cond / Conde(DFS) = c0 ++ (c1 ++ (c2 ++ ...))    (fold over reversed clauses, new stream first)
  builders are right folds over the reversed sequence (written order kept)
  dfs{} maps the 4 DFSGoal variants to the same 4 variants of the parent kind.
 (round 4, shared) builders.check_all: the 15 goal-array builders (Conj/DFSConj/InferredConj/
   Disj/DFSDisj x from_vec/from_array/from_conjunctions) are total right folds in reverse from the
   neutral element; macro front end only appends to the sequences it collects (MIR call census of
   reordering/dropping operations, confirmed exceptions by function); operator entry points'
   typed signatures fix which search a named operator runs.
"""
import streams
import sym
import tables
from pat import pat
from report import site_of
from streams import BFS, DFS
from sym import show, suffix_match, unify

EXPLANATION = (
    "Static check of the DFS stream equations on the typed HIR of /repo (symbolic terms with constructor wrappers inlined): "
    "merge/bind/step/solve tables for MPlusDFS, BindDFS, PauseDFS, the DFS fold of cond, order-preserving builders, the dfs{} variant map, "
    "and a census of every construction site of the three DFS lazy nodes. Decides the code shape, not answer order of a given program."
)
NOT_DECIDED = "the induction from the equations to Prolog order, termination of a given DFS search; the type barrier (no BFS goal inside dfs{}) is witnessed by witness/ (compile-fail) in the thorough tier"

ALLOWED_SITES = {
    "Lazy::MPlusDFS": ["Stream::mplus_dfs", "Stream::bind_dfs", "DFSDisj as crate::solver::Solve>::solve", "LazyStream::mplus_dfs", "Stream::lazy_mplus_dfs"],
    "Lazy::BindDFS": ["Stream::bind_dfs", "Stream::lazy_bind_dfs", "LazyStream::bind_dfs", "DFSConj as crate::solver::Solve>::solve", "InferredConj as crate::solver::Solve>::solve"],
    "Lazy::PauseDFS": [
        "Stream::bind_dfs",
        "Stream::pause_dfs",
        "LazyStream::pause_dfs",
        "DFSConj as crate::solver::Solve>::solve",
        "InferredConj as crate::solver::Solve>::solve",
        "DFSDisj as crate::solver::Solve>::solve",
        "Fresh as crate::solver::Solve>::solve",
    ],
}
FLOORS = {"Lazy::MPlusDFS": 4, "Lazy::BindDFS": 4, "Lazy::PauseDFS": 7}


def check_dfs_operator(ctx, lib, rule):
    fn = streams.getfn(ctx, lib, rule, "crate::operator::dfs::dfs")
    if not fn:
        return
    t = streams.plain_evaluator(lib).fn_term(fn)
    g = "from_conjunctions(@0.body)"

    def wrap(inner):
        def f(body, b):
            res = tables.result(body)
            hits = [s for s in sym.subterms(res) if unify(pat(inner), s, b) is not None]
            # result must *be* the wrapped goal: InferredGoal{goal: X} or X
            if res[0] == "struct" and dict(res[2]).get("goal") is not None:
                return (unify(pat(inner), dict(res[2])["goal"], b), show(res, maxdepth=4))
            return (unify(pat(inner), res, b), show(res, maxdepth=4))

        return f

    tables.check_match_table(
        ctx,
        rule,
        fn["npath"],
        site_of(fn),
        t,
        g,
        {
            "DFSGoal::Succeed": wrap("succeed()"),
            "DFSGoal::Fail": wrap("fail()"),
            "DFSGoal::Breakpoint": wrap("breakpoint($g.DFSGoal::Breakpoint#0)"),
            "DFSGoal::Dynamic": wrap("dynamic($g.DFSGoal::Dynamic#0)"),
        },
    )
    # the body is a DFS conjunction of the written clauses
    sc = tables.result(t)[1] if tables.result(t)[0] == "match" else None
    ctx.expect(sc is not None and sc[0] == "call" and "DFSConj::from_conjunctions" in sc[1], rule, fn["npath"] + "|body", site_of(fn), "dfs{} must build its body with DFSConj::from_conjunctions (a depth-first conjunction)")
    # DFSGoal -> Goal conversion keeps the variant
    fn2 = streams.getfn(ctx, lib, rule, "<crate::goal::DFSGoal as std::convert::Into<crate::goal::Goal>>::into")
    if fn2:
        t2 = streams.plain_evaluator(lib).fn_term(fn2)
        tables.check_match_table(
            ctx,
            rule,
            fn2["npath"],
            site_of(fn2),
            t2,
            "@0",
            {
                "DFSGoal::Succeed": "Goal::Succeed",
                "DFSGoal::Fail": "Goal::Fail",
                "DFSGoal::Breakpoint": "Goal::Breakpoint(@0.DFSGoal::Breakpoint#0)",
                "DFSGoal::Dynamic": "Goal::Dynamic(@0.DFSGoal::Dynamic#0)",
            },
        )


def check_query_keeps_order(ctx, fb):
    """The answers of a query body reach the ResultIterator through `reify(__query__)`, joined to the
    body by a conjunction.  For the body's answer order (which this property fixes for `dfs { .. }`
    bodies) to be the *observed* order, that join must be order-preserving: a depth-first bind (the
    continuation of answer i completes before answer i+1 is continued), or a continuation that is a
    single engine step (it cannot be overtaken).  An interleaving bind with a multi-step continuation
    lets the reification of a later, smaller answer finish before that of an earlier, larger one."""
    import macrolib
    import tmpl

    R = "C05.K12.query-keeps-order"
    S = macrolib.load_sem(ctx, fb)
    if S is None:
        return
    a = macrolib.single_alt(ctx, S, R, "Query")
    if a is None:
        return
    # the conjunction that holds reify(..): which builder, and is the body an element before it?
    joins = []
    for n in tmpl.walk(a.tree):
        if isinstance(n, tuple) and n and n[0] == "call" and n[1][0] == "path" and n[2] and isinstance(n[2][0], tuple) and n[2][0][0] == "array":
            elems = n[2][0][1]
            if any(isinstance(e, tuple) and e and e[0] == "call" and e[1][0] == "path" and e[1][1].split("::")[-1] == "reify" for e in elems):
                joins.append((n[1][1], elems))
    if not ctx.expect(len(joins) == 1, R, "Query|reify-join", a.site, "expected one conjunction holding reify(__query__) in the query template, found %d" % len(joins)):
        return
    builder, elems = joins[0]
    dfs_join = "DFSConj" in builder
    # is reify a single-step goal?
    lib = fb.lib
    fn = streams.getfn(ctx, lib, R, "crate::state::reification::reify")
    single_step = False
    if fn:
        t = sym.Evaluator(lib, inline=lambda p, f: False, extra_identity=streams.GOAL_CAST | {"crate::Upcast::to_super"}).fn_term(fn)
        r = tables.result(t)
        conj = [c for c in sym.calls(r) if c[1].split("::")[-1] in ("from_array", "from_vec", "from_conjunctions", "new") and "Conj" in c[1]]
        single_step = not conj and r[0] == "call" and suffix_match(r[1], "FnGoal::new")
    ctx.expect(dfs_join or single_step, R, "Query|reify-joined-by-interleaving-bind", a.site, "the query joins its body with reify(__query__) through the interleaving conjunction `%s` while reify is a multi-step goal (a conjunction of the constraint-enforcing goals and the renaming step): reification of a later answer can finish before that of an earlier one, so the order in which a `dfs { .. }` body produces its answers is not the order in which the iterator returns them" % builder)


def run(ctx, fb, cfg):
    lib = fb.lib
    R = "C05."
    if cfg == "lib-default":
        check_query_keeps_order(ctx, fb)
        if fb.macros is not None:
            import macrolib

            macrolib.check_sequence_ops(ctx, fb.macros, R + "K6.front-end-only-appends")
    streams.check_mplus(ctx, lib, DFS, R + "K3.merge-dfs")
    streams.check_bind(ctx, lib, DFS, R + "K3.bind-dfs")
    streams.check_conj_solve(ctx, lib, DFS, R + "K3.conj-dfs", "<crate::operator::conj::DFSConj as crate::solver::Solve>::solve")
    streams.check_inferred_conj(ctx, lib, R + "K3.inferred-conj", ["dfs"])
    streams.check_disj_solve(ctx, lib, DFS, R + "K3.disj-dfs", "<crate::operator::disj::DFSDisj as crate::solver::Solve>::solve")
    streams.check_engine_step(ctx, lib, R + "K5.engine-step", [DFS])
    streams.check_engine_delay_iter(ctx, lib, R + "K3.engine-iter")
    streams.check_start(ctx, lib, DFS, R + "K3.start-dfs")
    streams.check_conde_fold(ctx, lib, R + "K6.cond-fold", DFS)
    for f in ("from_vec", "from_array"):
        streams.check_right_fold(ctx, lib, R + "K6.builder", "crate::operator::conj::DFSConj::" + f, "DFSGoal::Succeed", "DFSConj::new")
        streams.check_right_fold(ctx, lib, R + "K6.builder", "crate::operator::disj::DFSDisj::" + f, "DFSGoal::Fail", "DFSDisj::new")
    streams.check_conj_new(ctx, lib, R + "K6.conj-new", "crate::operator::conj::DFSConj::new", "DFSGoal", "DFSConj")
    check_from_conjunctions(ctx, lib, R + "K6.builder", "crate::operator::conj::DFSConj::from_conjunctions", "DFSGoal::Succeed", "DFSConj::new", "DFSConj::from_array")
    check_from_conjunctions(ctx, lib, R + "K6.builder", "crate::operator::disj::DFSDisj::from_conjunctions", "DFSGoal::Fail", "DFSDisj::new", "DFSConj::from_array")
    check_dfs_operator(ctx, lib, R + "K5.dfs-operator")
    streams.census(ctx, lib, R + "K1.construction-sites", ALLOWED_SITES, FLOORS)
    # clause / conjunct order is established by the builders the macros call (project / for bodies,
    # cond / match arms): total order-preserving folds (rules shared with C13 / C14)
    import C13
    import C14

    for f in ("from_array", "from_vec"):
        C14.check_fold(ctx, lib, R + "K6.builder", "crate::operator::conj::InferredConj::" + f, "InferredConj::new")
    C14.check_fold(ctx, lib, R + "K6.builder", "crate::operator::conj::InferredConj::from_conjunctions", "InferredConj::new", inner="InferredConj::from_array")
    C13.check_conde_builder(ctx, lib, R + "K6.conde-builder")
    import builders

    builders.check_all(ctx, lib, R + "K6.builders")
    streams.check_operator_kinds(ctx, lib, R + "K10.operator-search-kind")


def check_from_conjunctions(ctx, lib, rule, fn_suffix, unit, new, inner):
    """from_conjunctions(&[&[G]]): right fold over reversed clauses, each clause turned into a conjunction by `inner`."""
    fn = streams.getfn(ctx, lib, rule, fn_suffix)
    if not fn:
        return
    # the element is map(|c| inner(c)): accept the map closure as 1:1 when its body is inner(arg0)
    t = streams.plain_evaluator(lib).fn_term(fn)
    maps = [c for c in sym.calls(t, "map")]
    okmap = False
    for m in maps:
        if len(m[2]) == 2 and m[2][1][0] == "closure":
            body = tables.result(m[2][1][3])
            if body[0] == "call" and suffix_match(body[1], inner) and body[2] and body[2][0][0] == "cparam":
                okmap = True
    ctx.expect(okmap, rule, fn["npath"] + "|clause-conj", site_of(fn), "each clause must be turned into a conjunction with %s(clause)" % inner)
    streams.check_right_fold(ctx, lib, rule, fn_suffix, unit, new)


def run_once(ctx, tier):
    import witness

    witness.run(ctx, "C05", ['w1_dfs_barrier'])
