"""C05 - Depth-first search yields answers in Prolog order.

Decided (structural): the DFS stream equations. If they hold, left-to-right depth-first
order follows by induction on the goal tree:
  merge_dfs(s, l)   keeps everything of s before l            (Stream::mplus_dfs)
  bind_dfs(s, g)    distributes g over s head-first           (Stream::bind_dfs)
  step(MPlusDFS(a,b)) = merge_dfs(step(a), b) ; step(BindDFS(s,g)) = bind_dfs(step(s), g)
  DFSDisj.solve     = MPlusDFS(Pause(s,g1), Pause(s,g2))
  DFSConj.solve     = BindDFS(Pause(s,g1), g2)
  cond / Conde(DFS) = c0 ++ (c1 ++ (c2 ++ ...))    (fold over reversed clauses, new stream first)
  builders are right folds over the reversed sequence (written order kept)
  dfs{} maps the 4 DFSGoal variants to the same 4 variants of the parent kind.
"""
import streams
import sym
import tables
from pat import pat
from report import site_of
from streams import BFS, DFS
from sym import show, suffix_match, unify

EXPLANATION = (
    "Static check of the DFS stream equations on the typed HIR of /repo (symbolic terms with constructor wrappers inlined): "
    "merge/bind/step/solve tables for MPlusDFS, BindDFS, PauseDFS, the DFS fold of cond, order-preserving builders, the dfs{} variant map, "
    "and a census of every construction site of the three DFS lazy nodes. Decides the code shape, not answer order of a given program."
)
NOT_DECIDED = "the induction from the equations to Prolog order, termination of a given DFS search; the type barrier (no BFS goal inside dfs{}) is witnessed by witness/ (compile-fail) in the thorough tier"

ALLOWED_SITES = {
    "Lazy::MPlusDFS": ["Stream::mplus_dfs", "Stream::bind_dfs", "DFSDisj as crate::solver::Solve>::solve", "LazyStream::mplus_dfs", "Stream::lazy_mplus_dfs"],
    "Lazy::BindDFS": ["Stream::bind_dfs", "Stream::lazy_bind_dfs", "LazyStream::bind_dfs", "DFSConj as crate::solver::Solve>::solve", "InferredConj as crate::solver::Solve>::solve"],
    "Lazy::PauseDFS": [
        "Stream::bind_dfs",
        "Stream::pause_dfs",
        "LazyStream::pause_dfs",
        "DFSConj as crate::solver::Solve>::solve",
        "InferredConj as crate::solver::Solve>::solve",
        "DFSDisj as crate::solver::Solve>::solve",
        "Fresh as crate::solver::Solve>::solve",
    ],
}
FLOORS = {"Lazy::MPlusDFS": 4, "Lazy::BindDFS": 4, "Lazy::PauseDFS": 7}


def census(ctx, lib, rule, allowed, floors):
    """Every construction site of the listed Lazy variants lies in a function covered by a table."""
    ev = streams.evaluator(lib)
    counts = {k: 0 for k in allowed}
    for p, fn in sorted(lib.fns.items()):
        if "hir" not in fn or fn.get("in_test_mod") or fn["span"].endswith("!"):
            continue
        t = ev.fn_term(fn)
        for variant, okfns in allowed.items():
            n = len(list(sym.ctors(t, variant)))
            if not n:
                continue
            counts[variant] += n
            ctx.fn_seen(p)
            if any(p.endswith(s) or s in p for s in okfns):
                ctx.ok(rule, "%s|constructs=%s" % (p, variant), site_of(fn), "%d site(s)" % n)
            else:
                ctx.violation(rule, "%s|constructs=%s" % (p, variant), site_of(fn), "function builds a %s node but is not covered by an equation table (unrecognised construction site)" % variant)
    for variant, n in counts.items():
        ctx.floor(rule, n, floors[variant], "%s construction sites" % variant)


def check_conde_fold(ctx, lib, rule, mode):
    """Conde::solve, branch of `mode`: stream = Empty; for c in clauses[1..] reversed: stream = merge(solve(c, state.clone()), Delay(stream));
    then stream = merge(solve(clauses[0], state), Delay(stream))."""
    fn = streams.getfn(ctx, lib, rule, "<crate::operator::conde::Conde as crate::solver::Solve>::solve")
    if not fn:
        return
    t = streams.plain_evaluator(lib).fn_term(fn)
    key = fn["npath"] + "|" + mode["name"]
    site = site_of(fn)
    # find the branch
    cur = tables.result(t)
    branch = None
    dc = None
    goalname = "goal::%s>" % mode["goal"]
    while isinstance(cur, tuple) and cur and cur[0] == "if":
        cond = cur[1]
        if cond[0] == "iflet" and cond[2][0] == "call" and "downcast_ref" in cond[2][1] and ("Conde<crate::goal::%s>" % mode["goal"] in cond[2][1] or "Conde<goal::%s>" % mode["goal"] in cond[2][1]):
            branch, dc = cur[2], cond[2]
            break
        cur = tables.result(cur[3]) if cur[3] is not None else None
    if branch is None:
        ctx.violation(rule, key + "|branch", site, "no branch selected by a downcast to Conde<%s> found" % mode["goal"])
        return
    eff, res = tables.flatten(branch)
    clauses = ("field", ("proj", dc, sym.ANY, 0), "conjunctions")
    if not (res and res[0] == "var"):
        ctx.violation(rule, key + "|shape", site, "branch does not return its accumulated stream: %s" % show(res, maxdepth=3))
        return
    acc = res
    merge = mode["mplus"]
    steps = []  # (kind, clause-source, node)

    def visit(e, guard):
        if e[0] == "if":
            for sub in tables.stmts_of(e[2]):
                visit(sub, e[1])
        elif e[0] == "for":
            for sub in tables.stmts_of(e[3]):
                if sub[0] == "assign" and sub[1] == acc:
                    steps.append(("loop", e[1], sub[2], ("item", e[1])))
        elif e[0] == "assign" and e[1] == acc:
            steps.append(("single", None, e[2], None))

    for e in eff:
        visit(e, None)
    init = [e for e in eff if e[0] == "let" and e[1][0] == "pbind" and e[1][1] == acc[1]]
    ctx.expect(bool(init) and unify(pat("Stream::Empty"), init[0][2]) is not None, rule, key + "|init", site, "accumulator must start as the empty stream")
    ok = True
    order = []
    for kind, it, rhs, item in steps:
        want_new = sym.V("new")
        shape = ("call", sym.P(merge), (want_new, ("ctor", sym.P("LazyStream"), (("ctor", sym.P("Lazy::Delay"), (acc,)),))))
        b = unify(shape, rhs)
        if b is None:
            ctx.violation(rule, key + "|step", site, "each step must be acc = %s(<stream of the clause>, Delay(acc)): new stream first, accumulated alternatives delayed second; found %s" % (merge, show(rhs, maxdepth=5)[:300]))
            ok = False
            continue
        new = b["new"]
        if not (new[0] == "call" and suffix_match(new[1], "solve") and len(new[2]) == 3):
            ctx.violation(rule, key + "|step-solve", site, "the merged stream must be clause.solve(solver, state): %s" % show(new, maxdepth=4)[:200])
            ok = False
            continue
        who = new[2][0]
        if kind == "loop":
            if who != item:
                ctx.violation(rule, key + "|step-item", site, "loop step solves %s instead of the loop's clause" % show(who, maxdepth=3))
                ok = False
            src, chain = streams.iter_chain(it)
            names = [n for n, _ in chain]
            rev = names.count("rev") % 2 == 1
            # acceptable: iter().rev().take(len-1) | iter().skip(1).rev() | iter().rev() (no separate first)
            lossy = [n for n in names if n not in streams.ONE_TO_ONE and n != "rev"]
            good_src = unify(clauses, src) is not None
            desc = None
            if good_src and rev and not lossy:
                desc = "all-reversed"
            elif good_src and rev and lossy == ["take"] and names.index("take") > names.index("rev"):
                tk = [n for n in chain if n[0] == "take"][0][1]
                cnt = tk[2][1]
                if cnt[0] == "binop" and cnt[1] == "Sub" and cnt[3] == ("lit", cnt[3][1]) and "Pu128(1)" in cnt[3][1] and cnt[2][0] == "call" and suffix_match(cnt[2][1], "len"):
                    desc = "reversed-without-first"
            elif good_src and rev and lossy == ["skip"] and names.index("skip") < names.index("rev"):
                sk = [n for n in chain if n[0] == "skip"][0][1]
                if "Pu128(1)" in str(sk[2][1]):
                    desc = "reversed-without-first"
            if desc is None:
                ctx.violation(rule, key + "|iteration", site, "clauses must be folded from the last to the second (reverse iteration, nothing skipped but clause 0): %s" % show(it, maxdepth=6)[:240])
                ok = False
            order.append(desc)
        else:
            first = ("index", clauses, sym.ANY)
            if unify(first, who) is None or "Pu128(0)" not in str(who[2]):
                ctx.violation(rule, key + "|first", site, "the separately handled clause must be clause 0: %s" % show(who, maxdepth=4))
                ok = False
            order.append("first")
    if ok:
        if order == ["reversed-without-first", "first"] or order == ["all-reversed"]:
            ctx.ok(rule, key + "|fold", site, "clauses folded n-1..1 then 0; each new clause stream merged in front of the delayed accumulator")
        else:
            ctx.violation(rule, key + "|fold-order", site, "unrecognised fold sequence %s (expected reversed clauses 1.. then clause 0 last)" % order)


def check_dfs_operator(ctx, lib, rule):
    fn = streams.getfn(ctx, lib, rule, "crate::operator::dfs::dfs")
    if not fn:
        return
    t = streams.plain_evaluator(lib).fn_term(fn)
    g = "from_conjunctions(@0.body)"

    def wrap(inner):
        def f(body, b):
            res = tables.result(body)
            hits = [s for s in sym.subterms(res) if unify(pat(inner), s, b) is not None]
            # result must *be* the wrapped goal: InferredGoal{goal: X} or X
            if res[0] == "struct" and dict(res[2]).get("goal") is not None:
                return (unify(pat(inner), dict(res[2])["goal"], b), show(res, maxdepth=4))
            return (unify(pat(inner), res, b), show(res, maxdepth=4))

        return f

    tables.check_match_table(
        ctx,
        rule,
        fn["npath"],
        site_of(fn),
        t,
        g,
        {
            "DFSGoal::Succeed": wrap("succeed()"),
            "DFSGoal::Fail": wrap("fail()"),
            "DFSGoal::Breakpoint": wrap("breakpoint($g.DFSGoal::Breakpoint#0)"),
            "DFSGoal::Dynamic": wrap("dynamic($g.DFSGoal::Dynamic#0)"),
        },
    )
    # the body is a DFS conjunction of the written clauses
    sc = tables.result(t)[1] if tables.result(t)[0] == "match" else None
    ctx.expect(sc is not None and sc[0] == "call" and "DFSConj::from_conjunctions" in sc[1], rule, fn["npath"] + "|body", site_of(fn), "dfs{} must build its body with DFSConj::from_conjunctions (a depth-first conjunction)")
    # DFSGoal -> Goal conversion keeps the variant
    fn2 = streams.getfn(ctx, lib, rule, "<crate::goal::DFSGoal as std::convert::Into<crate::goal::Goal>>::into")
    if fn2:
        t2 = streams.plain_evaluator(lib).fn_term(fn2)
        tables.check_match_table(
            ctx,
            rule,
            fn2["npath"],
            site_of(fn2),
            t2,
            "@0",
            {
                "DFSGoal::Succeed": "Goal::Succeed",
                "DFSGoal::Fail": "Goal::Fail",
                "DFSGoal::Breakpoint": "Goal::Breakpoint(@0.DFSGoal::Breakpoint#0)",
                "DFSGoal::Dynamic": "Goal::Dynamic(@0.DFSGoal::Dynamic#0)",
            },
        )


def run(ctx, fb, cfg):
    lib = fb.lib
    R = "C05."
    streams.check_mplus(ctx, lib, DFS, R + "K3.merge-dfs")
    streams.check_bind(ctx, lib, DFS, R + "K3.bind-dfs")
    streams.check_conj_solve(ctx, lib, DFS, R + "K3.conj-dfs", "<crate::operator::conj::DFSConj as crate::solver::Solve>::solve")
    streams.check_inferred_conj(ctx, lib, R + "K3.inferred-conj", ["dfs"])
    streams.check_disj_solve(ctx, lib, DFS, R + "K3.disj-dfs", "<crate::operator::disj::DFSDisj as crate::solver::Solve>::solve")
    streams.check_engine_step(ctx, lib, R + "K5.engine-step", [DFS])
    streams.check_engine_delay_iter(ctx, lib, R + "K3.engine-iter")
    streams.check_start(ctx, lib, DFS, R + "K3.start-dfs")
    check_conde_fold(ctx, lib, R + "K6.cond-fold", DFS)
    for f in ("from_vec", "from_array"):
        streams.check_right_fold(ctx, lib, R + "K6.builder", "crate::operator::conj::DFSConj::" + f, "DFSGoal::Succeed", "DFSConj::new")
        streams.check_right_fold(ctx, lib, R + "K6.builder", "crate::operator::disj::DFSDisj::" + f, "DFSGoal::Fail", "DFSDisj::new")
    streams.check_conj_new(ctx, lib, R + "K6.conj-new", "crate::operator::conj::DFSConj::new", "DFSGoal", "DFSConj")
    check_from_conjunctions(ctx, lib, R + "K6.builder", "crate::operator::conj::DFSConj::from_conjunctions", "DFSGoal::Succeed", "DFSConj::new", "DFSConj::from_array")
    check_from_conjunctions(ctx, lib, R + "K6.builder", "crate::operator::disj::DFSDisj::from_conjunctions", "DFSGoal::Fail", "DFSDisj::new", "DFSConj::from_array")
    check_dfs_operator(ctx, lib, R + "K5.dfs-operator")
    census(ctx, lib, R + "K1.construction-sites", ALLOWED_SITES, FLOORS)


def check_from_conjunctions(ctx, lib, rule, fn_suffix, unit, new, inner):
    """from_conjunctions(&[&[G]]): right fold over reversed clauses, each clause turned into a conjunction by `inner`."""
    fn = streams.getfn(ctx, lib, rule, fn_suffix)
    if not fn:
        return
    # the element is map(|c| inner(c)): accept the map closure as 1:1 when its body is inner(arg0)
    t = streams.plain_evaluator(lib).fn_term(fn)
    maps = [c for c in sym.calls(t, "map")]
    okmap = False
    for m in maps:
        if len(m[2]) == 2 and m[2][1][0] == "closure":
            body = tables.result(m[2][1][3])
            if body[0] == "call" and suffix_match(body[1], inner) and body[2] and body[2][0][0] == "cparam":
                okmap = True
    ctx.expect(okmap, rule, fn["npath"] + "|clause-conj", site_of(fn), "each clause must be turned into a conjunction with %s(clause)" % inner)
    streams.check_right_fold(ctx, lib, rule, fn_suffix, unit, new)
