"""C01 - Unification computes a most general unifier, with occurs check.

Decided: the structural skeleton of Robinson unification on a triangular substitution, as
instantiated with this repository's constructors (each line is a necessary condition):
 a both sides are walked in the incoming state and matched pairwise;
 b every binding is guarded by the occurs check on the same (variable, term), oriented
   (the variable side is the key), and mirrored into the extension;
 c structural arms: same var / equal values / Empty-Empty return the state unchanged; Cons-Cons
   recurses head-with-head and tail-with-tail, threading the state; Compound-Compound goes to
   the compound routine; everything else fails; the "same variable" arm precedes the binding arms;
 d compound unification: type ids compared first, children pairwise, arity / kind mismatch fail;
 e the occurs check descends into list heads and tails and into all compound children;
 f walk follows bindings only from bound variables;
 g State::unify: fresh extension, unify_rec, then process_extension with that same extension.
 (round 5, shared with C20) compound values: children() / walk* / eq / hash of the library impls (pairs,
   Option) and of the derive templates see every field, each field itself; CompoundObject::is_term.
"""
import streams
import sym
import tables
from pat import pat
from report import site_of
from sym import ANY, AnyOf, P, V, show, suffix_match, unify

EXPLANATION = (
    "Static check of the unification skeleton on typed-HIR symbolic terms of unify_rec, unify_rec_compound, SMap::walk/occurs_check/occurs_check_compound and State::unify: "
    "walk-both, occurs-checked + oriented + mirrored bindings, per-constructor arm table (no arm other than the listed ones may succeed), compound type/arity discipline, occurs-check descent, walk loop table."
)
NOT_DECIDED = "that the algorithm with this skeleton yields a most general unifier and succeeds exactly when one exists, for all term pairs and prior substitutions (a semantic theorem)"
TECHNIQUE = "static analysis: typed-HIR provenance / arm tables via rustc_private driver"

UNIFY = "crate::state::unification::unify_rec"
UNIFYC = "crate::state::unification::unify_rec_compound"


def side_ctor(p):
    """Top-level constructor of one component of a tuple pattern ('*' for wildcard/binding)."""
    cs = tables.pat_ctors(p)
    return cs[0].split("::")[-1] if cs and cs[0] not in ("*", "?") else "*"


def pair_kinds(p):
    """A tuple-pattern (or or-pattern of tuple patterns) -> list of (left, right) ctor names."""
    if p[0] == "por":
        out = []
        for a in p[1]:
            out += pair_kinds(a)
        return out
    if p[0] == "ptuple" and len(p[1]) == 2:
        return [(side_ctor(p[1][0]), side_ctor(p[1][1]))]
    if p[0] == "pwild" or (p[0] == "pbind" and p[3] is None):
        return [("*", "*")]
    return [("?", "?")]


def check_unify_rec(ctx, lib, rule):
    fn = streams.getfn(ctx, lib, rule, UNIFY)
    if not fn:
        return
    ev = sym.Evaluator(lib)
    t = ev.fn_term(fn)
    key = fn["npath"]
    site = site_of(fn)
    eff, m = tables.flatten(t)
    bad = [e for e in eff if not tables.harmless_effect(e)]
    if not (m and m[0] == "match" and m[1][0] == "tuple" and len(m[1][1]) == 2):
        ctx.violation(rule, key + "|shape", site, "unify_rec must match on the pair of walked terms")
        return
    # a. both sides walked in the incoming state
    U = pat("walk(@0.smap, @2)")
    Vv = pat("walk(@0.smap, @3)")
    uw, vw = m[1][1]
    ctx.expect(unify(U, uw) is not None, rule, key + "|walk-u", site, "left component must be walk(state.smap, u) in the incoming state; found %s" % show(uw, maxdepth=4))
    ctx.expect(unify(Vv, vw) is not None, rule, key + "|walk-v", site, "right component must be walk(state.smap, v) in the incoming state; found %s" % show(vw, maxdepth=4))
    ctx.expect(not bad, rule, key + "|no-effects-before-match", site, "unexpected statement before the match: %s" % (show(bad[0], maxdepth=3) if bad else ""))
    arms = []
    for i, (p, g, b) in enumerate(m[2]):
        for kind in pair_kinds(p):
            arms.append((kind, i, p, g, b))
    kinds = [a[0] for a in arms]
    OKSTATE = pat("Ok(@0)")
    ERR = pat("Err(_)")

    def one(kind):
        lst = [a for a in arms if a[0] == kind]
        if len(lst) != 1:
            ctx.violation(rule, key + "|arm=%s,%s" % kind, site, "expected exactly one arm for (%s, %s), found %d" % (kind + (len(lst),)))
            return None
        return lst[0]

    def projid(side, ctor, idx=0):
        return ("proj", side, P("LTermInner::" + ctor), idx)

    # (Var, Var) same id
    a = one(("Var", "Var"))
    idx_same = None
    if a:
        _, idx_same, p, g, b = a
        geq = g is not None and g[0] == "binop" and g[1] == "Eq" and {g[2], g[3]} == {("proj", uw, g[2][2], 0), ("proj", vw, g[3][2], 0)} and g[2][2].endswith("LTermInner::Var") and g[3][2].endswith("LTermInner::Var")
        ctx.expect(geq, rule, key + "|arm=Var,Var|guard", site, "the same-variable arm must be guarded by equality of the two variable ids; guard is %s" % (show(g, maxdepth=4) if g else "absent"))
        ctx.expect(unify(OKSTATE, tables.result(b)) is not None and not tables.semis(b), rule, key + "|arm=Var,Var|result", site, "same variable: the incoming state must be returned unchanged; found %s" % show(b, maxdepth=4)[:160])

    # binding arms
    def check_bind(kind, var_side, other_side, label):
        a = one(kind)
        if not a:
            return None
        _, idx, p, g, b = a
        k = key + "|arm=%s" % label
        ctx.expect(g is None, rule, k + "|unguarded", site, "binding arm must not be guarded")
        res = tables.result(b)
        good = res[0] == "if" and res[3] is not None
        if not good:
            ctx.violation(rule, k + "|occurs-guard", site, "binding must be an if/else on the occurs check; found %s" % show(res, maxdepth=3)[:160])
            return idx
        cond, then, els = res[1], res[2], res[3]
        oc = ("call", P("SMap::occurs_check"), (pat("@0.smap"), var_side, other_side))
        ctx.expect(unify(oc, cond) is not None, rule, k + "|occurs-check", site, "the binding must be guarded by occurs_check(state.smap, <variable side>, <other side>); condition is %s" % show(cond, maxdepth=5)[:200])
        ctx.expect(unify(ERR, tables.result(then)) is not None, rule, k + "|occurs-fails", site, "a positive occurs check must fail the unification; found %s" % show(then, maxdepth=3))
        st = [e for e in tables.stmts_of(els) if not tables.harmless_effect(e)]
        ext_state = ("call", P("SMap::extend"), (pat("@0.smap"), var_side, other_side))
        ext_ext = ("call", P("SMap::extend"), (pat("@1"), var_side, other_side))
        has_state = [s for s in st if unify(ext_state, s) is not None]
        has_ext = [s for s in st if unify(ext_ext, s) is not None]
        extends = [s for s in st if s[0] == "call" and suffix_match(s[1], "SMap::extend")]
        ctx.expect(len(has_state) == 1, rule, k + "|oriented-binding", site, "exactly one binding <variable side> -> <other side> must be added to the state's substitution; found %s" % [show(s, maxdepth=4)[:120] for s in extends])
        ctx.expect(len(has_ext) == 1, rule, k + "|mirrored", site, "the same (variable, term) pair must be recorded in the extension; found %s" % [show(s, maxdepth=4)[:120] for s in extends])
        ctx.expect(len(extends) == 2, rule, k + "|only-these", site, "no other substitution update is allowed in a binding arm")
        ctx.expect(unify(OKSTATE, st[-1]) is not None if st else False, rule, k + "|result", site, "the extended state must be returned")
        return idx

    iu = check_bind(("Var", "*"), uw, vw, "Var,_")
    iv = check_bind(("*", "Var"), vw, uw, "_,Var")
    if idx_same is not None:
        for nm, ix in (("Var,_", iu), ("_,Var", iv)):
            if ix is not None:
                ctx.expect(idx_same < ix, rule, key + "|order|same-var-before-%s" % nm, site, "the same-variable arm must precede the binding arm (%s): otherwise x == x runs into the occurs check" % nm)

    a = one(("Val", "Val"))
    if a:
        _, idx, p, g, b = a
        geq = g is not None and g[0] == "binop" and g[1] == "Eq" and {g[2], g[3]} == {("proj", uw, g[2][2], 0), ("proj", vw, g[3][2], 0)}
        ctx.expect(geq, rule, key + "|arm=Val,Val|guard", site, "values unify only under an equality guard on the two values; guard is %s" % (show(g, maxdepth=4) if g else "absent"))
        ctx.expect(unify(OKSTATE, tables.result(b)) is not None and not tables.semis(b), rule, key + "|arm=Val,Val|result", site, "equal values: state unchanged")
    a = one(("Empty", "Empty"))
    if a:
        _, idx, p, g, b = a
        ctx.expect(g is None and unify(OKSTATE, tables.result(b)) is not None and not tables.semis(b), rule, key + "|arm=Empty,Empty", site, "empty lists unify without change")
    a = one(("Cons", "Cons"))
    if a:
        _, idx, p, g, b = a
        k = key + "|arm=Cons,Cons"
        calls = [c for c in sym.calls(b, "unify_rec") if len(c[2]) == 4]
        # distinct calls
        uniq = []
        for c in calls:
            if c not in uniq:
                uniq.append(c)
        inner = [c for c in uniq if unify(pat("@0"), c[2][0]) is not None]
        outer = [c for c in uniq if c not in inner]
        good = len(inner) == 1 and len(outer) == 1 and g is None
        if good:
            c1, c2 = inner[0], outer[0]

            def comp(c):
                x, y = c[2][2], c[2][3]
                for i in (0, 1):
                    if {x, y} == {("proj", uw, x[2], i), ("proj", vw, y[2], i)} and x[0] == "proj" and x[2].endswith("LTermInner::Cons") and y[2].endswith("LTermInner::Cons") and x != y:
                        return i
                return None

            i1, i2 = comp(c1), comp(c2)
            good = i1 is not None and i2 is not None and {i1, i2} == {0, 1}
            st2 = c2[2][0]
            threaded = st2 == ("try", c1) or (st2[0] == "proj" and st2[1] == c1 and st2[2].endswith("Ok"))
            good = good and threaded and unify(pat("@1"), c1[2][1]) is not None and unify(pat("@1"), c2[2][1]) is not None
            # the arm's value is the outer call (in the Ok branch) and errors propagate
            res = tables.result(b)
            if res[0] == "match":
                okarm = tables.find_arm(res, "Ok")
                errarm = tables.find_arm(res, "Err")
                good = good and len(okarm) == 1 and tables.result(okarm[0][2]) == c2 and len(errarm) == 1 and unify(ERR, tables.result(errarm[0][2])) is not None and res[1] == c1
            else:
                good = good and res == c2
        ctx.expect(good, rule, k, site, "lists must unify head-with-head and tail-with-tail, the second recursion receiving the Ok state of the first; found %s" % show(b, maxdepth=6)[:300])
    a = one(("Compound", "Compound"))
    if a:
        _, idx, p, g, b = a
        want = ("call", P("unify_rec_compound"), (pat("@0"), pat("@1"), ("proj", uw, P("LTermInner::Compound"), 0), ("proj", vw, P("LTermInner::Compound"), 0)))
        ctx.expect(g is None and unify(want, tables.result(b)) is not None, rule, key + "|arm=Compound,Compound", site, "compound terms must be unified by the compound routine on both payloads; found %s" % show(b, maxdepth=5)[:200])
    # user terms: hook
    for a in [x for x in arms if "User" in x[0]]:
        res = tables.result(a[4])
        ctx.expect(res[0] == "call" and suffix_match(res[1], "unify") and "User" in res[1], rule, key + "|arm=User", site, "user-defined terms must be delegated to User::unify; found %s" % show(res, maxdepth=3))
    # everything else fails; full wildcard is last
    listed = {("Var", "Var"), ("Var", "*"), ("*", "Var"), ("Val", "Val"), ("Empty", "Empty"), ("Cons", "Cons"), ("Compound", "Compound"), ("User", "*"), ("*", "User")}
    for kind, i, p, g, b in arms:
        if kind in listed:
            continue
        isfail = unify(ERR, tables.result(b)) is not None and not [r for r in sym.subterms(b) if r[0] == "ctor" and r[1].endswith("::Ok")]
        ctx.expect(isfail, rule, key + "|arm=%s,%s|fails" % kind, site, "terms with different constructors must never unify: arm (%s, %s) can return Ok" % kind)
    wild = [i for kind, i, p, g, b in arms if kind == ("*", "*")]
    ctx.expect(len(wild) == 1 and wild[0] == len(m[2]) - 1, rule, key + "|fallback-last", site, "there must be one catch-all arm and it must be the last arm (an earlier catch-all shadows the structural arms)")
    fb = [b for kind, i, p, g, b in arms if kind == ("*", "*")]
    if fb:
        ctx.expect(unify(ERR, tables.result(fb[0])) is not None, rule, key + "|fallback-fails", site, "the catch-all arm must fail")
    ctx.floor(rule, len([e for e in sym.calls(t, "SMap::extend") if unify(pat("@0.smap"), e[2][0]) is not None]), 2, "state-substitution extensions in unify_rec")


def check_compound(ctx, lib, rule):
    fn = streams.getfn(ctx, lib, rule, UNIFYC)
    if not fn:
        return
    t = sym.Evaluator(lib, named_lets=True).fn_term(fn)
    key = fn["npath"]
    site = site_of(fn)
    eff, res = tables.flatten(t)
    st = [e for e in eff if not (e[0] == "let")] + [res]
    # first effectful statement: type id test
    first = st[0] if st else None
    okt = first is not None and first[0] == "if" and first[1][0] == "binop" and first[1][1] == "Ne" and all(x[0] == "call" and suffix_match(x[1], "type_id") for x in first[1][2:4]) and {first[1][2][2][0][0:2], first[1][3][2][0][0:2]} == {("param", 2), ("param", 3)}
    okt = okt and any(r[0] == "ret" and r[1] is not None and unify(pat("Err(_)"), r[1]) is not None for r in sym.subterms(first[2]))
    ctx.expect(okt, rule, key + "|type-id-first", site, "compound unification must start with `if type_id(u) != type_id(v) { return Err }`; found %s" % (show(first, maxdepth=4)[:200] if first else "nothing"))
    loops = [e for e in st if e[0] == "loop"]
    if len(loops) != 1:
        ctx.violation(rule, key + "|shape", site, "expected one loop over the children")
        return
    eff2, m = tables.flatten(loops[0][1])
    ok = m and m[0] == "match" and m[1][0] == "tuple" and len(m[1][1]) == 2 and all(c[0] == "call" and suffix_match(c[1], "next") for c in m[1][1])
    if ok:
        its = [c[2][0] for c in m[1][1]]
        srcs = []
        for it in its:
            base = it[3] if it[0] == "letv" else it
            srcs.append(base)
        ok = {s[2][0][0:2] for s in srcs if s[0] == "call" and suffix_match(s[1], "children")} == {("param", 2), ("param", 3)} and its[0] != its[1]
    ctx.expect(ok, rule, key + "|pairwise-children", site, "the loop must draw one child from each compound per iteration: (uchildren.next(), vchildren.next())")
    if not ok:
        return
    nu, nv = m[1][1]
    cu, cv = ("proj", nu, P("Some"), 0), ("proj", nv, P("Some"), 0)
    state = None
    for kind_, i, p, g, b in [(k, i, p, g, b) for i, (p, g, b) in enumerate(m[2]) for k in pair_kinds(p)]:
        k = key + "|arm=%s,%s" % kind_ + ("|guarded" if g is not None else "")
        sts = [e for e in tables.stmts_of(b) if not tables.harmless_effect(e)]
        if kind_ == ("Some", "Some") and g is not None:
            neg = [s for s in sym.subterms(g) if s[0] == "unop" and s[1] == "Not"]
            isterm = [c for c in sym.calls(g, "is_term")]
            if len(isterm) == 2 and not neg:
                # term / term
                a = [s for s in sts if s[0] == "assign"]
                good = len(a) == 1 and a[0][1][0] == "var"
                if good:
                    rhs = a[0][2]
                    call = rhs[1] if rhs[0] == "try" else rhs
                    good = call[0] == "call" and suffix_match(call[1], "unify_rec") and call[2][0] == a[0][1] and unify(pat("@1"), call[2][1]) is not None
                    if good:
                        x, y = call[2][2], call[2][3]
                        ux = ("call", P("unwrap"), (("call", P("as_term"), (cu,)),))
                        vy = ("call", P("unwrap"), (("call", P("as_term"), (cv,)),))
                        good = (unify(ux, x) is not None and unify(vy, y) is not None) or (unify(vy, x) is not None and unify(ux, y) is not None)
                        good = good and rhs[0] == "try"
                ctx.expect(good, rule, k + "|terms", site, "two term children must be unified with unify_rec, threading the state and propagating failure; found %s" % show(b, maxdepth=6)[:260])
            elif len(isterm) == 2 and len(neg) == 2:
                calls = [c for c in sym.calls(b, "unify_rec_compound")]
                good = bool(calls) and all(c[2][0][0] == "var" and unify(pat("@1"), c[2][1]) is not None and ((unify(cu, c[2][2]) is not None and unify(cv, c[2][3]) is not None) or (unify(cv, c[2][2]) is not None and unify(cu, c[2][3]) is not None)) for c in calls)
                asg = [s for s in sym.subterms(b) if s[0] == "assign" and s[1][0] == "var"]
                rets = [s for s in sym.subterms(b) if s[0] == "ret"]
                good = good and ((len(asg) == 1 and (asg[0][2] == ("try", calls[0]) or (asg[0][2][0] == "proj" and asg[0][2][1] == calls[0]))) ) and (asg[0][2][0] == "try" or any(unify(pat("Err(_)"), r[1]) is not None for r in rets if r[1] is not None))
                ctx.expect(good, rule, k + "|objects", site, "two nested objects must be unified recursively by the compound routine, threading the state and propagating failure; found %s" % show(b, maxdepth=6)[:260])
            else:
                ctx.violation(rule, k + "|guard", site, "unrecognised guard on (Some, Some): %s" % show(g, maxdepth=4))
        elif kind_ == ("None", "None"):
            good = g is None and len(sts) == 1 and sts[0][0] == "ret" and sts[0][1] is not None and sts[0][1][0] == "ctor" and sts[0][1][1].endswith("Ok") and sts[0][1][2][0][0] == "var"
            ctx.expect(good, rule, k, site, "both child lists exhausted together: success with the threaded state")
        else:
            good = len(sts) == 1 and sts[0][0] == "ret" and sts[0][1] is not None and unify(pat("Err(_)"), sts[0][1]) is not None
            ctx.expect(good, rule, k + "|fails", site, "arity or kind mismatch of children must fail; arm (%s, %s) does %s" % (kind_ + (show(b, maxdepth=4)[:120],)))
    kinds = [k for (p, g, b) in m[2] for k in pair_kinds(p)]
    ctx.expect(kinds.count(("Some", "Some")) >= 2 and ("None", "None") in kinds and ("*", "*") in kinds, rule, key + "|arms-present", site, "expected arms (Some,Some)x2, (None,None) and a failing catch-all; found %s" % kinds)


def check_occurs(ctx, lib, rule):
    fn = streams.getfn(ctx, lib, rule, "crate::state::substitution::SMap::occurs_check")
    if fn:
        t = sym.Evaluator(lib).fn_term(fn)
        key = fn["npath"]
        site = site_of(fn)
        W = pat("walk(@0, @2)")
        rec = lambda sub: ("call", P("SMap::occurs_check"), (pat("@0"), pat("@1"), sub))

        def cons_arm(body, b):
            r = tables.result(body)
            h = rec(("proj", W, P("LTermInner::Cons"), 0))
            tl = rec(("proj", W, P("LTermInner::Cons"), 1))
            good = r[0] == "binop" and r[1] == "Or" and ((unify(h, r[2]) is not None and unify(tl, r[3]) is not None) or (unify(tl, r[2]) is not None and unify(h, r[3]) is not None))
            return (b if good else None, "must check the head OR the tail")

        def var_arm(body, b):
            r = tables.result(body)
            # compares the id of walk(v) with the id of x
            eqs = [s for s in sym.subterms(r) if s[0] == "binop" and s[1] == "Eq"]
            good = len(eqs) == 1 and {eqs[0][2][0], eqs[0][3][0]} == {"proj"} and unify(AnyOf(("proj", W, P("LTermInner::Var"), 0)), eqs[0][2]) is not None or (len(eqs) == 1 and unify(("proj", W, P("LTermInner::Var"), 0), eqs[0][3]) is not None)
            if good:
                other = eqs[0][3] if unify(("proj", W, P("LTermInner::Var"), 0), eqs[0][2]) is not None else eqs[0][2]
                good = unify(("proj", pat("@1"), P("LTermInner::Var"), 0), other) is not None
            return (b if good else None, "a variable occurs in itself only: compare variable ids of walk(v) and x")

        tables.check_match_table(
            ctx,
            rule,
            key,
            site,
            t,
            W,
            {
                "LTermInner::Var": var_arm,
                "LTermInner::Cons": cons_arm,
                "LTermInner::Compound": ("call", P("occurs_check_compound"), (pat("@0"), pat("@1"), ("proj", W, P("LTermInner::Compound"), 0))),
            },
        )
    fn = streams.getfn(ctx, lib, rule, "crate::state::substitution::SMap::occurs_check_compound")
    if fn:
        t = sym.Evaluator(lib).fn_term(fn)
        key = fn["npath"]
        site = site_of(fn)
        r = tables.result(t)
        good = r[0] == "call" and suffix_match(r[1], "any") and len(r[2]) == 2 and r[2][1][0] == "closure"
        if good:
            src, chain = streams.iter_chain(r[2][0])
            good = src[0:2] == ("param", 2) and [n for n, _ in chain] == ["children"]
        ctx.expect(good, rule, key + "|all-children", site, "the compound occurs check must look at *every* child: children().any(..) with no other adaptor; found %s" % show(r, maxdepth=4)[:200])
        if good:
            body = tables.result(r[2][1][3])
            calls_t = [c for c in sym.calls(body, "SMap::occurs_check")]
            calls_o = [c for c in sym.calls(body, "occurs_check_compound")]
            good2 = bool(calls_t) and bool(calls_o) and all(unify(pat("@1"), c[2][1]) is not None for c in calls_t + calls_o)
            ctx.expect(good2, rule, key + "|recurses", site, "children that are terms go to occurs_check, nested objects to occurs_check_compound, with the same variable")


def check_walk(ctx, lib, rule):
    fn = streams.getfn(ctx, lib, rule, "crate::state::substitution::SMap::walk")
    if not fn:
        return
    t = sym.Evaluator(lib).fn_term(fn)
    key = fn["npath"]
    site = site_of(fn)
    r = tables.result(t)
    if not (r[0] == "loop"):
        ctx.violation(rule, key + "|shape", site, "walk must be a loop over bindings; found %s" % show(r, maxdepth=3))
        return
    eff, m = tables.flatten(r[1])
    ok = m and m[0] == "match" and m[1][0] == "var"
    if not ok:
        ctx.violation(rule, key + "|shape", site, "walk must match on the current term")
        return
    k = m[1]

    def var_arm(body, b):
        r2 = tables.result(body)
        if not (r2[0] == "match" and r2[1][0] == "call" and suffix_match(r2[1][1], "get") and r2[1][2][1] == k and unify(pat("@0.0"), r2[1][2][0]) is not None):
            return (None, "a variable must be looked up in the substitution: self.0.get(k)")
        some = tables.find_arm(r2, "Some")
        none = tables.find_arm(r2, "None")
        if len(some) != 1 or len(none) != 1:
            return (None, "Some/None arms expected")
        s = [e for e in tables.stmts_of(some[0][2]) if not tables.harmless_effect(e)]
        n = [e for e in tables.stmts_of(none[0][2]) if not tables.harmless_effect(e)]
        good = len(s) == 1 and s[0] == ("assign", k, ("proj", r2[1], s[0][2][2], 0)) and len(n) == 1 and n[0] == ("ret", k)
        return (b if good else None, "bound variable: continue from its binding; unbound variable: return it")

    def other(body, b):
        n = [e for e in tables.stmts_of(body) if not tables.harmless_effect(e)]
        return (b if len(n) == 1 and n[0] == ("ret", k) else None, "a non-variable is returned as is")

    tables.check_match_table(ctx, rule, key, site, r[1], k, {"LTermInner::Var": var_arm})
    wild = [b for p, g, b in m[2] if "*" in tables.pat_ctors(p)]
    ctx.expect(len(wild) == 1 and other(wild[0], {})[0] is not None, rule, key + "|non-var", site, "a non-variable term must be returned unchanged")
    # k starts as the parameter
    init = [e for e in tables.flatten(t)[0] if e[0] == "let"]
    ctx.count("walk_paths", 3)


def check_state_unify(ctx, lib, rule):
    fn = streams.getfn(ctx, lib, rule, "crate::state::State::unify")
    if not fn:
        return
    t = sym.Evaluator(lib, named_lets=True).fn_term(fn)
    key = fn["npath"]
    site = site_of(fn)
    r = tables.result(t)
    ext = V("ext")
    want = ("call", P("process_extension"), (("try", ("call", P("unify_rec"), (pat("@0"), ext, pat("@1"), pat("@2")))), ext))
    b = None
    if r[0] == "call" and len(r[2]) == 2:
        e1 = r[2][1]
        inner = r[2][0]
        call = inner[1] if inner[0] == "try" else None
        if call and call[0] == "call" and suffix_match(call[1], "unify_rec") and suffix_match(r[1], "process_extension"):
            e0 = call[2][1]
            same = e0 == e1 and e0[0] == "letv"
            fresh = same and unify(AnyOf(pat("SMap(new())"), pat("new()")), e0[3]) is not None
            args_ok = unify(pat("@0"), call[2][0]) is not None and unify(pat("@1"), call[2][2]) is not None and unify(pat("@2"), call[2][3]) is not None
            b = same and fresh and args_ok
    ctx.expect(bool(b), rule, key + "|pipeline", site, "State::unify must be process_extension(unify_rec(self, &mut ext, u, v)?, ext) with one fresh extension; found %s" % show(r, maxdepth=6)[:260])
    # Eq goal: solve = unify(state, u, v) -> Unit / Empty
    fn = streams.getfn(ctx, lib, rule, "<crate::relation::eq::Eq as crate::solver::Solve>::solve")
    if fn:
        t = sym.Evaluator(lib).fn_term(fn)
        U = pat("unify(@2, @0.u, @0.v)")
        tables.check_match_table(ctx, rule, fn["npath"], site_of(fn), t, AnyOf(U, pat("unify(@2, @0.v, @0.u)")), {"Ok": lambda body, b: (unify(("ctor", P("Stream::Unit"), (("proj", V("m"), P("Ok"), 0),)), tables.result(body), b), "Ok(state) -> unit stream of that state"), "Err": "Stream::Empty"})


def check_primitives(ctx, lib, rule):
    """SMap::extend(k, v) records exactly k -> v (the bind tables above pass (variable, term) in
    that order and rely on it); with_smap replaces only the substitution."""
    ev = sym.Evaluator(lib, inline=lambda p, f: False)
    fn = streams.getfn(ctx, lib, rule, "crate::state::substitution::SMap::extend")
    if fn:
        t = ev.fn_term(fn)
        ins = list(dict.fromkeys(c for c in sym.calls(t, "insert")))
        ok = len(ins) == 1 and ins[0][2][0] == ("field", ("param", 0, "self"), "0") and ins[0][2][1][:2] == ("param", 1) and ins[0][2][2][:2] == ("param", 2) and not [s for s in sym.subterms(t) if s[0] in ("if", "match", "ret")]
        ctx.expect(ok, rule, "SMap::extend|records-k-to-v", site_of(fn), "SMap::extend(k, v) must insert k -> v unconditionally; found %s" % show(t, maxdepth=5)[:160])
    fn = streams.getfn(ctx, lib, rule, "crate::state::State::with_smap")
    if fn:
        t = ev.fn_term(fn)
        nodes = [s for s in sym.subterms(t) if s[0] == "struct" and s[1].endswith("state::State")]
        ok = len(nodes) == 1 and len(nodes[0]) == 4 and nodes[0][3][:2] == ("param", 0) and [n for n, v in nodes[0][2]] == ["smap"] and any(x[:2] == ("param", 1) for x in sym.subterms(dict(nodes[0][2])["smap"]))
        ctx.expect(ok, rule, "State::with_smap|replaces-only-smap", site_of(fn), "with_smap must keep every other part of the state (`..self`) and install the given map")
    import termkinds

    termkinds.check_term_kinds(ctx, lib, rule.replace("K3.primitives", "K5.term-kinds"))


def run(ctx, fb, cfg):
    lib = fb.lib
    R = "C01."
    check_unify_rec(ctx, lib, R + "K3K5.unify-rec")
    check_compound(ctx, lib, R + "K2K5.compound")
    check_primitives(ctx, lib, R + "K3.primitives")
    # "in every answer both sides resolve to the identical term": the answer is walk*(term) renamed
    # by a reifying map built from the *walked* term (rules shared with C03 / C20)
    import C03
    import traversal

    C03.check_reify_goal(ctx, lib, R + "K3.reify-goal")
    C03.check_smap_reify_var(ctx, lib, R + "K3.fresh-any-per-var")
    C03.check_reify_threading(ctx, lib, R + "K3.reify-threads")
    traversal.run_table(ctx, lib, R + "K5.walk-star-is-deep", only=["walk_star"])
    fn = streams.getfn(ctx, lib, R + "K3.walk-star-of-fields", "<crate::lterm::LTerm as crate::compound::CompoundWalkStar>::compound_walk_star")
    if fn:
        t = sym.Evaluator(lib).fn_term(fn)
        ctx.expect(unify(pat("walk_star(@1, @0)"), tables.result(t)) is not None and not tables.semis(t), R + "K3.walk-star-of-fields", "LTerm|walk_star", site_of(fn), "a term-valued compound field is resolved with walk*; found %s" % show(t, maxdepth=4)[:160])
    # compound values: children() lists every field, walk* / eq / hash of the library impls (pairs, Option) and of
    # the derive templates see every field, each field itself (shared with C20)
    import C15
    import C20

    C20.check_library(C15._Prefixed(ctx, "C01"), lib)
    if cfg == "lib-default":
        import macrolib

        S = macrolib.load_sem(ctx, fb)
        if S is not None:
            C20.check_derive(C15._Prefixed(ctx, "C01"), S)
    check_occurs(ctx, lib, R + "K5.occurs")
    check_walk(ctx, lib, R + "K6.walk")
    check_state_unify(ctx, lib, R + "K3.state-unify")
