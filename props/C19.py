"""C19 - CLP(Z) plusz/timesz constrain integers exactly.

Decided on the match of PlusZConstraint::run and TimesZConstraint::run (structural):
 a groundness patterns are exhaustive: each of the 8 combinations of {unbound variable, number}^3
   is matched by an arm other than the failing catch-all;
 b one equation: with (+) the constraint's operator and (-) its inverse, the all-ground arm tests
   u (+) v == w and the arms with two numbers bind the third to u (+) v, w (-) u, w (-) v;
 c division (timesz): a quotient is bound only on paths that establish divisor != 0 and an exact
   division; with a zero divisor nothing is bound: product 0 keeps the constraint, otherwise fail;
 d every binding is followed by run_constraints on that state (the arm's value);
 e under-determined arms re-add the constraint itself.
 (round 5, shared with C04) every escaping binding is followed by a re-run of the store.
"""
import streams
import sym
import tables
from pat import pat
from report import site_of
from sym import ANY, AnyOf, P, V, show, suffix_match, unify

NEEDS = {"clpz"}
EXPLANATION = (
    "Static table check of the groundness match of PlusZConstraint::run / TimesZConstraint::run on typed-HIR symbolic terms: pattern exhaustiveness over {var, number}^3, "
    "operator/inverse consistency across arms with operand provenance, path-literal rule for division (non-zero divisor and exactness before binding a quotient), "
    "re-run after binding and re-add when under-determined."
)
NOT_DECIDED = "behaviour on chains of constraints for all posting orders (only through C04's mechanism); overflow of intermediate integers is the documented precondition"
TECHNIQUE = "static analysis: HIR match-table exhaustiveness + arithmetic consistency + path-literal rules via rustc_private driver"

OPS = {"PlusZ": ("Add", "Sub"), "TimesZ": ("Mul", "Div")}


def comp_kind(p):
    """Pattern of one operand: 'V' (Var), 'N' (Val(Number)), '*' (anything), '?' other."""
    if p[0] == "pwild" or (p[0] == "pbind" and p[3] is None):
        return "*"
    if p[0] == "pctor" and p[1].endswith("LTermInner::Var"):
        return "V"
    if p[0] == "pctor" and p[1].endswith("LTermInner::Val") and p[2] and p[2][0][0] == "pctor" and p[2][0][1].endswith("LValue::Number"):
        return "N"
    return "?"


def arm_combos(p):
    """Set of combos in {V,N}^3 matched by a pattern (or-patterns expanded)."""
    if p[0] == "por":
        out = set()
        for a in p[1]:
            out |= arm_combos(a)
        return out
    if p[0] == "ptuple" and len(p[1]) == 3:
        ks = [comp_kind(x) for x in p[1]]
        if "?" in ks:
            return set()
        out = {""}
        for k in ks:
            out = {o + c for o in out for c in (("V", "N") if k == "*" else (k,))}
        return out
    if p[0] == "pwild" or (p[0] == "pbind" and p[3] is None):
        return {a + b + c for a in "VN" for b in "VN" for c in "VN"}
    return set()


def is_catch_all(p):
    return p[0] == "pwild" or (p[0] == "pbind" and p[3] is None) or (p[0] == "ptuple" and all(comp_kind(x) == "*" for x in p[1]))


def check_one(ctx, lib, rule, ty):
    mod = ty.lower()
    fn = streams.getfn(ctx, lib, rule, "<crate::relation::clpz::%s::%sConstraint as crate::state::constraint::Constraint>::run" % (mod, ty))
    if not fn:
        return
    t = sym.Evaluator(lib).fn_term(fn)
    key = fn["npath"]
    site = site_of(fn)
    eff, m = tables.flatten(t)
    ok = m and m[0] == "match" and m[1][0] == "tuple" and len(m[1][1]) == 3
    ctx.expect(ok, rule, key + "|shape", site, "run must match on the three walked operands")
    if not ok:
        return
    walks = m[1][1]
    for i, f in enumerate(("u", "v", "w")):
        ctx.expect(unify(pat("walk(@1.smap, @0.%s)" % f), walks[i]) is not None, rule, key + "|walk-%s" % f, site, "operand %d of the match must be walk(state.smap, self.%s); found %s" % (i, f, show(walks[i], maxdepth=4)))
    num = lambda w: ("proj", ("proj", w, P("LTermInner::Val"), 0), P("LValue::Number"), 0)
    Un, Vn, Wn = num(walks[0]), num(walks[1]), num(walks[2])
    op, inv = OPS[ty]
    # a. exhaustiveness
    covered = {}
    fallback = []
    for i, (p, g, b) in enumerate(m[2]):
        if is_catch_all(p):
            fallback.append((i, b))
            continue
        if g is not None:
            continue  # guarded arms do not count as coverage
        for c in arm_combos(p):
            covered.setdefault(c, (i, p, b))
    for c in sorted(a + b_ + c_ for a in "VN" for b_ in "VN" for c_ in "VN"):
        ctx.expect(c in covered, rule, key + "|covers=%s" % c, site, "groundness pattern %s (V = unbound variable, N = number; order u,v,w) is only matched by the failing catch-all arm: the constraint fails instead of waiting" % c)
    ctx.expect(len(fallback) == 1 and fallback[0][0] == len(m[2]) - 1 and unify(pat("Err(_)"), tables.result(fallback[0][1])) is not None, rule, key + "|fallback", site, "exactly one catch-all arm, last, failing (operands of an invalid kind)")
    STATE = pat("@1")
    SELF = pat("@0")
    READD = ("ctor", P("Ok"), (("call", P("with_constraint"), (STATE, SELF)),))

    def binop(o, a, b_):
        return ("binop", o, a, b_)

    def eqn(a, b_):
        return AnyOf(binop("Eq", a, b_), binop("Eq", b_, a))

    def comm(o, a, b_):
        return AnyOf(binop(o, a, b_), binop(o, b_, a)) if o in ("Add", "Mul") else binop(o, a, b_)

    # b. all ground
    if "NNN" in covered:
        i, p, b = covered["NNN"]
        r = tables.result(b)
        good = r[0] == "if" and r[3] is not None and unify(eqn(comm(op, Un, Vn), Wn), r[1]) is not None and unify(("ctor", P("Ok"), (STATE,)), tables.result(r[2])) is not None and unify(pat("Err(_)"), tables.result(r[3])) is not None
        ctx.expect(good, rule, key + "|equation=NNN", site, "all operands ground: must succeed exactly when u %s v == w (state unchanged) and fail otherwise; found %s" % (op, show(r, maxdepth=6)[:240]))

    def check_bind(combo, target_walk, value_pat, what, fail_ok=None):
        if combo not in covered:
            return
        i, p, b = covered[combo]
        k = key + "|equation=%s" % combo
        paths = tables.block_paths(b)
        ctx.count("paths_enumerated", len(paths))
        nb = 0
        allok = True
        for lits, effs, term in paths:
            ext = [e for e in effs if e[0] == "call" and suffix_match(e[1], "SMap::extend")]
            res = effs[-1] if effs else None
            if ext:
                nb += 1
                e = ext[0]
                good = len(ext) == 1 and unify(pat("@1.smap"), e[2][0]) is not None and e[2][1] == target_walk
                val = e[2][2]
                nums = [s for s in sym.subterms(val) if s[0] == "ctor" and s[1].endswith("LValue::Number")]
                inner = nums[0][2][0] if nums else (val[2][0] if val[0] == "call" and val[2] else val)
                vb = value_pat(inner, lits)
                good = good and vb
                # d. re-run: the arm's value on this path is run_constraints(state)
                rerun = res is not None and unify(("call", P("run_constraints"), (STATE,)), res) is not None
                if not good:
                    allok = False
                    ctx.violation(rule, k + "|binding", site, "%s: found binding %s under literals %s" % (what, show(e, maxdepth=6)[:200], [(show(l[0], maxdepth=4)[:70], l[1]) for l in lits]))
                if not rerun:
                    allok = False
                    ctx.violation(rule, k + "|rerun", site, "after binding an operand the constraint store must be re-run on that state (result must be state.run_constraints())")
            else:
                # no binding on this path: fail, or keep the constraint
                r2 = res
                okp = r2 is not None and (unify(pat("Err(_)"), r2) is not None or unify(READD, r2) is not None)
                if ty == "PlusZ":
                    okp = False  # addition always has a solution
                elif okp and unify(pat("Err(_)"), r2) is not None and fail_ok is not None and not fail_ok(lits):
                    okp = False
                    allok = False
                    ctx.violation(rule, k + "|unjustified-failure", site, "the constraint fails on a path that establishes neither a zero divisor with a non-zero product nor an inexact division: an integer solution may exist; literals %s" % [(show(l[0], maxdepth=4)[:70], l[1]) for l in lits])
                    continue
                if not okp:
                    allok = False
                    ctx.violation(rule, k + "|no-binding-path", site, "path without a binding must fail or keep the constraint (and plusz always binds): %s" % (show(r2, maxdepth=4) if r2 else "nothing"))
        if nb == 0:
            allok = False
            ctx.violation(rule, k + "|binds", site, "two operands ground: the third must be bound to the solution")
        if allok:
            ctx.ok(rule, k, site, what)

    def direct(expected):
        return lambda inner, lits: unify(expected, inner) is not None

    check_bind("NNV", walks[2], direct(comm(op, Un, Vn)), "w must be bound to u %s v" % op)
    if ty == "PlusZ":
        check_bind("NVN", walks[1], direct(binop("Sub", Wn, Un)), "v must be bound to w - u")
        check_bind("VNN", walks[0], direct(binop("Sub", Wn, Vn)), "u must be bound to w - v")
    else:
        check_bind("NVN", walks[1], quotient_rule(Wn, Un), "v must be bound to the exact quotient w / u with u != 0", failure_rule(Wn, Un))
        check_bind("VNN", walks[0], quotient_rule(Wn, Vn), "u must be bound to the exact quotient w / v with v != 0", failure_rule(Wn, Vn))
        for combo, d in (("NVN", Un), ("VNN", Vn)):
            if combo in covered:
                zero_rule(ctx, rule, key, site, combo, covered[combo][2], Wn, d, READD)
    # e. under-determined
    for c in ("VVV", "VVN", "VNV", "NVV"):
        if c in covered:
            i, p, b = covered[c]
            ctx.expect(unify(READD, tables.result(b)) is not None and not tables.semis(b), rule, key + "|keeps=%s" % c, site, "fewer than two operands ground: the constraint itself must be kept (Ok(state.with_constraint(self))); found %s" % show(b, maxdepth=4)[:160])


def quotient_rule(w, d):
    """value is the quotient w/d and the path establishes d != 0 and exactness."""

    def f(inner, lits):
        cdiv = ("call", P("checked_div"), (w, d))
        crem = ("call", P("checked_rem"), (w, d))
        is_q = unify(AnyOf(("binop", "Div", w, d), ("proj", cdiv, P("Some"), 0)), inner) is not None or _proj_of_tuple_div(inner, w, d)
        if not is_q:
            return False
        nonzero = False
        exact = False
        for l, pol in lits:
            if l[0] == "binop" and l[1] in ("Eq", "Ne") and _is_zero_test(l, d):
                if (l[1] == "Eq") != pol:
                    nonzero = True
            if l[0] == "binop" and l[1] in ("Eq", "Ne") and _is_zero_test(l, ("binop", "Rem", w, d)):
                if (l[1] == "Eq") == pol:
                    exact = True
            if l[0] == "matches" and pol:
                scrut, p = l[1], l[2]
                # match (checked_rem(w,d), checked_div(w,d)) { (Some(0), Some(q)) => ... }
                if scrut[0] == "tuple":
                    for comp, pp in zip(scrut[1], p[1] if p[0] == "ptuple" else ()):
                        if unify(crem, comp) is not None and pp[0] == "pctor" and pp[1].endswith("Some") and pp[2] and pp[2][0][0] == "plit" and pp[2][0][1].strip() == "0":
                            exact = True
                            nonzero = True  # checked_rem is None for a zero divisor
                        if unify(cdiv, comp) is not None and pp[0] == "pctor" and pp[1].endswith("Some"):
                            nonzero = True
                elif unify(crem, scrut) is not None and p[0] == "pctor" and p[1].endswith("Some") and p[2] and p[2][0][0] == "plit" and p[2][0][1].strip() == "0":
                    exact = True
                    nonzero = True
        return nonzero and exact

    return f


def failure_rule(w, d):
    """A two-numbers arm of timesz may fail only when (divisor == 0 and product != 0) or the division
    is not exact."""

    def f(lits):
        cdiv = ("call", P("checked_div"), (w, d))
        crem = ("call", P("checked_rem"), (w, d))
        dzero = wnonzero = inexact = False
        for l, pol in lits:
            if l[0] == "binop" and l[1] in ("Eq", "Ne") and _is_zero_test(l, d) and ((l[1] == "Eq") == pol):
                dzero = True
            if l[0] == "binop" and l[1] in ("Eq", "Ne") and _is_zero_test(l, w) and ((l[1] == "Eq") != pol):
                wnonzero = True
            if l[0] == "binop" and l[1] in ("Eq", "Ne") and _is_zero_test(l, ("binop", "Rem", w, d)) and ((l[1] == "Eq") != pol):
                inexact = True
            if l[0] == "matches" and pol:
                scrut, p = l[1], l[2]
                about_div = any(unify(crem, x) is not None or unify(cdiv, x) is not None for x in sym.subterms(scrut))
                exact_arm = False
                if p[0] == "ptuple":
                    for comp, pp in zip(scrut[1] if scrut[0] == "tuple" else (), p[1]):
                        if unify(crem, comp) is not None and pp[0] == "pctor" and pp[1].endswith("Some") and pp[2] and pp[2][0][0] == "plit" and pp[2][0][1].strip() == "0":
                            exact_arm = True
                elif p[0] == "pctor" and p[1].endswith("Some") and p[2] and p[2][0][0] == "plit" and p[2][0][1].strip() == "0":
                    exact_arm = True
                if about_div and not exact_arm:
                    inexact = True
        return (dzero and wnonzero) or inexact

    return f


def _proj_of_tuple_div(inner, w, d):
    # q bound from the tuple scrutinee: proj(proj((rem, div), tuple, 1), Some, 0)
    if inner[0] == "proj" and isinstance(inner[2], str) and inner[2].endswith("Some"):
        base = inner[1]
        if base[0] == "call" and suffix_match(base[1], "checked_div") and unify((w, d), base[2]) is not None:
            return True
    return False


def _is_zero_test(l, x):
    zero = lambda t: t[0] == "lit" and "Pu128(0)" in str(t[1])
    return (unify(x, l[2]) is not None and zero(l[3])) or (unify(x, l[3]) is not None and zero(l[2]))


def zero_rule(ctx, rule, key, site, combo, body, w, d, READD):
    """On paths where the divisor is zero: no binding; w == 0 keeps the constraint, otherwise fail."""
    paths = tables.block_paths(body)
    seen = 0
    good = True
    for lits, effs, term in paths:
        dz = [pol for l, pol in lits if l[0] == "binop" and l[1] in ("Eq", "Ne") and _is_zero_test(l, d) and ((l[1] == "Eq") == pol)]
        if not dz:
            continue
        seen += 1
        ext = [e for e in effs if e[0] == "call" and suffix_match(e[1], "SMap::extend")]
        wz = [((l[1] == "Eq") == pol) for l, pol in lits if l[0] == "binop" and l[1] in ("Eq", "Ne") and _is_zero_test(l, w)]
        res = effs[-1] if effs else None
        if ext:
            good = False
        elif wz and wz[0]:
            good = good and res is not None and unify(READD, res) is not None
        else:
            good = good and res is not None and unify(pat("Err(_)"), res) is not None
    ctx.expect(seen >= 2 and good, rule, key + "|zero-divisor=%s" % combo, site, "with a zero divisor nothing may be bound: product 0 keeps the constraint (every integer works), any other product fails; %d zero-divisor paths found" % seen)


def run(ctx, fb, cfg):
    lib = fb.lib
    R = "C19."
    # is_number / get_number / is_var ... mean what the propagator tables assume
    import termkinds

    termkinds.check_term_kinds(ctx, lib, R + "K5.term-kinds")
    import fdrules

    fdrules.check_operand_plumbing(ctx, lib, R + "K3.operand-plumbing", only=("plusz", "timesz"))
    # a suspended constraint must still be in the store when its operands become ground: nothing but
    # take_constraint / subsumption among disequalities removes constraints (shared with C02 / C22),
    # and CLP(Z) constraints are not in the finite-domain registry (verify_all_bound would reject them)
    import C02
    import C22

    C02.check_normalize(ctx, lib, R + "K6.normalize")
    # "checked once its operands become ground": every binding that escapes is followed by a re-run of the store,
    # whichever variable of an alias class it mentions (rule shared with C04)
    import C04

    C04.check_rerun(ctx, lib, R + "K2.rerun-after-binding")
    C22.check_store(ctx, lib, R + "K1K6.no-silent-removal")
    if any(p.startswith("crate::relation::clpfd") for p in lib.fns):
        fdrules.check_registry(ctx, lib, R + "K11.registry")
    check_one(ctx, lib, R + "K5K7.plusz", "PlusZ")
    check_one(ctx, lib, R + "K5K7.timesz", "TimesZ")
