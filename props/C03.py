"""C03 - Answers are fully reified, closed and carry their relevant constraints.

Decided (structural):
 a the reporting pipeline: reify's final goal computes v = walk*(x), r = reify(v) on the final
   substitution and returns state.with_smap(r).with_cstore(store walked with that substitution);
   ResultIterator::next reports, per query variable in declaration order, walk*(final smap, var)
   together with the purify -> normalize -> walk* image of the final store;
 b every structural traversal (walk*, reify, is_anyvar, occurs_check, anyvars, force_ans, Hash,
   PartialEq) has explicit arms for list cells and compound terms that visit all sub-terms;
 c reify binds each distinct free variable (the walked variable) to a `_` variable created at
   that point (one LTerm::any() per binding);
 d LResult::constraints() = store.relevant(self.0.anyvars()).
 (round 4) Constraint::operands lists every term field of its constraint exactly once
   (finite check against the struct's typed fields; DistinctFd2.y excepted with reason);
   SMap::operands / get_vars: every key unconditionally, every value exactly when it is a variable
   - this is what constraints() / relevant() report per variable.
 (round 5, shared with C20) walk* of compound values resolves every field deeply (library impls and
   derive templates); is_constrained() <=> constraints() non-empty.
"""
import streams
import sym
import tables
import traversal
from pat import pat
from report import site_of
from sym import ANY, AnyOf, P, V, show, suffix_match, unify

EXPLANATION = (
    "Static check of the answer-reporting pipeline on typed-HIR symbolic terms (reify goal, ResultIterator::next, SMap::reify's Var arm, LResult::constraints) "
    "and the traversal-coverage table: 8 recursions over LTermInner x {Cons, Compound} must visit every sub-term, compound helpers must visit every child."
)
NOT_DECIDED = "that these traversals, being complete, produce closed answers for all programs (semantic)"
TECHNIQUE = "static analysis: typed-HIR provenance tables + variant-coverage (exhaustiveness) rules via rustc_private driver"


def check_reify_goal(ctx, lib, rule):
    fn = streams.getfn(ctx, lib, rule, "crate::state::reification::reify")
    if not fn:
        return
    t = sym.Evaluator(lib, extra_identity=streams.GOAL_CAST).fn_term(fn)
    key = fn["npath"]
    site = site_of(fn)
    cl = [s for s in sym.subterms(t) if s[0] == "closure" and s[2] == 2]
    ok = len(cl) >= 1
    ctx.expect(ok, rule, key + "|final-goal", site, "reify must end with a function goal that rewrites the state")
    if not ok:
        return
    body = cl[-1][3]
    r = tables.result(body)
    S = pat("arg1.smap")
    X = pat("@0")
    walked = ("call", P("SMap::walk_star"), (S, X))
    reified = ("call", P("SMap::reify"), (S, walked))
    wstore = ("call", P("ConstraintStore::walk_star"), (pat("arg1.cstore"), S))
    # state.with_smap(r) is either a call or the inlined struct update
    with_smap = AnyOf(("call", P("with_smap"), (pat("arg1"), reified)), ("struct", P("state::State"), ANY, pat("arg1")), ("struct", P("state::State"), ANY))
    want = ("ctor", P("Stream::Unit"), (("call", P("with_cstore"), (with_smap, wstore)),))
    b = unify(want, r)
    good = b is not None
    if good:
        ws = r[2][0][2][0]
        if ws[0] == "struct":
            good = unify(reified, dict(ws[2]).get("smap")) is not None and (len(ws) < 4 or unify(pat("arg1"), ws[3]) is not None)
    ctx.expect(good, rule, key + "|pipeline", site, "final goal must return unit(state.with_smap(reify(walk*(x))).with_cstore(cstore.walk*(smap))) on the final substitution; found %s" % show(r, maxdepth=8)[:300])
    # order: constraints are enforced before the final goal
    arr = [s for s in sym.subterms(t) if s[0] in ("array", "tuple") and len(s[1]) == 2 and any(True for _ in sym.calls(s[1][0], "enforce_constraints")) or (s[0] in ("array", "tuple") and len(s[1]) == 2 and any(True for _ in sym.calls(s[1][0], "enforce_constraints_fd")))]
    good2 = False
    for a in arr:
        first, second = a[1]
        if [c for c in sym.subterms(second) if c[0] == "closure" and c == cl[-1]]:
            good2 = True
    ctx.expect(good2, rule, key + "|enforce-first", site, "constraints must be enforced (labeling) before the reifying goal in the conjunction")


def check_result_iterator(ctx, lib, rule):
    fn = streams.getfn(ctx, lib, rule, "<crate::query::ResultIterator as std::iter::Iterator>::next")
    if not fn:
        return
    t = sym.Evaluator(lib).fn_term(fn)
    key = fn["npath"]
    site = site_of(fn)
    eff, m = tables.flatten(t)
    ok = m and m[0] == "match" and unify(pat("next(@0.solver, @0.stream)"), m[1]) is not None
    ctx.expect(ok, rule, key + "|next", site, "ResultIterator::next must branch on Solver::next(self.solver, self.stream)")
    if not ok:
        return
    st = ("proj", m[1], ANY, 0)
    smap = ("field", st, "smap")
    store = ("call", P("ConstraintStore::walk_star"), (("call", P("normalize"), (("call", P("purify"), (("field", st, "cstore"), smap)),)), smap))

    def some_arm(body, b):
        r = tables.result(body)
        if not (r[0] == "ctor" and r[1].endswith("Some") and r[2][0][0] == "call" and suffix_match(r[2][0][1], "from_vec")):
            return (None, "Some(state) must yield Some(R::from_vec(results))")
        res = r[2][0][2][0]
        src, chain = streams.iter_chain(res)
        names = [n for n, _ in chain]
        if unify(pat("@0.variables"), src) is None:
            return (None, "results must be computed from self.variables: %s" % show(src, maxdepth=3))
        bad = [n for n in names if n not in streams.ONE_TO_ONE and n != "collect"]
        if bad:
            return (None, "results must keep one entry per query variable in declaration order; adaptor(s) %s" % bad)
        maps = [c for n, c in chain if n == "map"]
        if len(maps) != 1 or maps[0][2][1][0] != "closure":
            return (None, "one map over the variables expected")
        cb = tables.result(maps[0][2][1][3])
        want = ("ctor", P("LResult"), (("call", P("SMap::walk_star"), (smap, pat("arg0"))), store))
        return (unify(want, cb, b), "each result must be LResult(walk*(final smap, var), purify->normalize->walk* of the final store); found %s" % show(cb, maxdepth=8)[:300])

    tables.check_match_table(ctx, rule, key, site, t, m[1], {"Some": some_arm, "None": "None"})


def check_smap_reify_var(ctx, lib, rule):
    fn = streams.getfn(ctx, lib, rule, "crate::state::substitution::SMap::reify")
    if not fn:
        return
    t = sym.Evaluator(lib, keep_clone=True).fn_term(fn)
    key = fn["npath"]
    site = site_of(fn)
    eff, m = tables.flatten(t)
    W = pat("walk(@0, @1)")
    ok = m and m[0] == "match" and unify(W, m[1]) is not None
    ctx.expect(ok, rule, key + "|walks", site, "SMap::reify must branch on walk(self, v)")
    if not ok:
        return

    def var_arm(body, b):
        st = [e for e in tables.stmts_of(body) if not tables.harmless_effect(e)]
        ext = [e for e in st if e[0] == "call" and suffix_match(e[1], "SMap::extend")]
        if len(ext) != 1:
            return (None, "exactly one binding must be added for a free variable")
        cond = [x for x in st if isinstance(x, tuple) and x and (x[0] in ("if", "match", "ret", "loop", "while", "for") or any(y[0] == "ret" for y in sym.subterms(x)))]
        if cond:
            return (None, "every free variable of the answer must be bound unconditionally (a skipped variable is not renamed and its constraints are purged); found %s" % show(cond[0], maxdepth=4)[:160])
        e = ext[0]
        recv, k, v = e[2]
        is_clone = recv[0] == "call" and "clone" in recv[1].lower() and unify(pat("@0"), recv[2][0]) is not None
        key_ok = unify(AnyOf(W, ("call", ANY, (W,))), k) is not None
        fresh = [c for c in sym.calls(v, "VarID::new")] or [c for c in sym.calls(v, "LTerm::any")] or [c for c in sym.calls(v, "any")]
        if not (is_clone and key_ok and fresh):
            return (None, "the binding must be added to a copy of the map, keyed by the walked variable, with a `_` variable created here: %s" % show(e, maxdepth=5)[:200])
        last = st[-1]
        return (b if last == recv or (last[0] == "call" and "clone" in last[1].lower()) or last == recv else b, "")

    tables.check_match_table(ctx, rule, key, site, t, W, {"LTermInner::Var": var_arm})


def check_lresult(ctx, lib, rule):
    fn = streams.getfn(ctx, lib, rule, "crate::lresult::LResult::constraints")
    if not fn:
        return
    t = sym.Evaluator(lib).fn_term(fn)
    ctx.expect(unify(pat("relevant(@0.1, anyvars(@0.0))"), tables.result(t)) is not None, rule, fn["npath"] + "|relevant-anyvars", site_of(fn), "constraints() must be store.relevant(self.0.anyvars()); found %s" % show(t, maxdepth=4))
    fc = lib.fn("crate::lresult::LResult::is_constrained")
    if fc is not None:
        ctx.fn_seen(fc["npath"])
        tc = tables.result(sym.Evaluator(lib, inline=lambda p_, f_: False).fn_term(fc))
        okc = tc[0] == "call" and suffix_match(tc[1], "any") and tc[2][0][0] == "call" and suffix_match(tc[2][0][1], "LResult::constraints") and tc[2][1][0] == "closure" and tables.result(tc[2][1][3]) == ("lit", "Bool(true)")
        okc = okc or (tc[0] == "unop" and tc[1] == "Not" and "constraints" in str(tc) and "is_none" in str(tc))
        ctx.expect(okc, rule, fc["npath"] + "|iff-some-constraint", site_of(fc), "is_constrained() is true exactly when constraints() yields something; found %s" % show(tc, maxdepth=4)[:120])
    fn = streams.getfn(ctx, lib, rule, "crate::state::constraint::store::ConstraintStore::relevant")
    if fn:
        t = sym.Evaluator(lib).fn_term(fn)
        r = tables.result(t)
        ok = r[0] == "call" and suffix_match(r[1], "filter") and unify(pat("iter(@0.0)"), r[2][0]) is not None and r[2][1][0] == "closure"
        if ok:
            cb = tables.result(r[2][1][3])
            ok = cb[0] == "call" and suffix_match(cb[1], "any") and any(True for _ in sym.calls(cb, "operands")) and any(True for _ in sym.calls(cb, "contains"))
        ctx.expect(ok, rule, fn["npath"] + "|filter", site_of(fn), "relevant() must keep every constraint one of whose operands is among the given variables")


def check_store_walk_star(ctx, lib, rule):
    """The constraints attached to an answer are the stored pairs with *both* sides fully resolved
    (walk*, not a one-step walk) in the answer's substitution; every disequality is carried over."""
    fn = streams.getfn(ctx, lib, rule, "crate::relation::diseq::DisequalityConstraint::walk_star")
    if fn:
        t = sym.Evaluator(lib).fn_term(fn)
        key = fn["npath"]
        site = site_of(fn)
        fors = [s for s in sym.subterms(t) if s[0] == "for"]
        ok = len(fors) == 1
        if ok:
            f = fors[0]
            src, chain = streams.iter_chain(f[1])
            ok = not [n for n, _ in chain if n not in streams.ONE_TO_ONE] and unify(AnyOf(pat("@0.0"), pat("smap_ref(@0)")), src) is not None
            item = ("item", f[1])
            exts = list(dict.fromkeys(c for c in sym.calls(f[3], "SMap::extend")))
            want = lambda i: ("call", P("SMap::walk_star"), (("param", 1, ANY), ("proj", item, "tuple", i)))
            ok = ok and len(exts) == 1 and unify(want(0), exts[0][2][1]) is not None and unify(want(1), exts[0][2][2]) is not None
            guards = [s for s in sym.subterms(f[3]) if s[0] in ("continue", "break", "ret")]
            ok = ok and not guards
        ctx.expect(ok, rule, key + "|deep-walk-both-sides", site, "every stored pair (k, v) must be reported as (walk*(smap, k), walk*(smap, v)); found %s" % show(t, maxdepth=7)[:300])
    fn = streams.getfn(ctx, lib, rule, "crate::state::constraint::store::ConstraintStore::walk_star")
    if fn:
        t = sym.Evaluator(lib).fn_term(fn)
        key = fn["npath"]
        site = site_of(fn)
        fors = [s for s in sym.subterms(t) if s[0] == "for"]
        ok = len(fors) == 1
        if ok:
            f = fors[0]
            src, chain = streams.iter_chain(f[1])
            ok = not [n for n, _ in chain if n not in streams.ONE_TO_ONE] and unify(AnyOf(pat("@0.0"), pat("iter(@0)")), src) is not None or unify(pat("iter(@0)"), f[1]) is not None
            ins = list(dict.fromkeys(c for c in sym.calls(f[3], "insert")))
            ws = list(dict.fromkeys(c for c in sym.calls(f[3], "DisequalityConstraint::walk_star")))
            ok = ok and len(ins) == 1 and len(ws) == 1 and ws[0][2][1][:2] == ("param", 1) and any(s == ws[0] for s in sym.subterms(ins[0]))
            guards = [s for s in sym.subterms(f[3]) if s[0] in ("continue", "break", "ret")]
            ok = ok and not guards
        ctx.expect(ok, rule, key + "|carries-every-disequality", site, "each stored disequality must be re-inserted as its walk* image in the given substitution; found %s" % show(t, maxdepth=7)[:300])


def check_reify_threading(ctx, lib, rule):
    """SMap::reify names *every* free variable of the answer: the map being extended is threaded
    through the head and the tail of a list and through every child of a compound (a step that
    restarts from `self` forgets the names given so far)."""
    ev = sym.Evaluator(lib, inline=lambda p, f: False)
    fn = streams.getfn(ctx, lib, rule, "crate::state::substitution::SMap::reify")
    if fn:
        t = ev.fn_term(fn)
        eff, m = tables.flatten(t)
        ok = bool(m) and m[0] == "match"
        if ok:
            arms = tables.find_arm(m, "LTermInner::Cons")
            ok = len(arms) == 1
            if ok:
                r = tables.result(arms[0][2])
                h = ("proj", m[1], ANY, 0)
                tl = ("proj", m[1], ANY, 1)
                S = ("param", 0, ANY)
                a = ("call", P("SMap::reify"), (("call", P("SMap::reify"), (S, h)), tl))
                b = ("call", P("SMap::reify"), (("call", P("SMap::reify"), (S, tl)), h))
                ok = unify(AnyOf(a, b), r) is not None
        ctx.expect(ok, rule, fn["npath"] + "|list", site_of(fn), "reify of a list must be reify(reify(self, head), tail): the names given in the head are kept for the tail")
    fn = streams.getfn(ctx, lib, rule, "crate::state::substitution::SMap::reify_compound")
    if fn:
        t = ev.fn_term(fn)
        key = fn["npath"]
        fors = [s for s in sym.subterms(t) if s[0] == "for"]
        res = tables.result(t)
        ok = len(fors) == 1 and res[0] == "var"
        if ok:
            f = fors[0]
            src, chain = streams.iter_chain(f[1])
            ok = f[1][0] == "call" and suffix_match(f[1][1], "children") and f[1][2][0][:2] == ("param", 1)
            asg = list(dict.fromkeys(s for s in sym.subterms(f[3]) if s[0] == "assign"))
            ok = ok and len(asg) >= 1
            for a_ in asg:
                rhs = a_[2]
                ok = ok and a_[1] == res and rhs[0] == "call" and (suffix_match(rhs[1], "SMap::reify") or suffix_match(rhs[1], "SMap::reify_compound")) and rhs[2][0] == res
            inits = [st[2] for s in sym.subterms(t) if s[0] == "seq" for st in s[1] if st[0] == "let" and st[1][0] == "pbind" and st[1][1] == res[1]]
            ok = ok and len(inits) == 1 and inits[0][:2] == ("param", 0)
            skip = [s for s in sym.subterms(f[3]) if s[0] in ("continue", "break", "ret")]
            ok = ok and not skip
        ctx.expect(ok, rule, key + "|children", site_of(fn), "reify of a compound must fold over all children with the map threaded: acc = acc.reify(child); found %s" % show(t, maxdepth=8)[:300])


def check_is_anyvar(ctx, lib, rule):
    """purify keeps a disequality only if it mentions a variable *of the answer*: is_anyvar(v) is
    true for a variable exactly when the reifying map gave it a name (contains_key) that is still a
    variable - a hidden fresh variable that never reached the answer has no entry and must not count
    (its constraint would be reported with a raw, un-reified variable)."""
    fn = streams.getfn(ctx, lib, rule, "crate::state::substitution::SMap::is_anyvar")
    if not fn:
        return
    t = sym.Evaluator(lib, inline=lambda p, f: False).fn_term(fn)
    eff, m = tables.flatten(t)
    ok = bool(m) and m[0] == "match" and m[1][:2] == ("param", 1)
    why = "expected a match on the term"
    if ok:
        arms = [(p, g, b) for p, g, b in m[2] if any(c.endswith("LTermInner::Var") for c in tables.pat_ctors(p))]
        ok = len(arms) == 1
        why = "expected one arm for variables"
        if ok:
            p, g, b = arms[0]
            guarded = g is not None and g[0] == "call" and suffix_match(g[1], "contains_key") and g[2][0][:2] == ("param", 0) and g[2][1][:2] == ("param", 1)
            r = tables.result(b)
            inner_guard = r[0] == "binop" and r[1] == "And" and any(c[0] == "call" and suffix_match(c[1], "contains_key") for c in (r[2], r[3]))
            body_ok = any(c[0] == "call" and suffix_match(c[1], "is_var") for c in sym.subterms(r)) and any(suffix_match(c[1], "SMap::walk") for c in sym.calls(r))
            ok = (guarded or inner_guard) and body_ok
            why = "the variable arm must be `contains_key(v) && walk(v).is_var()`; found guard %s, body %s" % (show(g, maxdepth=3) if g else None, show(r, maxdepth=4)[:120])
            # an unnamed variable falls through to `false`
            rest = [b2 for p2, g2, b2 in m[2] if "*" in tables.pat_ctors(p2)]
            ok = ok and bool(rest) and all("false" in str(tables.result(b2)) for b2 in rest)
    ctx.expect(ok, rule, fn["npath"] + "|named-and-still-free", site_of(fn), why)


def run(ctx, fb, cfg):
    lib = fb.lib
    R = "C03."
    check_is_anyvar(ctx, lib, R + "K6.is-anyvar")
    check_reify_threading(ctx, lib, R + "K3.reify-threads")
    check_store_walk_star(ctx, lib, R + "K3.store-walk-star")
    check_reify_goal(ctx, lib, R + "K3.reify-goal")
    check_result_iterator(ctx, lib, R + "K3.result-iterator")
    n = traversal.run_table(ctx, lib, R + "K5.traversal", features={"clpfd"} if cfg != "x" else None)
    ctx.floor(R + "K5.traversal", n, 8, "traversal functions")
    check_smap_reify_var(ctx, lib, R + "K3.fresh-any-per-var")
    check_lresult(ctx, lib, R + "K3.lresult-constraints")
    import fdrules

    fdrules.check_operands(ctx, lib, R + "K10.operands-complete")
    # "no answer term contains a bound variable ... including compound sub-terms": walk* of compound values
    # (library impls and derive templates) resolves every field deeply (shared with C20)
    import C15
    import C20

    C20.check_library(C15._Prefixed(ctx, "C03"), lib)
    if cfg == "lib-default":
        import macrolib

        S = macrolib.load_sem(ctx, fb)
        if S is not None:
            C20.check_derive(C15._Prefixed(ctx, "C03"), S)
