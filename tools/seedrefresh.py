#!/usr/bin/env python3
"""Re-run the checks of every kept seeded change against the *current* rule set, N changes in parallel, each
worker on its own scratch worktree of /repo's HEAD (PV_REPO), patch applied with `git apply` and undone
afterwards.  Updates seeded/<id>/meta.json (checks, detected_by).  Every kept change has been applied to
/repo itself and checked there when it was confirmed (tools/seedcheck.py); this tool only refreshes the
"which check catches which change" table after rules changed.
usage: tools/seedrefresh.py [-j N] [--only 9,10] [--skip 9,10] [id-substring ...]"""
import glob
import json
import os
import re
import subprocess
import sys
from concurrent.futures import ThreadPoolExecutor
from queue import Queue

HERE = os.path.dirname(os.path.abspath(__file__))
VERIF = os.path.dirname(HERE)
sys.path.insert(0, HERE)
from seedcheck import RELATED  # noqa: E402


def sh(cmd, cwd=None, env=None):
    r = subprocess.run(cmd, shell=True, cwd=cwd, env=env, capture_output=True, text=True)
    return r.returncode, r.stdout + r.stderr


def main():
    args = [a for a in sys.argv[1:]]
    jobs = 4
    if "-j" in args:
        jobs = int(args[args.index("-j") + 1])
    only = set(args[args.index("--only") + 1].split(",")) if "--only" in args else None
    skip = set(args[args.index("--skip") + 1].split(",")) if "--skip" in args else set()
    subs = [a for a in args if not a.startswith("-") and not a.isdigit() and "," not in a]
    head = subprocess.check_output(["git", "-C", "/repo", "rev-parse", "HEAD"], text=True).strip()
    wts = Queue()
    for i in range(jobs):
        wt = "/tmp/wt/rf%d" % i
        if not os.path.isdir(wt):
            sh("git -C /repo worktree add --detach %s %s" % (wt, head))
        sh("git checkout -q -- . && git checkout -q --detach %s" % head, cwd=wt)
        wts.put(wt)
    seeds = []
    for d in sorted(glob.glob(os.path.join(VERIF, "seeded", "*"))):
        name = os.path.basename(d)
        k = name.split("-")[1]
        if only and k not in only or k in skip or (subs and not any(s in name for s in subs)):
            continue
        try:
            meta = json.load(open(os.path.join(d, "meta.json")))
        except Exception:
            continue
        if meta.get("valid"):
            seeds.append((d, name, meta))

    def one(item):
        d, name, meta = item
        prop = meta["property"]
        wt = wts.get()
        try:
            sh("git checkout -q -- .", cwd=wt)
            rc, o = sh("git apply %s" % os.path.join(d, "patch.diff"), cwd=wt)
            if rc != 0:
                return name, "patch does not apply to HEAD"
            env = dict(os.environ, PV_REPO=wt, PV_OUT="/tmp/pvout-rf-%s" % os.path.basename(wt))
            props = [prop] + [p for p in RELATED.get(prop, []) if p != prop]
            prev = [p for p in (meta.get("detected_by") or []) if p not in props]
            detected = {}
            if "--own-only" in sys.argv:
                props, prev = [prop], []
                detected = dict(meta.get("checks") or {})
            for p in props + prev:
                rc, o = sh("./check %s --tier quick" % p, cwd=VERIF, env=env)
                keys = []
                for rep in re.findall(r"VIOLATION property=\S+ replay=(\S+)", o):
                    try:
                        keys.append(json.load(open(rep))["key"])
                    except Exception:
                        keys.append(rep)
                detected[p] = {"exit": rc, "violations": keys, "tail": o[-800:]}
            meta["checks"] = detected
            meta["detected_by"] = sorted(p for p, dd in detected.items() if dd["exit"] != 0)
            meta["refreshed_at"] = head[:7]
            with open(os.path.join(d, "meta.json"), "w") as f:
                json.dump(meta, f, indent=1)
            own = prop in meta["detected_by"]
            return name, ("own " if own else ("NEIGHBOUR-ONLY " if meta["detected_by"] else "MISSED ")) + ",".join(meta["detected_by"])
        finally:
            sh("git checkout -q -- .", cwd=wt)
            wts.put(wt)

    with ThreadPoolExecutor(max_workers=jobs) as ex:
        for name, res in ex.map(one, seeds):
            print("%-8s %s" % (name, res), flush=True)


if __name__ == "__main__":
    main()
