#!/usr/bin/env python3
"""Debug helper: pretty-print the HIR tree / MIR of functions from a facts file."""
import json, sys, glob

def short(p):
    return p

def show(n, ind=0, out=None):
    pad = '  ' * ind
    if isinstance(n, list):
        for x in n: show(x, ind)
        return
    if not isinstance(n, dict):
        print(pad + repr(n)); return
    k = n.get('k')
    head = k or '?'
    extras = []
    for key in ('callee','resolved','method','op','field','res','id','path','name','txt','src','ctor_of','v','def','move','str','mode','dotdot','virtual'):
        if key in n: extras.append('%s=%s' % (key, n[key]))
    line = n.get('sp','').split(':')
    ln = line[1] if len(line) > 1 else ''
    print('%s%s %s  @%s  :: %s' % (pad, head, ' '.join(extras), ln, n.get('ty','')))
    for key, v in n.items():
        if isinstance(v, dict) and key not in ('tys',):
            print(pad + ' .' + key); show(v, ind + 2)
        elif isinstance(v, list) and v and isinstance(v[0], dict):
            print(pad + ' .' + key + '[]')
            for x in v: show(x, ind + 2)

def show_mir(m):
    for i, l in enumerate(m['locals']):
        print('  _%d: %s %s' % (i, l['ty'], l.get('name') or ''))
    for i, b in enumerate(m['blocks']):
        print(' bb%d%s:' % (i, ' (cleanup)' if b['cleanup'] else ''))
        for s in b['stmts']:
            print('    ', json.dumps(s)[:300])
        print('    T', json.dumps({k: v for k, v in b['term'].items() if k not in ('gargs',)})[:400])

if __name__ == '__main__':
    f = sys.argv[1]; pat = sys.argv[2]; mode = sys.argv[3] if len(sys.argv) > 3 else 'hir'
    d = json.load(open(f))
    for fn in d['fns']:
        if pat in fn['path']:
            print('=== %s [%s] %s' % (fn['path'], fn['kind'], fn['span']))
            if mode == 'hir' and 'hir' in fn:
                show(fn['hir'], 1)
            if mode == 'mir' and 'mir' in fn:
                show_mir(fn['mir'])
