#!/usr/bin/env python3
"""Write tools/design_parts/silent_triage.json: one line of triage per behaviour-preserving refactoring that
still makes a check exit 1 (class of restructuring the idiom-normalising passes do not undo)."""
import glob, json, os, re
VERIF = os.path.dirname(os.path.dirname(os.path.abspath(__file__)))
CLASSES = [
    (r"split_first|from_conjunctions\|(first|rest|every-clause-kept)", "equivalent std API (`split_first()` for `is_empty()` / `split_off(1)` / `pop()`): the builder table reads the clause head and rest through the original calls"),
    (r"Solver::(next|peek|trunc)", "the engine-step tables of `Solver::next/peek/trunc` read the `Stream::Lazy(LazyStream(lazy))` destructuring in the arm pattern; the refactoring moved it into a helper's `let` / replaced the loop by `while !is_mature()`"),
    (r"traversal\|.*anyvars", "loop replaced by `flat_map` chain: the traversal table wants the explicit per-variant recursion"),
    (r"early-exits", "control flow re-nested beyond the guard-clause / `?` rewrites: the early-exit census sees an exit under a different literal set"),
    (r"panic-inventory", "a panic-capable site moved to / is now reached through a function the inventory has no row for"),
    (r"distinctfd|diseqfd|ltefd|plusfd|minusfd|timesfd|timesz|plusz", "propagator table: an extracted helper / merged branches changed the shape of the arm the table reads (`exact_quotient`, `product_bounds`, `insert_constant`, `windows(2)`)"),
    (r"front-end-only-appends|alignment|arm-block|template|clause-table|construct|parser", "macro crate: the template / parser tables read the `quote!` fragments and collection calls as written (fragments split into named parts, `partition` / `map().collect()` for push loops)"),
    (r"domain-algebra|merge-discipline|before-polarity|none-iff-empty|representation-invariant|delegation", "set-algebra tables: combinator form (`find().map()`, `checked_sub().filter().map()`, shared `non_empty_sparse` helper, `sort_unstable`) instead of the matched shapes"),
    (r"eq-hash|term-kinds|literal-comparisons|sibling|is-improper|list-ops", "LTerm kind tables: `matches!` / nested `match` instead of the arm list the truth table enumerates, or builders rewritten as `fold`"),
    (r"reify|walk|occurs|unify", "unification / reification tables: loop or combinator form not undone by a pass"),
]
out = {}
for f in sorted(glob.glob(os.path.join(VERIF, "seeded_silent", "*", "meta.json"))):
    m = json.load(open(f))
    al = m.get("alarms") or {}
    if not al:
        continue
    keys = " ".join(k.split(" :: ")[0] for ks in al.values() for k in ks)
    cls = [txt for pat, txt in CLASSES if re.search(pat, keys)]
    out[os.path.basename(os.path.dirname(f))] = "false alarm (fail-closed table): " + (cls[0] if cls else "shape not in the table")
json.dump(out, open(os.path.join(VERIF, "tools", "design_parts", "silent_triage.json"), "w"), indent=0, sort_keys=True)
print(len(out), "alarming refactorings triaged")
