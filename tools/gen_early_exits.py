#!/usr/bin/env python3
"""Freeze the early-exit census of every anchored function (see rules/earlyexit.py).
Run on a clean tree:  PV_REPO=<clean worktree> tools/gen_early_exits.py
The result (props/early_exits.json) is then read through by hand before it is committed."""
import json, os, subprocess, sys, tempfile
HERE = os.path.dirname(os.path.abspath(__file__)); VERIF = os.path.dirname(HERE)
sys.path.insert(0, os.path.join(VERIF, 'rules')); sys.path.insert(0, os.path.join(VERIF, 'props'))
import facts, earlyexit
man = json.load(open(os.path.join(VERIF, 'MANIFEST.json')))
dump = tempfile.mktemp()
out = tempfile.mkdtemp()
for c in man['checks']:
    env = dict(os.environ, PV_DUMP_FUNCS=dump, PV_OUT=out, PV_NO_EARLY_EXIT='1')
    subprocess.run([os.path.join(VERIF, 'check'), c['property_id']], env=env, capture_output=True, cwd=VERIF)
names = set()
for l in open(dump):
    names |= set(json.loads(l)['functions'])
fb = facts.load('lib-default')
tab = {}
for crate in (fb.lib, fb.macros):
    tab[crate.name] = earlyexit.census(crate, [n for n in names if n in crate.fns or n in crate.closures])
json.dump(tab, open(earlyexit.TABLE, 'w'), indent=1, sort_keys=True)
print({k: len(v) for k, v in tab.items()}, sum(sum(c.values()) for v in tab.values() for c in v.values()), 'exits')
# the function paths of this tree (rules/sym.py new_helper: a private function not in this list is a helper
# extracted later, and the `helpers` normal-form pass reads it as part of its caller)
known = sorted(set(fb.lib.fns) | set(fb.macros.fns if fb.macros else []))
json.dump(known, open(os.path.join(VERIF, 'props', 'known_fns.json'), 'w'), indent=0)
print(len(known), 'known functions')
