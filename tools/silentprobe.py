#!/usr/bin/env python3
"""False-alarm probe: behaviour-preserving refactorings delivered by sub-agents (round 6) must leave every
check silent.  For each delivered change: (1) re-confirm it here - its differential test passes on the clean
tree and with the change, and the full existing suite is green with the change (in the sub-agent's own
scratch worktree); (2) apply it to a scratch worktree of /repo's HEAD and run *all* registered checks
(PV_REPO); any VIOLATION is a false alarm to be triaged.  Kept under seeded_silent/<prop>-<k>/.
usage: tools/silentprobe.py [-j N] [--checks-only] Cxx [Cyy ...]   (all properties when none given)"""
import glob
import json
import os
import re
import shutil
import subprocess
import sys
from concurrent.futures import ThreadPoolExecutor
from queue import Queue

HERE = os.path.dirname(os.path.abspath(__file__))
VERIF = os.path.dirname(HERE)
ROOT = os.environ.get("SEED_ROOT", "/tmp/wt6")


def sh(cmd, cwd=None, env=None):
    r = subprocess.run(cmd, shell=True, cwd=cwd, env=env, capture_output=True, text=True)
    return r.returncode, r.stdout + r.stderr


def validate(prop, k):
    wt = "%s/%s" % (ROOT, prop)
    out = "%s/%s-out" % (ROOT, prop)
    diff, demo = os.path.join(out, "change%s.diff" % k), os.path.join(out, "demo%s.rs" % k)
    meta = {"property": prop, "change": k, "kind": "behaviour-preserving refactoring", "ran": []}
    if not (os.path.exists(diff) and os.path.exists(demo)):
        return None
    sh("git checkout -- . && git clean -fdq -e target", cwd=wt)
    os.makedirs(os.path.join(wt, "tests"), exist_ok=True)
    name = "silent_demo_%s_%s" % (prop.lower(), k)
    shutil.copy(demo, os.path.join(wt, "tests", name + ".rs"))
    rc, o = sh("cargo test --offline -j 4 --test %s 2>&1 | tail -15" % name, cwd=wt)
    clean_pass = "test result: ok" in o
    rc, o1 = sh("git apply %s" % diff, cwd=wt)
    applies = rc == 0
    rc, o = sh("cargo test --offline -j 4 --test %s 2>&1 | tail -30" % name, cwd=wt)
    changed_pass = applies and "test result: ok" in o
    os.remove(os.path.join(wt, "tests", name + ".rs"))
    rc, o = sh("cargo test -j 4 --workspace --no-fail-fast --offline 2>&1 | grep -E 'test result|FAILED|failed|^warning: unused|^error' | head -20", cwd=wt)
    suite_ok = applies and "FAILED" not in o and "failed" not in o.replace("0 failed", "") and "test result: ok" in o and "error" not in o
    sh("git checkout -- . && git clean -fdq -e target", cwd=wt)
    meta["ran"] = [{"differential test on clean tree": clean_pass}, {"patch applies": applies}, {"differential test with the change": changed_pass}, {"full suite with the change": suite_ok, "summary": o[-300:]}]
    meta["valid"] = bool(clean_pass and changed_pass and suite_ok)
    d = os.path.join(VERIF, "seeded_silent", "%s-%s" % (prop, k))
    os.makedirs(d, exist_ok=True)
    shutil.copy(diff, os.path.join(d, "patch.diff"))
    shutil.copy(demo, os.path.join(d, "demo.rs"))
    notes = os.path.join(out, "change%s.md" % k)
    if os.path.exists(notes):
        shutil.copy(notes, os.path.join(d, "notes.md"))
        meta["what"] = open(notes).read()[:1200]
    json.dump(meta, open(os.path.join(d, "meta.json"), "w"), indent=1)
    return meta


def main():
    args = sys.argv[1:]
    jobs = 4
    if "-j" in args:
        jobs = int(args[args.index("-j") + 1])
    props = [a for a in args if re.match(r"^C\d\d$", a)] or sorted(os.path.basename(p) for p in glob.glob(ROOT + "/C??"))
    all_checks = [c["property_id"] for c in json.load(open(os.path.join(VERIF, "MANIFEST.json")))["checks"]]
    if "--checks-only" not in args:
        def vprop(p):
            res = []
            for k in (11, 12, 13):
                m = validate(p, k)
                if m is not None:
                    res.append("%s-%s %s" % (p, k, "VALID" if m["valid"] else "INVALID %s" % m["ran"]))
            return res
        with ThreadPoolExecutor(max_workers=jobs) as ex:
            for res in ex.map(vprop, props):
                for r in res:
                    print(r, flush=True)
    head = subprocess.check_output(["git", "-C", "/repo", "rev-parse", "HEAD"], text=True).strip()
    wts = Queue()
    for i in range(jobs):
        wt = os.environ.get("RF_PREFIX", "/tmp/wt/rf") + "%d" % i
        if not os.path.isdir(wt):
            sh("git -C /repo worktree add --detach %s %s" % (wt, head))
        sh("git checkout -q -- . && git checkout -q --detach %s" % head, cwd=wt)
        wts.put(wt)
    items = []
    for d in sorted(glob.glob(os.path.join(VERIF, "seeded_silent", "*"))):
        name = os.path.basename(d)
        if name.split("-")[0] in props:
            meta = json.load(open(os.path.join(d, "meta.json")))
            if meta.get("valid"):
                items.append((d, name, meta))

    def one(item):
        d, name, meta = item
        wt = wts.get()
        try:
            sh("git checkout -q -- .", cwd=wt)
            rc, o = sh("git apply %s" % os.path.join(d, "patch.diff"), cwd=wt)
            if rc != 0:
                return name, "patch does not apply"
            env = dict(os.environ, PV_REPO=wt, PV_OUT="/tmp/pvout-rf-%s" % os.path.basename(wt))
            alarms = {}
            todo = all_checks
            if "--narrow" in sys.argv:
                # the property probed, its neighbours, every property that anchors a touched file, and whatever alarmed before
                touched = set(re.findall(r"^diff --git a/(\S+)", open(os.path.join(d, "patch.diff")).read(), re.M))
                sys.path.insert(0, HERE)
                from seedcheck import RELATED

                own = meta["property"]
                want = {own} | set(RELATED.get(own, [])) | set((meta.get("alarms") or {}).keys())
                for l in open(os.path.join(VERIF, "properties.jsonl")):
                    pr = json.loads(l)
                    if any(f.rstrip("/") in touched or any(tf.startswith(f.rstrip("/") + "/") for tf in touched) for f in pr["anchors"]["files"]):
                        want.add(pr["id"])
                todo = [p for p in all_checks if p in want]
                meta["checks_run"] = todo
            for p in todo:
                rc, o = sh("./check %s --tier quick" % p, cwd=VERIF, env=env)
                if rc != 0:
                    keys = []
                    for rep in re.findall(r"VIOLATION property=\S+ replay=(\S+)", o):
                        try:
                            r = json.load(open(rep))
                            keys.append("%s :: %s" % (r["key"], r.get("what", "")[:200]))
                        except Exception:
                            keys.append(rep)
                    alarms[p] = keys or [o[-300:]]
            meta["alarms"] = alarms
            meta["checked_at"] = head[:7]
            json.dump(meta, open(os.path.join(d, "meta.json"), "w"), indent=1)
            return name, ("silent" if not alarms else "ALARM " + json.dumps({p: [k.split(" :: ")[0] for k in v][:3] for p, v in alarms.items()}))
        finally:
            sh("git checkout -q -- .", cwd=wt)
            wts.put(wt)

    with ThreadPoolExecutor(max_workers=jobs) as ex:
        for name, res in ex.map(one, items):
            print("%-8s %s" % (name, res), flush=True)


if __name__ == "__main__":
    main()
