#!/usr/bin/env python3
"""Assemble DESIGN.md from tools/design_parts/*.md plus tables generated from the checker itself
(module docstrings, rule ids and instance counts from evidence/, seeded/*/meta.json, selftest)."""
import ast
import glob
import json
import os
import re
import sys

HERE = os.path.dirname(os.path.abspath(__file__))
VERIF = os.path.dirname(HERE)
P = os.path.join(HERE, "design_parts")
sys.path.insert(0, os.path.join(VERIF, "selftest"))


def part(name):
    with open(os.path.join(P, name)) as f:
        return f.read().rstrip() + "\n"


def docstring(pid):
    f = os.path.join(VERIF, "props", pid + ".py")
    if not os.path.exists(f):
        return None
    return ast.get_docstring(ast.parse(open(f).read()))


def evidence(pid):
    f = os.path.join(VERIF, "evidence", pid + ".json")
    if not os.path.exists(f):
        return None
    return json.load(open(f))


def seeded():
    out = []
    for d in sorted(glob.glob(os.path.join(VERIF, "seeded", "*"))):
        mf = os.path.join(d, "meta.json")
        if os.path.exists(mf):
            m = json.load(open(mf))
            m["dir"] = os.path.basename(d)
            out.append(m)
    return out


def first_line(txt):
    for l in (txt or "").splitlines():
        l = l.strip().lstrip("-* ").strip()
        if l and not l.startswith("#"):
            l = re.sub(r"^\*\*(File / function|Site|File|Where|Change)[^*]*\*\*:?\s*", "", l)
            l = re.sub(r"^(File / function|Site|File|Where)\s*:\s*", "", l)
            l = l.replace("**", "").strip()
            l = re.sub(r"^(File / function|Site|File|Where)\s*:\s*", "", l)
            return l
    return ""


def main():
    props = [json.loads(l) for l in open(os.path.join(VERIF, "properties.jsonl"))]
    man = json.load(open(os.path.join(VERIF, "MANIFEST.json")))
    claimed = {c["property_id"] for c in man["checks"]}
    known = json.load(open(os.path.join(VERIF, "known_findings.json")))
    seeds = seeded()
    notes = {}
    nf = os.path.join(P, "seed_notes.json")
    if os.path.exists(nf):
        notes = json.load(open(nf))
    out = [part("head.md"), "---------------------------------------------------------------------------\n", part("sec2.md"), "---------------------------------------------------------------------------\n", part("sec3.md"), part("sec4_intro.md")]
    for p in props:
        pid = p["id"]
        f = "sec4_%s.md" % pid
        body = part(f) if os.path.exists(os.path.join(P, f)) else "### %s — %s\n" % (pid, p["title"])
        body = body.replace("---------------------------------------------------------------------------\n", "")
        # heading + "Rationale" label
        lines = body.split("\n", 1)
        out.append(lines[0] + "\n\n**Rationale (plan).**\n" + (lines[1] if len(lines) > 1 else ""))
        if pid in claimed:
            ds = docstring(pid) or ""
            ev = evidence(pid)
            out.append("\n**As built** (`props/%s.py`).\n\n```\n%s\n```\n" % (pid, ds.strip()))
            if ev:
                rules = ev["coverage"].get("rules", {})
                out.append("\nRule instances on the current tree (%s tier): " % ev["tier"] + "; ".join("`%s` %d" % (r, v["instances"]) for r, v in sorted(rules.items())) + ".\n")
                kf = ev["coverage"].get("known_findings_reported") or []
                if kf:
                    out.append("\nPrinted as KNOWN-FINDING on this tree: %d (F4, see §6).\n" % len(kf))
            mine = [m for m in seeds if m["property"] == pid]
            if mine:
                out.append("\nSeeded changes for this property (§7): " + "; ".join("`%s` %s" % (m["dir"], ("caught by " + ", ".join(m.get("detected_by") or [])) if m.get("detected_by") else "**not caught**") for m in mine) + ".\n")
        out.append("\n")
    out.append("---------------------------------------------------------------------------\n\n")
    # section 5
    out.append("## 5. Claim summary, not-applicable, undecided clauses\n\n| id | claimed | technique (MANIFEST) | rules × instances | pinned tree |\n|---|---|---|---|---|\n")
    fixed_by_prop = {}
    for f in known.get("fixed", []):
        for pp in [f["property"]] + f.get("also", []):
            fixed_by_prop.setdefault(pp, []).append(f["commit"])
    known_by_prop = {}
    for k in known.get("known", []):
        known_by_prop.setdefault(k["property"], []).append(k.get("finding", "?"))
    for p in props:
        pid = p["id"]
        if pid in claimed:
            c = [c for c in man["checks"] if c["property_id"] == pid][0]
            ev = evidence(pid)
            n = ev["coverage"]["evaluations"] if ev else 0
            r = len(ev["coverage"].get("rules", {})) if ev else 0
            st = []
            if fixed_by_prop.get(pid):
                st.append("fixed: " + " ".join(sorted(set(fixed_by_prop[pid]))))
            if known_by_prop.get(pid):
                st.append("known finding " + "/".join(sorted(set(known_by_prop[pid]))))
            out.append("| %s | yes | %s | %d rules, %d instances | %s |\n" % (pid, c.get("technique", "").replace("static analysis: ", ""), r, n, "; ".join(st) or "holds"))
        else:
            out.append("| %s | **no** | — | — | — |\n" % pid)
    out.append("\n**Not applicable (→ `not_applicable` in MANIFEST):**\n\n")
    for na in man.get("not_applicable", []):
        out.append("* **%s** — %s\n" % (na["property_id"], na["reason"]))
    out.append("\n**Undecided clauses of claimed properties** — every claim is explicitly \"the structural part named, not the behaviour\". Per property (the same text is in each evidence file under `not_decided`):\n\n")
    for p in props:
        pid = p["id"]
        ev = evidence(pid)
        if pid in claimed and ev:
            out.append("* %s: %s\n" % (pid, ev["coverage"].get("not_decided", "")))
    out.append("\n---------------------------------------------------------------------------\n\n")
    out.append(part("sec6.md"))
    out.append("\n---------------------------------------------------------------------------\n\n")
    out.append(part("sec7.md"))
    # mutants
    try:
        import mutants

        fire = [m for m in mutants.MUTANTS if not m.get("silent")]
        silent = [m for m in mutants.MUTANTS if m.get("silent")]
        byp = {}
        for m in fire:
            for pp in m["props"]:
                byp.setdefault(pp, []).append(m["id"])
        out.append("\n### 7.1 Hand-written mutants (%d firing, %d silent)\n\n" % (len(fire), len(silent)))
        for pp in sorted(byp):
            out.append("* %s: %s\n" % (pp, ", ".join("`%s`" % x for x in byp[pp])))
        out.append("* silent (must raise no alarm): %s\n" % ", ".join("`%s`" % m["id"] for m in silent))
    except Exception as e:  # pragma: no cover
        out.append("\n(mutant list unavailable: %s)\n" % e)
    # seeded table
    out.append("\n### 7.2 Independently seeded changes: which check catches which change\n\n")
    out.append("`property` is the property whose text the sub-agent was given; a change is **caught** when at least one registered check exits 1 with the patch applied to `/repo`; the rule key(s) that fired are listed (first two).\n\n")
    out.append("| change | site / mechanism (sub-agent's words, abridged) | caught by (rule key) | note |\n|---|---|---|---|\n")
    caught = 0
    for m in seeds:
        if not m.get("valid", False):
            continue
        desc = notes.get(m["dir"], {}).get("what") or first_line(m.get("needs", ""))[:160]
        keys = []
        own = m["property"]
        for pp, d in sorted((m.get("checks") or {}).items(), key=lambda kv: (kv[0] != own, kv[0])):
            for k in d.get("violations", [])[:1]:
                kk = re.sub(r"<crate::[^|]*?::(\w+) as crate::[^|]*?::(\w+)>", r"<\1 as \2>", k)
                kk = re.sub(r"crate::(?:\w+::)+(\w+::\w+)", r"\1", kk)
                keys.append(kk)
        det = m.get("detected_by") or []
        if det:
            caught += 1
        note = notes.get(m["dir"], {}).get("note", "")
        out.append("| `%s` | %s | %s | %s |\n" % (m["dir"], desc.replace("|", "\\|"), ("<br>".join("`%s`" % k.replace("|", "\\|") for k in keys[:3])) if det else "**missed**", note.replace("|", "\\|")))
    valid = [m for m in seeds if m.get("valid")]
    out.append("\n%d confirmed seeded changes, %d caught by a registered check.\n" % (len(valid), caught))
    inv = [m["dir"] for m in seeds if not m.get("valid")]
    if inv:
        out.append("\nDelivered but not confirmed here (not counted, kept for the record only): %s.\n" % ", ".join("`%s`" % x for x in inv))
    # operator-level mutation audit
    rf = os.path.join(VERIF, "selftest", "opmut_results.json")
    if os.path.exists(rf):
        res = json.load(open(rf))
        tri = {}
        tf = os.path.join(P, "opmut_triage.json")
        if os.path.exists(tf):
            tri = json.load(open(tf))
        out.append("\n### 7.3 Operator-level mutation audit of the checkers (`tools/opmut.py`)\n\n")
        out.append("One-token value-level mutants of the non-test source, every check run against each (§7 (d)). `own` = reported by a check of a property that anchors the mutated file; `neighbour` = only by other properties' checks; `tests-kill` = no check fires but the repository's existing suite fails (outside the brief's threat model, listed because each is still a hint); `survivor` = no check fires and the suite is green.\n\n")
        out.append("| file | mutants | not compiling | caught (own) | caught (neighbour only) | tests-kill | survivors |\n|---|---|---|---|---|---|---|\n")
        byf = {}
        for e in res:
            byf.setdefault(e["file"], []).append(e)
        tot = [0] * 6
        for f in sorted(byf):
            es = byf[f]
            row = [len(es), sum(e["status"] == "not-compiling" for e in es), sum(e["status"] == "caught" and e.get("own") for e in es), sum(e["status"] == "caught" and not e.get("own") for e in es), sum(e["status"] == "tests-kill" for e in es), sum(e["status"] in ("SURVIVOR", "uncaught") for e in es)]
            tot = [a + b for a, b in zip(tot, row)]
            out.append("| `%s` | %s |\n" % (f, " | ".join(str(x) for x in row)))
        out.append("| **total** | %s |\n" % " | ".join("**%d**" % x for x in tot))
        sv = [e for e in res if e["status"] in ("SURVIVOR", "uncaught", "tests-kill")]
        if sv:
            out.append("\nMutants no check reports, each read and triaged (`no-property` = the mutated function is not behind any listed property; `equivalent` = behaviour unchanged; `closed` = a rule was added afterwards and the mutant is now caught — re-run recorded; `open` = a real gap of this technique, with the reason):\n\n| mutant | status | triage |\n|---|---|---|\n")
            for e in sv:
                k = "%s:%s" % (e["file"], e["new"])
                out.append("| `%s:%d` `%s` → `%s` | %s | %s |\n" % (e["file"], e["line"], e["op"].replace("|", "\\|"), e["new"][:90].replace("|", "\\|"), e["status"].lower(), tri.get(k, tri.get(e["file"], "")).replace("|", "\\|")))
    # false-alarm probe (behaviour-preserving refactorings)
    sil = []
    for d in sorted(glob.glob(os.path.join(VERIF, "seeded_silent", "*"))):
        mf = os.path.join(d, "meta.json")
        if os.path.exists(mf):
            m = json.load(open(mf))
            m["dir"] = os.path.basename(d)
            sil.append(m)
    if sil:
        tri = {}
        tf = os.path.join(P, "silent_triage.json")
        if os.path.exists(tf):
            tri = json.load(open(tf))
        val = [m for m in sil if m.get("valid")]
        out.append("\n### 7.4 False-alarm probe: behaviour-preserving refactorings (`tools/silentprobe.py`)\n\n")
        out.append(part("sec7_4.md") if os.path.exists(os.path.join(P, "sec7_4.md")) else "")
        out.append("\n| refactoring | what (sub-agent's words, abridged) | all 23 checks | triage |\n|---|---|---|---|\n")
        quiet = 0
        for m in val:
            al = m.get("alarms")
            if al is None:
                res = "not run"
            elif not al:
                res = "silent"
                quiet += 1
            else:
                res = "**alarm**: " + "<br>".join("`%s`" % k.split(" :: ")[0].replace("|", "\\|") for p_, ks in sorted(al.items()) for k in ks[:2])
            out.append("| `%s` | %s | %s | %s |\n" % (m["dir"], first_line(m.get("what", ""))[:170].replace("|", "\\|"), res, tri.get(m["dir"], "").replace("|", "\\|")))
        out.append("\n%d confirmed behaviour-preserving refactorings; %d left every check silent on the rule set of the commit recorded in their `meta.json`.\n" % (len(val), quiet))
        inv = [m["dir"] for m in sil if not m.get("valid")]
        if inv:
            out.append("\nDelivered but not confirmed as behaviour-preserving here (not counted): %s.\n" % ", ".join("`%s`" % x for x in inv))
    out.append("\n---------------------------------------------------------------------------\n\n")
    out.append(part("sec8.md"))
    out.append(part("sec9.md"))
    with open(os.path.join(VERIF, "DESIGN.md"), "w") as f:
        f.write("".join(out))
    print("DESIGN.md written: %d bytes" % sum(len(x) for x in out))


if __name__ == "__main__":
    main()
