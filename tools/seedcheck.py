#!/usr/bin/env python3
"""Confirm a seeded change delivered by a sub-agent and run the checks against it.

usage: tools/seedcheck.py <prop> <k> [--props C01,C02,...] [--keep]

 1. in the scratch worktree /tmp/wt/<prop>: demo passes on the clean tree; with the change applied
    everything compiles, the demo fails, the existing suite (without the demo) passes;
 2. apply the change to /repo, run ./check for the listed properties (default: the property
    itself), undo it (git checkout), record which rule keys fired;
 3. write /verif/seeded/<prop>-<k>/{patch.diff, demo.rs, meta.json}.
"""
import json
import os
import re
import shutil
import subprocess
import sys

VERIF = os.path.dirname(os.path.dirname(os.path.abspath(__file__)))


def sh(cmd, cwd=None, timeout=1800):
    env = dict(os.environ, CARGO_NET_OFFLINE="true", CARGO_BUILD_JOBS="6")
    out = ""
    rc = 1
    for attempt in range(4):
        r = subprocess.run(cmd, cwd=cwd, shell=True, capture_output=True, text=True, timeout=timeout, env=env)
        rc, out = r.returncode, r.stdout + r.stderr
        # builds are sometimes killed from outside on this loaded sandbox: retry those
        if "signal: 15" in out or "SIGTERM" in out or "signal: 9" in out or "SIGKILL" in out or "(signal" in out and "cargo" in cmd and "test result" not in out:
            continue
        break
    return rc, out


RELATED = {
    # checks that share the mechanism the property rests on (a violation may be attributed there)
    "C02": ["C03", "C04"], "C04": ["C02", "C16"], "C03": ["C20"], "C06": ["C05", "C07", "C10"], "C07": ["C06", "C05"], "C09": ["C06", "C05", "C07", "C18"], "C10": ["C06", "C11", "C15"],
    "C11": ["C10", "C15", "C23"], "C12": ["C14"], "C13": ["C14", "C15"], "C14": ["C13", "C12"], "C15": ["C13", "C03", "C20"], "C16": ["C17", "C18", "C04"],
    "C17": ["C16", "C18", "C20"], "C18": ["C16", "C17"], "C19": ["C04", "C23"], "C20": ["C01", "C03", "C17"], "C21": ["C20"], "C22": ["C02", "C04"], "C23": ["C11", "C19", "C18"],
    "C01": ["C20"], "C05": ["C06"], "C08": ["C13"],
}


def main():
    prop, k = sys.argv[1], sys.argv[2]
    props = [prop] + RELATED.get(prop, [])
    for i, a in enumerate(sys.argv):
        if a == "--props":
            props = sys.argv[i + 1].split(",")
    root = os.environ.get("SEED_ROOT", "/tmp/wt")
    wt = "%s/%s" % (root, prop)
    out = "%s/%s-out" % (root, prop)
    diff = os.path.join(out, "change%s.diff" % k)
    demo = os.path.join(out, "demo%s.rs" % k)
    notes = os.path.join(out, "change%s.md" % k)
    meta = {"property": prop, "change": k, "ran": []}
    d = os.path.join(VERIF, "seeded", "%s-%s" % (prop, k))
    if "--checks-only" in sys.argv:
        # re-run the checks against an already confirmed change (after rules changed)
        meta = json.load(open(os.path.join(d, "meta.json")))
        diff = os.path.join(d, "patch.diff")
        return run_checks(meta, diff, props, d, prop, k)
    if not (os.path.exists(diff) and os.path.exists(demo)):
        print("missing deliverables for", prop, k)
        return 2
    sh("git checkout -- . && git clean -fdq -e target", cwd=wt)
    os.makedirs(os.path.join(wt, "tests"), exist_ok=True)
    name = "seed_demo_%s_%s" % (prop.lower(), k)
    shutil.copy(demo, os.path.join(wt, "tests", name + ".rs"))
    rc, o = sh("cargo test --offline --test %s 2>&1 | tail -15" % name, cwd=wt)
    clean_pass = "test result: ok" in o
    meta["ran"].append({"cmd": "cargo test --offline --test demo (clean tree)", "passes": clean_pass})
    rc, o1 = sh("git apply %s" % diff, cwd=wt)
    if rc != 0:
        print("patch does not apply:", o1)
        return 2
    rc, o = sh("cargo test --offline --test %s --no-run 2>&1 | tail -5" % name, cwd=wt)
    compiles = rc == 0 and "error" not in o.lower().split("warning")[0]
    rc, o = sh("cargo test --offline --test %s 2>&1 | tail -40" % name, cwd=wt)
    changed_fail = "test result: FAILED" in o or "panicked" in o or "overflowed its stack" in o or "SIGSEGV" in o or "SIGABRT" in o
    meta["ran"].append({"cmd": "cargo test --offline --test demo (changed tree)", "compiles": compiles, "fails": changed_fail, "tail": o[-600:]})
    os.remove(os.path.join(wt, "tests", name + ".rs"))
    rc, o = sh("cargo test --workspace --no-fail-fast --offline 2>&1 | grep -E 'test result|FAILED|failed' | head -20", cwd=wt)
    suite_ok = "FAILED" not in o and "failed" not in o.replace("0 failed", "") and "test result: ok" in o
    meta["ran"].append({"cmd": "cargo test --workspace --no-fail-fast --offline (changed tree, demo removed)", "passes": suite_ok, "summary": o[-500:]})
    sh("git checkout -- . && git clean -fdq -e target", cwd=wt)
    valid = clean_pass and compiles and changed_fail and suite_ok
    meta["valid"] = valid
    print("%s-%s: clean_pass=%s compiles=%s changed_fail=%s suite_ok=%s => %s" % (prop, k, clean_pass, compiles, changed_fail, suite_ok, "VALID" if valid else "INVALID"))
    os.makedirs(d, exist_ok=True)
    if "--validate-only" in sys.argv:
        rc = 0  # the checks are run later with --checks-only (serialised on /repo)
    else:
        rc = run_checks(meta, diff, props, d, prop, k)
    shutil.copy(diff, os.path.join(d, "patch.diff"))
    shutil.copy(demo, os.path.join(d, "demo.rs"))
    if os.path.exists(notes):
        shutil.copy(notes, os.path.join(d, "notes.md"))
        meta["needs"] = open(notes).read()[:1500]
    with open(os.path.join(d, "meta.json"), "w") as f:
        json.dump(meta, f, indent=1)
    return rc


def run_checks(meta, diff, props, d, prop, k):
    # run the checks on /repo with the change applied
    st = subprocess.run("git -C /repo status --porcelain", shell=True, capture_output=True, text=True).stdout.strip()
    if st:
        print("/repo is not clean, refusing to apply:", st)
        return 2
    detected = {}
    rc, o = sh("git -C /repo apply %s" % diff)
    try:
        if rc != 0:
            print("patch does not apply to /repo", o)
            return 2
        from concurrent.futures import ThreadPoolExecutor

        def one(p):
            return p, sh("PV_OUT=/tmp/pvout-seed ./check %s --tier quick" % p, cwd=VERIF)

        results = [one(props[0])]
        with ThreadPoolExecutor(max_workers=4) as ex:
            results += list(ex.map(one, props[1:]))
        for p, (rc, o) in results:
            keys = []
            for rep in re.findall(r"VIOLATION property=\S+ replay=(\S+)", o):
                try:
                    keys.append(json.load(open(rep))["key"])
                except Exception:
                    keys.append(rep)
            detected[p] = {"exit": rc, "violations": keys, "tail": o[-1500:]}
            print("  check %s: exit=%d violations=%d" % (p, rc, len(keys)))
            for kk in keys[:8]:
                print("     ", kk)
    finally:
        sh("git -C /repo checkout -- .")
    meta["checks"] = detected
    meta["detected_by"] = sorted(p for p, dd in detected.items() if dd["exit"] != 0)
    os.makedirs(d, exist_ok=True)
    with open(os.path.join(d, "meta.json"), "w") as f:
        json.dump(meta, f, indent=1)
    return 0


if __name__ == "__main__":
    sys.exit(main())
