#!/usr/bin/env python3
"""Generate MANIFEST.json from props/*.py metadata + not_applicable table."""
import importlib, json, os, sys
HERE = os.path.dirname(os.path.abspath(__file__)); VERIF = os.path.dirname(HERE)
sys.path.insert(0, os.path.join(VERIF, 'rules')); sys.path.insert(0, os.path.join(VERIF, 'props'))
props = [json.loads(l) for l in open(os.path.join(VERIF, 'properties.jsonl'))]
NA = json.load(open(os.path.join(VERIF, 'not_applicable.json')))
checks = []; na = []
for p in props:
    pid = p['id']
    if os.path.exists(os.path.join(VERIF, 'props', pid + '.py')) and pid not in NA:
        m = importlib.import_module(pid)
        checks.append({
            'property_id': pid,
            'quick_cmd': './check %s --tier quick' % pid,
            'thorough_cmd': './check %s --tier thorough' % pid,
            'evidence_file': 'evidence/%s.json' % pid,
            'replay_cmd_template': './check %s --replay {path}' % pid,
            'engine': 'pvfacts+rules',
            'level_claimed': {'category': 'other', 'text': getattr(m, 'LEVEL_TEXT', m.EXPLANATION), 'design_ref': 'DESIGN.md section 4, ' + pid},
            'level_note': getattr(m, 'LEVEL_NOTE', 'Trusts the rustc nightly front end (typed HIR, MIR) and the rule tables written from a reading of the pinned source; decides code shape (structural necessary conditions), not run-time behaviour. Not decided: ' + m.NOT_DECIDED),
            'technique': getattr(m, 'TECHNIQUE', 'static analysis: repository-specific rules over typed HIR / MIR facts from a rustc_private driver'),
        })
    else:
        na.append({'property_id': pid, 'reason': NA.get(pid, 'check under construction (see DESIGN.md)')})
man = {
    'version': 1,
    'setup_cmd': './setup.sh',
    'hooks': {'guard': 'terohuttunen_proto_vulcan_verif', 'enable': 'no hooks are used: checks analyse /repo exactly as plain cargo builds it (cargo +nightly check with a rustc_private driver as RUSTC_WORKSPACE_WRAPPER)', 'baseline_off_cmd': 'cd /repo && cargo test --workspace --no-fail-fast --offline', 'source_commits': [], 'add_only': True},
    'engines': [
        {'name': 'pvfacts', 'path': 'engine/pvfacts', 'serves_properties': [c['property_id'] for c in checks], 'kind_free_text': 'rustc_private driver: dumps typed HIR trees with resolved callees, MIR CFGs (calls, drops, asserts), ADTs, impls as JSON facts; never runs the analysed code'},
        {'name': 'pvtmpl', 'path': 'engine/pvtmpl', 'serves_properties': [c for c in ('C12', 'C13', 'C14', 'C15', 'C20') if any(x['property_id'] == c for x in checks)], 'kind_free_text': 'syn 2 syntax-tree extractor: every quote!/parse_quote! template of the macro crate as a token tree with its enclosing impl / match arm / if branch / let bindings; templates are never expanded or executed'},
        {'name': 'witness', 'path': 'witness', 'serves_properties': [c for c in ('C05', 'C10', 'C15', 'C22') if any(x['property_id'] == c for x in checks)], 'kind_free_text': 'compile_fail,E0xxx doc-tests with compiling twins, built against /repo with cargo +nightly test --doc (type-level barriers; nothing is executed: compile_fail / no_run)'},
        {'name': 'rules', 'path': 'rules', 'serves_properties': [c['property_id'] for c in checks], 'kind_free_text': 'python3 stdlib: symbolic provenance terms over HIR, table matching, CFG/dominator/drop analyses over MIR'},
    ],
    'checks': checks,
    'not_applicable': na,
    'notes': 'Static analysis only. See DESIGN.md. known_findings.json lists recorded defects (KNOWN-FINDING) and fixed: entries.',
}
json.dump(man, open(os.path.join(VERIF, 'MANIFEST.json'), 'w'), indent=1)
print(len(checks), 'checks,', len(na), 'not claimed')
