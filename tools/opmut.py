#!/usr/bin/env python3
"""Operator-level mutation audit of the *checkers* (not a registered command).

Generates value-level mutants of proto-vulcan's non-test source - the edits a shape-comparing checker
is most likely to miss: a comparison operator, `&&`/`||`, `min`/`max`, `+`/`-`, a 0/1 literal,
`start()`/`end()`, `true`/`false`, a dropped `!` - one edit per mutant, applies each to a scratch copy
of a clean tree, and runs every ./check against it.  For mutants no check reports, it then runs the
repository's own test suite on the copy, so that the output separates
   caught            some check reports it (which ones)
   not-compiling     discarded
   tests-kill        no check fires, but the existing suite fails (outside the brief's threat model)
   SURVIVOR          no check fires and the suite is green: an equivalent mutant or a gap - read each.
The suite is run only to classify mutants for the audit; no property is decided by it.

usage: tools/opmut.py --base <clean tree> [--files f1,f2] [--grep regex] [-j N] [--limit N] [--out file]
"""
import argparse
import json
import os
import re
import shutil
import subprocess
import sys
import tempfile
from concurrent.futures import ThreadPoolExecutor

HERE = os.path.dirname(os.path.abspath(__file__))
VERIF = os.path.dirname(HERE)

SWAPS = [
    (r"(?<=[\w\)\]] )<=(?= [\w\(\*\-&])", "<"),
    (r"(?<=[\w\)\]] )>=(?= [\w\(\*\-&])", ">"),
    (r"(?<=[\w\)\]] )<(?= [\w\(\*\-&])", "<="),
    (r"(?<=[\w\)\]] )>(?= [\w\(\*\-&])", ">="),
    (r"(?<=[\w\)\]] )==(?= )", "!="),
    (r"(?<=[\w\)\]] )!=(?= )", "=="),
    (r"&&", "||"),
    (r"\|\|(?= [\w\(\*!])", "&&"),
    (r"\bmin\(", "max("),
    (r"\bmax\(", "min("),
    (r"\.start\(\)", ".end()"),
    (r"\.end\(\)", ".start()"),
    (r"(?<=[\w\)\]] )\+(?= [\w\(\*])", "-"),
    (r"(?<=[\w\)\]] )-(?= [\w\(\*])", "+"),
    (r"(?<![\w.])0(?![\w.])", "1"),
    (r"(?<![\w.])1(?![\w.])", "0"),
    (r"\btrue\b", "false"),
    (r"\bfalse\b", "true"),
    (r"(?<=if )!(?=[\w\(])", ""),
    (r"checked_add", "checked_sub"),
    (r"checked_sub", "checked_add"),
    (r"\.first\(\)", ".last()"),
    (r"\.last\(\)", ".first()"),
    (r"\.next\(\)", ".next_back()"),
    (r"\.is_some\(\)", ".is_none()"),
    (r"\.is_none\(\)", ".is_some()"),
    (r"\.any\(", ".all("),
    (r"\.all\(", ".any("),
    (r"\.skip_while\(", ".take_while("),
    (r"Ordering::Less", "Ordering::Greater"),
    (r"Ordering::Greater", "Ordering::Less"),
]


def props_by_file():
    out = {}
    for l in open(os.path.join(VERIF, "properties.jsonl")):
        p = json.loads(l)
        for f in p["anchors"]["files"]:
            out.setdefault(f.rstrip("/"), []).append(p["id"])
    return out


def home_of(pbf, f):
    out = list(pbf.get(f, []))
    for k, v in pbf.items():
        if f.startswith(k + "/"):
            out += [x for x in v if x not in out]
    return out


def all_props():
    m = json.load(open(os.path.join(VERIF, "MANIFEST.json")))
    return sorted(c["property_id"] for c in m["checks"])


def gen(base, files, grep):
    muts = []
    for f in files:
        p = os.path.join(base, f)
        lines = open(p).read().split("\n")
        cut = len(lines)
        for i, l in enumerate(lines):
            if l.strip() == "#[cfg(test)]":
                cut = i
                break
        in_doc = False
        for i, l in enumerate(lines[:cut]):
            s = l.strip()
            if s.startswith("//") or s.startswith("#[") or s.startswith("use ") or s.startswith("pub use ") or not s:
                continue
            if grep and not re.search(grep, l):
                continue
            code = l.split("//")[0]
            for pat, rep in SWAPS:
                for m in re.finditer(pat, code):
                    # skip generics / lifetimes / type positions
                    if rep in ("<=", ">=") and re.search(r"\b(fn|impl|where|struct|enum|type|trait)\b|->|::<|: [A-Z&]", code):
                        continue
                    new = code[: m.start()] + rep + code[m.end() :] + l[len(code) :]
                    muts.append({"file": f, "line": i + 1, "old": l, "new": new, "op": "%s->%s" % (m.group(0) or "!", rep or "(dropped)")})
    return muts


def run_check(prop, env):
    r = subprocess.run([os.path.join(VERIF, "check"), prop], env=env, capture_output=True, text=True, cwd=VERIF)
    out = r.stdout + r.stderr
    if "cargo check failed" in out:
        return "nocompile", []
    keys = []
    for line in out.splitlines():
        if line.startswith("VIOLATION"):
            rp = line.split("replay=")[1].strip()
            try:
                keys.append(json.load(open(rp))["key"])
            except Exception:
                keys.append(rp)
    return ("caught" if r.returncode == 1 else "silent" if r.returncode == 0 else "error"), keys


def run_one(args):
    base, m, props, home, run_suite = args
    d = tempfile.mkdtemp(prefix="pvop-")
    try:
        repo = os.path.join(d, "repo")
        shutil.copytree(base, repo, ignore=shutil.ignore_patterns("target", ".git"))
        p = os.path.join(repo, m["file"])
        lines = open(p).read().split("\n")
        assert lines[m["line"] - 1] == m["old"]
        lines[m["line"] - 1] = m["new"]
        open(p, "w").write("\n".join(lines))
        env = dict(os.environ, PV_REPO=repo, PV_OUT=os.path.join(d, "out"), PV_CACHE=os.path.join(d, "cache"), PV_NO_WITNESS="1")
        order = [x for x in home if x in props] + [x for x in props if x not in home]
        caught = {}
        st, keys = run_check(order[0], env)
        if st == "nocompile":
            return dict(m, status="not-compiling")
        if st == "caught":
            caught[order[0]] = keys[:3]
        with ThreadPoolExecutor(max_workers=3) as ex:
            for prop, (st, keys) in zip(order[1:], ex.map(lambda q: run_check(q, env), order[1:])):
                if st == "caught":
                    caught[prop] = keys[:3]
                elif st == "error":
                    caught[prop] = ["checker-error"]
        if caught:
            own = [x for x in home if x in caught]
            return dict(m, status="caught", by=caught, home=home, own=bool(own))
        if not run_suite:
            return dict(m, status="uncaught", home=home)
        r = subprocess.run(["cargo", "test", "-j", "4", "--workspace", "--no-fail-fast", "--offline"], cwd=repo, capture_output=True, text=True, env=dict(os.environ, CARGO_NET_OFFLINE="true"))
        out = r.stdout + r.stderr
        if r.returncode != 0 and "test result:" not in out:
            return dict(m, status="suite-error", tail=out[-300:], home=home)
        if r.returncode != 0:
            failed = re.findall(r"^test (\S+) \.\.\. FAILED", out, re.M)
            return dict(m, status="tests-kill", failed=failed[:5], home=home)
        return dict(m, status="SURVIVOR", home=home)
    finally:
        shutil.rmtree(d, ignore_errors=True)


def main():
    ap = argparse.ArgumentParser()
    ap.add_argument("--base", required=True)
    ap.add_argument("--files")
    ap.add_argument("--grep")
    ap.add_argument("-j", type=int, default=3)
    ap.add_argument("--limit", type=int, default=0)
    ap.add_argument("--offset", type=int, default=0)
    ap.add_argument("--stride", type=int, default=1)
    ap.add_argument("--out", default="/tmp/opmut.jsonl")
    ap.add_argument("--no-suite", action="store_true")
    ap.add_argument("--list", action="store_true")
    a = ap.parse_args()
    pbf = props_by_file()
    files = a.files.split(",") if a.files else sorted(pbf)
    ex = []
    for f in files:
        p = os.path.join(a.base, f)
        if os.path.isdir(p):
            for r, _, fs in os.walk(p):
                ex += [os.path.relpath(os.path.join(r, x), a.base) for x in fs if x.endswith(".rs")]
        elif os.path.isfile(p):
            ex.append(f)
    files = sorted(set(ex))
    muts = gen(a.base, files, a.grep)
    muts = muts[a.offset :: a.stride]
    if a.limit:
        muts = muts[: a.limit]
    print("%d mutants over %d files" % (len(muts), len(files)), flush=True)
    if a.list:
        for m in muts:
            print("%s:%d %s | %s" % (m["file"], m["line"], m["op"], m["new"].strip()))
        return
    props = all_props()
    done = set()
    if os.path.exists(a.out):
        for l in open(a.out):
            r = json.loads(l)
            done.add((r["file"], r["line"], r["op"], r["new"]))
    jobs = [(a.base, m, props, home_of(pbf, m["file"]), not a.no_suite) for m in muts if (m["file"], m["line"], m["op"], m["new"]) not in done]
    with ThreadPoolExecutor(max_workers=a.j) as ex, open(a.out, "a") as f:
        for r in ex.map(run_one, jobs):
            f.write(json.dumps(r) + "\n")
            f.flush()
            extra = ""
            if r["status"] == "caught":
                extra = ("own " if r["own"] else "NEIGHBOUR-ONLY ") + ",".join(sorted(r["by"]))
            elif r["status"] == "tests-kill":
                extra = ",".join(r["failed"][:2])
            print("%-14s %s:%d %s  %s   | %s" % (r["status"], r["file"], r["line"], r["op"], extra, r["new"].strip()[:90]), flush=True)


if __name__ == "__main__":
    main()
