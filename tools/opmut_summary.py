#!/usr/bin/env python3
"""Collect tools/opmut.py result files into selftest/opmut_results.json (committed; read by gen_design §7.3).
usage: tools/opmut_summary.py /tmp/opmut-*.jsonl"""
import json
import os
import sys

VERIF = os.path.dirname(os.path.dirname(os.path.abspath(__file__)))
out = {}
for f in sys.argv[1:]:
    for l in open(f):
        r = json.loads(l)
        k = "%s|%s|%s" % (r["file"], r["op"], r["new"].strip())
        e = {"file": r["file"], "line": r["line"], "op": r["op"], "new": r["new"].strip(), "status": r["status"]}
        if r["status"] == "caught":
            e["by"] = sorted(r["by"])
            e["own"] = r["own"]
        if r["status"] == "tests-kill":
            e["failed"] = r.get("failed", [])[:2]
        out[k] = e
res = sorted(out.values(), key=lambda e: (e["file"], e["line"], e["op"], e["new"]))
json.dump(res, open(os.path.join(VERIF, "selftest", "opmut_results.json"), "w"), indent=0)
print(len(res), "mutants")
