// pvfacts: rustc_private driver that dumps a resolved-program fact base
// (typed HIR expression trees with resolved callees, MIR CFGs with resolved
// callees and drop/assert terminators, ADTs, impls, statics) as JSON.
// It never runs the analysed program.
#![feature(rustc_private)]
#![allow(clippy::all)]

extern crate rustc_abi;
extern crate rustc_ast;
extern crate rustc_driver;
extern crate rustc_hir;
extern crate rustc_interface;
extern crate rustc_middle;
extern crate rustc_session;
extern crate rustc_span;

use rustc_hir as hir;
use rustc_hir::def::{DefKind, Res};
use rustc_hir::def_id::{DefId, LocalDefId};
use rustc_middle::mir;
use rustc_middle::ty::{self, TyCtxt, TypeckResults};
use rustc_span::Span;
use std::fmt::Write as _;

mod json;
use json::J;

struct Cb;

impl rustc_driver::Callbacks for Cb {
    fn after_analysis<'tcx>(
        &mut self,
        _c: &rustc_interface::interface::Compiler,
        tcx: TyCtxt<'tcx>,
    ) -> rustc_driver::Compilation {
        let out_dir = match std::env::var("PVFACTS_OUT") {
            Ok(d) => d,
            Err(_) => return rustc_driver::Compilation::Continue,
        };
        let krate = tcx.crate_name(rustc_hir::def_id::LOCAL_CRATE).to_string();
        let want = std::env::var("PVFACTS_CRATES").unwrap_or_default();
        if !want.is_empty() && !want.split(',').any(|w| w == krate) {
            return rustc_driver::Compilation::Continue;
        }
        let dumper = Dumper { tcx };
        let j = dumper.dump_crate(&krate);
        let mut s = String::new();
        j.write(&mut s);
        let is_test = tcx.sess.opts.test;
        let kind = format!("{:?}", tcx.crate_types());
        let fname = format!(
            "{}/{}-{}{}-{}.json",
            out_dir,
            krate,
            if is_test { "test" } else { "plain" },
            if kind.contains("Executable") { "-bin" } else { "" },
            std::process::id()
        );
        std::fs::write(&fname, s).expect("pvfacts: cannot write facts");
        rustc_driver::Compilation::Continue
    }
}

struct Dumper<'tcx> {
    tcx: TyCtxt<'tcx>,
}

fn s<T: Into<String>>(x: T) -> J {
    J::Str(x.into())
}

impl<'tcx> Dumper<'tcx> {
    fn span(&self, sp: Span) -> J {
        let sm = self.tcx.sess.source_map();
        let lo = sm.lookup_char_pos(sp.lo());
        let hi = sm.lookup_char_pos(sp.hi());
        let file = match &lo.file.name {
            rustc_span::FileName::Real(r) => match r.local_path() {
                Some(p) => p.to_string_lossy().to_string(),
                None => format!("{:?}", r),
            },
            other => format!("{:?}", other),
        };
        J::Str(format!(
            "{}:{}:{}-{}:{}{}",
            file,
            lo.line,
            lo.col.0 + 1,
            hi.line,
            hi.col.0 + 1,
            if sp.from_expansion() { "!" } else { "" }
        ))
    }

    fn path(&self, did: DefId) -> String {
        ty::print::with_no_trimmed_paths!(ty::print::with_crate_prefix!(self.tcx.def_path_str(did)))
    }

    fn tystr(&self, t: ty::Ty<'tcx>) -> String {
        ty::print::with_no_trimmed_paths!(format!("{}", t))
    }

    fn dump_crate(&self, krate: &str) -> J {
        let tcx = self.tcx;
        let mut adts = vec![];
        let mut impls = vec![];
        let mut statics = vec![];
        let mut traits = vec![];
        for ldid in tcx.hir_crate_items(()).definitions() {
            let did = ldid.to_def_id();
            match tcx.def_kind(did) {
                DefKind::Struct | DefKind::Enum | DefKind::Union => adts.push(self.dump_adt(did)),
                DefKind::Impl { .. } => impls.push(self.dump_impl(did)),
                DefKind::Static { .. } => {
                    let t = tcx.type_of(did).instantiate_identity().skip_norm_wip();
                    statics.push(J::obj(vec![
                        ("path", s(self.path(did))),
                        ("ty", s(self.tystr(t))),
                        ("span", self.span(tcx.def_span(did))),
                    ]));
                }
                DefKind::Trait => {
                    let items: Vec<J> = tcx
                        .associated_items(did)
                        .in_definition_order()
                        .map(|it| {
                            J::obj(vec![
                                ("name", s(it.name().to_string())),
                                ("path", s(self.path(it.def_id))),
                                ("has_default", J::Bool(it.defaultness(tcx).has_value())),
                            ])
                        })
                        .collect();
                    traits.push(J::obj(vec![
                        ("path", s(self.path(did))),
                        ("items", J::Arr(items)),
                        ("span", self.span(tcx.def_span(did))),
                    ]));
                }
                _ => {}
            }
        }
        let mut fns = vec![];
        for ldid in tcx.hir_body_owners() {
            let did = ldid.to_def_id();
            let kind = tcx.def_kind(did);
            match kind {
                DefKind::Fn | DefKind::AssocFn | DefKind::Closure => {}
                _ => continue,
            }
            fns.push(self.dump_fn(ldid, kind));
        }
        J::obj(vec![
            ("crate", s(krate)),
            ("test", J::Bool(tcx.sess.opts.test)),
            ("crate_types", s(format!("{:?}", tcx.crate_types()))),
            ("adts", J::Arr(adts)),
            ("impls", J::Arr(impls)),
            ("traits", J::Arr(traits)),
            ("statics", J::Arr(statics)),
            ("fns", J::Arr(fns)),
        ])
    }

    fn dump_adt(&self, did: DefId) -> J {
        let tcx = self.tcx;
        let adt = tcx.adt_def(did);
        let mut variants = vec![];
        for v in adt.variants() {
            let mut fields = vec![];
            for f in v.fields.iter() {
                let t = tcx.type_of(f.did).instantiate_identity().skip_norm_wip();
                fields.push(J::obj(vec![
                    ("name", s(f.name.to_string())),
                    ("ty", s(self.tystr(t))),
                    ("tys", self.ty_tree(t, 0)),
                    ("vis", s(format!("{:?}", f.vis))),
                ]));
            }
            variants.push(J::obj(vec![
                ("name", s(v.name.to_string())),
                ("ctor", s(format!("{:?}", v.ctor_kind()))),
                ("fields", J::Arr(fields)),
            ]));
        }
        let kind = if adt.is_enum() {
            "enum"
        } else if adt.is_union() {
            "union"
        } else {
            "struct"
        };
        let attrs = self.derive_info(did);
        J::obj(vec![
            ("path", s(self.path(did))),
            ("kind", s(kind)),
            ("vis", s(format!("{:?}", tcx.visibility(did)))),
            ("span", self.span(tcx.def_span(did))),
            ("variants", J::Arr(variants)),
            ("attrs", attrs),
        ])
    }

    fn derive_info(&self, _did: DefId) -> J {
        J::Null
    }

    // Structured type: ADT path + generic args, recursively (bounded depth)
    fn ty_tree(&self, t: ty::Ty<'tcx>, depth: usize) -> J {
        if depth > 8 {
            return s(self.tystr(t));
        }
        match t.kind() {
            ty::Adt(def, args) => {
                let mut a = vec![];
                for ga in args.iter() {
                    if let Some(t2) = ga.as_type() {
                        a.push(self.ty_tree(t2, depth + 1));
                    }
                }
                J::obj(vec![("adt", s(self.path(def.did()))), ("args", J::Arr(a))])
            }
            ty::Ref(_, inner, m) => J::obj(vec![
                ("ref", self.ty_tree(*inner, depth + 1)),
                ("mut", J::Bool(m.is_mut())),
            ]),
            ty::RawPtr(inner, m) => J::obj(vec![
                ("rawptr", self.ty_tree(*inner, depth + 1)),
                ("mut", J::Bool(m.is_mut())),
            ]),
            ty::Tuple(ts) => {
                J::obj(vec![("tuple", J::Arr(ts.iter().map(|x| self.ty_tree(x, depth + 1)).collect()))])
            }
            ty::Slice(inner) => J::obj(vec![("slice", self.ty_tree(*inner, depth + 1))]),
            ty::Array(inner, _) => J::obj(vec![("array", self.ty_tree(*inner, depth + 1))]),
            ty::Dynamic(preds, _) => {
                let mut names = vec![];
                for p in preds.iter() {
                    match p.skip_binder() {
                        ty::ExistentialPredicate::Trait(tr) => names.push(s(self.path(tr.def_id))),
                        ty::ExistentialPredicate::AutoTrait(d) => names.push(s(self.path(d))),
                        _ => {}
                    }
                }
                J::obj(vec![("dyn", J::Arr(names)), ("str", s(self.tystr(t)))])
            }
            ty::Param(p) => J::obj(vec![("param", s(p.name.to_string()))]),
            ty::Closure(did, _) => J::obj(vec![("closure", s(self.path(*did)))]),
            ty::FnPtr(..) => J::obj(vec![("fnptr", s(self.tystr(t)))]),
            ty::FnDef(did, _) => J::obj(vec![("fndef", s(self.path(*did)))]),
            _ => J::obj(vec![("prim", s(self.tystr(t)))]),
        }
    }

    fn dump_impl(&self, did: DefId) -> J {
        let tcx = self.tcx;
        let self_ty = tcx.type_of(did).instantiate_identity().skip_norm_wip();
        let tr = tcx.impl_opt_trait_ref(did).map(|t| t.instantiate_identity().skip_norm_wip());
        let items: Vec<J> = tcx
            .associated_items(did)
            .in_definition_order()
            .map(|it| {
                J::obj(vec![
                    ("name", s(it.name().to_string())),
                    ("path", s(self.path(it.def_id))),
                    ("kind", s(format!("{:?}", it.tag()))),
                ])
            })
            .collect();
        let self_adt = match self_ty.kind() {
            ty::Adt(def, _) => s(self.path(def.did())),
            _ => J::Null,
        };
        J::obj(vec![
            ("path", s(self.path(did))),
            ("trait", tr.map(|t| s(self.path(t.def_id))).unwrap_or(J::Null)),
            ("trait_str", tr.map(|t| s(ty::print::with_no_trimmed_paths!(format!("{:?}", t)))).unwrap_or(J::Null)),
            ("self_ty", s(self.tystr(self_ty))),
            ("self_tys", self.ty_tree(self_ty, 0)),
            ("self_adt", self_adt),
            ("items", J::Arr(items)),
            ("span", self.span(tcx.def_span(did))),
            ("from_expansion", J::Bool(tcx.def_span(did).from_expansion())),
        ])
    }

    fn dump_fn(&self, ldid: LocalDefId, kind: DefKind) -> J {
        let tcx = self.tcx;
        let did = ldid.to_def_id();
        let mut fields = vec![
            ("path", s(self.path(did))),
            ("kind", s(format!("{:?}", kind))),
            ("span", self.span(tcx.def_span(did))),
        ];
        if matches!(kind, DefKind::Fn | DefKind::AssocFn) {
            fields.push(("vis", s(format!("{:?}", tcx.visibility(did)))));
            let sig = tcx.fn_sig(did).instantiate_identity().skip_norm_wip().skip_binder();
            fields.push((
                "inputs",
                J::Arr(sig.inputs().iter().map(|t| s(self.tystr(*t))).collect()),
            ));
            fields.push(("output", s(self.tystr(sig.output()))));
            fields.push(("unsafe", J::Bool(!sig.safety().is_safe())));
            // parent impl / trait
            if let Some(parent) = tcx.opt_parent(did) {
                match tcx.def_kind(parent) {
                    DefKind::Impl { .. } => {
                        fields.push(("impl", s(self.path(parent))));
                        if let Some(tr) = tcx.impl_opt_trait_ref(parent) {
                            let tr = tr.instantiate_identity().skip_norm_wip();
                            fields.push(("impl_trait", s(self.path(tr.def_id))));
                        }
                        let st = tcx.type_of(parent).instantiate_identity().skip_norm_wip();
                        fields.push(("impl_self", s(self.tystr(st))));
                        if let ty::Adt(def, _) = st.kind() {
                            fields.push(("impl_self_adt", s(self.path(def.did()))));
                        }
                    }
                    DefKind::Trait => fields.push(("trait_default", s(self.path(parent)))),
                    _ => {}
                }
            }
            fields.push(("name", s(tcx.item_name(did).to_string())));
        } else {
            // closure: record parent fn
            let root = tcx.typeck_root_def_id(did);
            fields.push(("root", s(self.path(root))));
            if let Some(parent) = tcx.opt_parent(did) {
                fields.push(("parent", s(self.path(parent))));
            }
            // captured variables (upvars) with their types
            let caps: Vec<J> = tcx
                .closure_captures(ldid)
                .iter()
                .map(|c| {
                    let t = c.place.ty();
                    J::obj(vec![
                        ("name", s(c.to_string(tcx))),
                        ("ty", s(self.tystr(t))),
                        ("tys", self.ty_tree(t, 0)),
                        ("by_ref", J::Bool(matches!(c.info.capture_kind, ty::UpvarCapture::ByRef(_)))),
                    ])
                })
                .collect();
            fields.push(("upvars", J::Arr(caps)));
        }
        // attributes: #[test], #[cfg(test)] modules are simply absent in non-test builds
        let hir_id = tcx.local_def_id_to_hir_id(ldid);
        let mut in_test_mod = false;
        {
            // walk up module parents, look for a module named `test`/`tests`
            let mut cur = tcx.opt_parent(did);
            while let Some(p) = cur {
                if tcx.def_kind(p) == DefKind::Mod {
                    if let Some(n) = tcx.opt_item_name(p) {
                        let n = n.to_string();
                        if n == "test" || n == "tests" {
                            in_test_mod = true;
                        }
                    }
                }
                cur = tcx.opt_parent(p);
            }
        }
        let _ = hir_id;
        fields.push(("in_test_mod", J::Bool(in_test_mod)));

        // HIR tree only for non-closures (closures are nested in their parents)
        if !matches!(kind, DefKind::Closure) {
            let body = tcx.hir_body_owned_by(ldid);
            let typeck = tcx.typeck(ldid);
            let hd = HirDump { d: self, typeck };
            let params: Vec<J> = body.params.iter().map(|p| hd.pat(p.pat)).collect();
            fields.push(("params", J::Arr(params)));
            fields.push(("hir", hd.expr(body.value)));
        }
        // MIR
        if tcx.is_mir_available(did) {
            let body = tcx.optimized_mir(did);
            fields.push(("mir", self.dump_mir(did, body)));
        }
        J::obj(fields)
    }

    // ---------------- MIR ----------------
    fn dump_mir(&self, did: DefId, body: &mir::Body<'tcx>) -> J {
        let tcx = self.tcx;
        let mut locals = vec![];
        let mut names: Vec<Option<String>> = vec![None; body.local_decls.len()];
        for vdi in &body.var_debug_info {
            if let mir::VarDebugInfoContents::Place(p) = &vdi.value {
                if p.projection.is_empty() {
                    names[p.local.as_usize()] = Some(vdi.name.to_string());
                }
            }
        }
        for (l, decl) in body.local_decls.iter_enumerated() {
            locals.push(J::obj(vec![
                ("ty", s(self.tystr(decl.ty))),
                ("tys", self.ty_tree(decl.ty, 0)),
                (
                    "name",
                    names[l.as_usize()].clone().map(J::Str).unwrap_or(J::Null),
                ),
                ("span", self.span(decl.source_info.span)),
            ]));
        }
        let typing_env = ty::TypingEnv::post_analysis(tcx, did);
        let mut blocks = vec![];
        for (_bb, data) in body.basic_blocks.iter_enumerated() {
            let mut stmts = vec![];
            for st in &data.statements {
                if let Some(j) = self.mir_stmt(body, st) {
                    stmts.push(j);
                }
            }
            let term = data.terminator();
            blocks.push(J::obj(vec![
                ("cleanup", J::Bool(data.is_cleanup)),
                ("stmts", J::Arr(stmts)),
                ("term", self.mir_term(body, typing_env, term)),
            ]));
        }
        J::obj(vec![
            ("arg_count", J::Num(body.arg_count as i64)),
            ("locals", J::Arr(locals)),
            ("blocks", J::Arr(blocks)),
        ])
    }

    fn place(&self, p: &mir::Place<'tcx>) -> J {
        let mut proj = vec![];
        for e in p.projection.iter() {
            proj.push(match e {
                mir::ProjectionElem::Deref => s("*"),
                mir::ProjectionElem::Field(f, _) => J::Num(f.as_usize() as i64),
                mir::ProjectionElem::Downcast(name, idx) => J::obj(vec![
                    ("variant", name.map(|n| s(n.to_string())).unwrap_or(J::Null)),
                    ("idx", J::Num(idx.as_usize() as i64)),
                ]),
                mir::ProjectionElem::Index(l) => J::obj(vec![("index", J::Num(l.as_usize() as i64))]),
                other => s(format!("{:?}", other)),
            });
        }
        J::obj(vec![("l", J::Num(p.local.as_usize() as i64)), ("p", J::Arr(proj))])
    }

    fn operand(&self, o: &mir::Operand<'tcx>) -> J {
        match o {
            mir::Operand::Copy(p) => J::obj(vec![("copy", self.place(p))]),
            mir::Operand::Move(p) => J::obj(vec![("move", self.place(p))]),
            mir::Operand::Constant(c) => {
                let t = c.const_.ty();
                let mut f = vec![("const", s(format!("{}", c.const_))), ("ty", s(self.tystr(t)))];
                if let ty::FnDef(d, _) = t.kind() {
                    f.push(("fndef", s(self.path(*d))));
                }
                J::obj(f)
            }
            #[allow(unreachable_patterns)]
            other => J::obj(vec![("other", s(format!("{:?}", other)))]),
        }
    }

    fn mir_stmt(&self, body: &mir::Body<'tcx>, st: &mir::Statement<'tcx>) -> Option<J> {
        let sp = self.span(st.source_info.span);
        match &st.kind {
            mir::StatementKind::Assign(b) => {
                let (place, rv) = &**b;
                Some(J::obj(vec![
                    ("k", s("assign")),
                    ("place", self.place(place)),
                    ("rv", self.rvalue(body, rv)),
                    ("sp", sp),
                ]))
            }
            mir::StatementKind::SetDiscriminant { place, variant_index } => Some(J::obj(vec![
                ("k", s("setdiscr")),
                ("place", self.place(place)),
                ("idx", J::Num(variant_index.as_usize() as i64)),
                ("sp", sp),
            ])),
            mir::StatementKind::StorageLive(_)
            | mir::StatementKind::StorageDead(_)
            | mir::StatementKind::Nop
            | mir::StatementKind::FakeRead(..)
            | mir::StatementKind::AscribeUserType(..)
            | mir::StatementKind::PlaceMention(..)
            | mir::StatementKind::Coverage(..)
            | mir::StatementKind::ConstEvalCounter => None,
            other => Some(J::obj(vec![("k", s("other")), ("str", s(format!("{:?}", other))), ("sp", sp)])),
        }
    }

    fn rvalue(&self, _body: &mir::Body<'tcx>, rv: &mir::Rvalue<'tcx>) -> J {
        match rv {
            mir::Rvalue::Use(o, ..) => J::obj(vec![("k", s("use")), ("op", self.operand(o))]),
            mir::Rvalue::Ref(_, bk, p) => J::obj(vec![
                ("k", s("ref")),
                ("mut", J::Bool(matches!(bk, mir::BorrowKind::Mut { .. }))),
                ("place", self.place(p)),
            ]),
            mir::Rvalue::RawPtr(k, p) => J::obj(vec![
                ("k", s("rawptr")),
                ("kind", s(format!("{:?}", k))),
                ("place", self.place(p)),
            ]),
            mir::Rvalue::BinaryOp(op, b) => {
                let (l, r) = &**b;
                J::obj(vec![
                    ("k", s("binop")),
                    ("op", s(format!("{:?}", op))),
                    ("l", self.operand(l)),
                    ("r", self.operand(r)),
                ])
            }
            mir::Rvalue::UnaryOp(op, o) => J::obj(vec![
                ("k", s("unop")),
                ("op", s(format!("{:?}", op))),
                ("o", self.operand(o)),
            ]),
            mir::Rvalue::Discriminant(p) => J::obj(vec![("k", s("discr")), ("place", self.place(p))]),
            mir::Rvalue::Cast(kind, o, t) => J::obj(vec![
                ("k", s("cast")),
                ("kind", s(format!("{:?}", kind))),
                ("o", self.operand(o)),
                ("ty", s(self.tystr(*t))),
            ]),
            mir::Rvalue::Aggregate(kind, ops) => {
                let mut f = vec![("k", s("aggregate"))];
                match &**kind {
                    mir::AggregateKind::Adt(did, vidx, _, _, _) => {
                        let adt = self.tcx.adt_def(*did);
                        f.push(("adt", s(self.path(*did))));
                        f.push(("variant", s(adt.variant(*vidx).name.to_string())));
                    }
                    mir::AggregateKind::Tuple => f.push(("tuple", J::Bool(true))),
                    mir::AggregateKind::Array(_) => f.push(("array", J::Bool(true))),
                    mir::AggregateKind::Closure(did, _) => f.push(("closure", s(self.path(*did)))),
                    other => f.push(("agg_other", s(format!("{:?}", other)))),
                }
                f.push(("ops", J::Arr(ops.iter().map(|o| self.operand(o)).collect())));
                J::obj(f)
            }
            other => J::obj(vec![("k", s("other")), ("str", s(format!("{:?}", other)))]),
        }
    }

    fn mir_term(
        &self,
        body: &mir::Body<'tcx>,
        typing_env: ty::TypingEnv<'tcx>,
        term: &mir::Terminator<'tcx>,
    ) -> J {
        let tcx = self.tcx;
        let sp = self.span(term.source_info.span);
        let bbn = |b: mir::BasicBlock| J::Num(b.as_usize() as i64);
        let unwind = |u: &mir::UnwindAction| match u {
            mir::UnwindAction::Cleanup(b) => bbn(*b),
            _ => J::Null,
        };
        match &term.kind {
            mir::TerminatorKind::Goto { target } => {
                J::obj(vec![("k", s("goto")), ("target", bbn(*target)), ("sp", sp)])
            }
            mir::TerminatorKind::SwitchInt { discr, targets } => {
                let mut ts = vec![];
                for (v, b) in targets.iter() {
                    ts.push(J::Arr(vec![J::Str(v.to_string()), bbn(b)]));
                }
                J::obj(vec![
                    ("k", s("switch")),
                    ("discr", self.operand(discr)),
                    ("targets", J::Arr(ts)),
                    ("otherwise", bbn(targets.otherwise())),
                    ("sp", sp),
                ])
            }
            mir::TerminatorKind::Return => J::obj(vec![("k", s("return")), ("sp", sp)]),
            mir::TerminatorKind::Unreachable => J::obj(vec![("k", s("unreachable")), ("sp", sp)]),
            mir::TerminatorKind::UnwindResume => J::obj(vec![("k", s("resume")), ("sp", sp)]),
            mir::TerminatorKind::UnwindTerminate(_) => J::obj(vec![("k", s("terminate")), ("sp", sp)]),
            mir::TerminatorKind::Drop { place, target, unwind: u, .. } => {
                let t = place.ty(body, tcx).ty;
                J::obj(vec![
                    ("k", s("drop")),
                    ("place", self.place(place)),
                    ("ty", s(self.tystr(t))),
                    ("tys", self.ty_tree(t, 0)),
                    ("target", bbn(*target)),
                    ("unwind", unwind(u)),
                    ("sp", sp),
                ])
            }
            mir::TerminatorKind::Call { func, args, destination, target, unwind: u, .. } => {
                let mut f = vec![("k", s("call"))];
                let fty = func.ty(body, tcx);
                match fty.kind() {
                    ty::FnDef(d, gargs) => {
                        f.push(("callee", s(self.path(*d))));
                        f.push(("callee_full", s(self.tystr(fty))));
                        let mut ga = vec![];
                        for a in gargs.iter() {
                            if let Some(t) = a.as_type() {
                                ga.push(self.ty_tree(t, 0));
                            }
                        }
                        f.push(("gargs", J::Arr(ga)));
                        if let Ok(Some(inst)) = ty::Instance::try_resolve(tcx, typing_env, *d, gargs) {
                            let rd = inst.def_id();
                            if rd != *d {
                                f.push(("resolved", s(self.path(rd))));
                            }
                            if let ty::InstanceKind::Virtual(..) = inst.def {
                                f.push(("virtual", J::Bool(true)));
                            }
                        }
                    }
                    _ => {
                        f.push(("callee_op", self.operand(func)));
                        f.push(("callee_ty", s(self.tystr(fty))));
                    }
                }
                f.push(("args", J::Arr(args.iter().map(|a| self.operand(&a.node)).collect())));
                f.push(("dest", self.place(destination)));
                f.push(("target", target.map(bbn).unwrap_or(J::Null)));
                f.push(("unwind", unwind(u)));
                f.push(("sp", sp));
                J::obj(f)
            }
            mir::TerminatorKind::Assert { cond, expected, msg, target, unwind: u } => {
                let kind = match &**msg {
                    mir::AssertKind::BoundsCheck { .. } => "bounds".to_string(),
                    mir::AssertKind::Overflow(op, ..) => format!("overflow:{:?}", op),
                    mir::AssertKind::OverflowNeg(..) => "overflow:Neg".to_string(),
                    mir::AssertKind::DivisionByZero(..) => "divzero".to_string(),
                    mir::AssertKind::RemainderByZero(..) => "remzero".to_string(),
                    mir::AssertKind::MisalignedPointerDereference { .. } => "misaligned".to_string(),
                    mir::AssertKind::NullPointerDereference => "nullptr".to_string(),
                    other => {
                        let mut x = String::new();
                        let _ = write!(x, "other:{:?}", other);
                        x.truncate(60);
                        x
                    }
                };
                J::obj(vec![
                    ("k", s("assert")),
                    ("cond", self.operand(cond)),
                    ("expected", J::Bool(*expected)),
                    ("kind", s(kind)),
                    ("target", bbn(*target)),
                    ("unwind", unwind(u)),
                    ("sp", sp),
                ])
            }
            other => J::obj(vec![
                ("k", s("other")),
                ("str", s(format!("{:?}", other))),
                (
                    "succ",
                    J::Arr(term.successors().map(bbn).collect()),
                ),
                ("sp", sp),
            ]),
        }
    }
}

// ---------------- HIR ----------------
struct HirDump<'a, 'tcx> {
    d: &'a Dumper<'tcx>,
    typeck: &'tcx TypeckResults<'tcx>,
}

impl<'a, 'tcx> HirDump<'a, 'tcx> {
    fn res(&self, res: Res) -> Vec<(&'static str, J)> {
        match res {
            Res::Local(hid) => vec![("res", s("local")), ("id", J::Num(hid.local_id.as_u32() as i64))],
            Res::Def(kind, did) => {
                let mut v = vec![
                    ("res", s("def")),
                    ("dk", s(format!("{:?}", kind))),
                    ("path", s(self.d.path(did))),
                ];
                if let DefKind::Ctor(..) = kind {
                    // parent of ctor is the variant (or struct)
                    if let Some(p) = self.d.tcx.opt_parent(did) {
                        v.push(("ctor_of", s(self.d.path(p))));
                    }
                }
                v
            }
            Res::SelfCtor(did) => vec![("res", s("selfctor")), ("path", s(self.d.path(did)))],
            Res::SelfTyAlias { alias_to, .. } => {
                vec![("res", s("selfty")), ("path", s(self.d.path(alias_to)))]
            }
            other => vec![("res", s("other")), ("str", s(format!("{:?}", other)))],
        }
    }

    fn qpath(&self, qp: &hir::QPath<'_>, id: hir::HirId) -> Vec<(&'static str, J)> {
        let res = self.typeck.qpath_res(qp, id);
        let mut v = self.res(res);
        let txt = match qp {
            hir::QPath::Resolved(_, p) => {
                p.segments.iter().map(|s| s.ident.to_string()).collect::<Vec<_>>().join("::")
            }
            hir::QPath::TypeRelative(_, seg) => format!("<_>::{}", seg.ident),
        };
        v.push(("txt", s(txt)));
        v
    }

    fn pat(&self, p: &hir::Pat<'_>) -> J {
        let mut f: Vec<(&'static str, J)> = vec![];
        match &p.kind {
            hir::PatKind::Wild => f.push(("k", s("Wild"))),
            hir::PatKind::Missing => f.push(("k", s("Missing"))),
            hir::PatKind::Never => f.push(("k", s("Never"))),
            hir::PatKind::Binding(mode, hid, ident, sub) => {
                f.push(("k", s("Binding")));
                f.push(("id", J::Num(hid.local_id.as_u32() as i64)));
                f.push(("name", s(ident.to_string())));
                f.push(("mode", s(format!("{:?}", mode))));
                if let Some(sp) = sub {
                    f.push(("sub", self.pat(sp)));
                }
            }
            hir::PatKind::Struct(qp, fields, rest) => {
                f.push(("k", s("Struct")));
                f.extend(self.qpath(qp, p.hir_id));
                let fs: Vec<J> = fields
                    .iter()
                    .map(|pf| J::obj(vec![("field", s(pf.ident.to_string())), ("pat", self.pat(pf.pat))]))
                    .collect();
                f.push(("fields", J::Arr(fs)));
                f.push(("rest", J::Bool(rest.is_some())));
            }
            hir::PatKind::TupleStruct(qp, pats, dd) => {
                f.push(("k", s("TupleStruct")));
                f.extend(self.qpath(qp, p.hir_id));
                f.push(("pats", J::Arr(pats.iter().map(|x| self.pat(x)).collect())));
                f.push((
                    "dotdot",
                    dd.as_opt_usize().map(|u| J::Num(u as i64)).unwrap_or(J::Null),
                ));
            }
            hir::PatKind::Or(pats) => {
                f.push(("k", s("Or")));
                f.push(("pats", J::Arr(pats.iter().map(|x| self.pat(x)).collect())));
            }
            hir::PatKind::Tuple(pats, dd) => {
                f.push(("k", s("Tuple")));
                f.push(("pats", J::Arr(pats.iter().map(|x| self.pat(x)).collect())));
                f.push((
                    "dotdot",
                    dd.as_opt_usize().map(|u| J::Num(u as i64)).unwrap_or(J::Null),
                ));
            }
            hir::PatKind::Box(x) => {
                f.push(("k", s("Box")));
                f.push(("pat", self.pat(x)));
            }
            hir::PatKind::Deref(x) => {
                f.push(("k", s("Deref")));
                f.push(("pat", self.pat(x)));
            }
            hir::PatKind::Ref(x, ..) => {
                f.push(("k", s("Ref")));
                f.push(("pat", self.pat(x)));
            }
            hir::PatKind::Expr(e) => match &e.kind {
                hir::PatExprKind::Path(qp) => {
                    f.push(("k", s("PathPat")));
                    f.extend(self.qpath(qp, e.hir_id));
                }
                _ => {
                    f.push(("k", s("Lit")));
                    f.push(("str", s(self.snippet(e.span))));
                }
            },
            hir::PatKind::Guard(x, e) => {
                f.push(("k", s("Guard")));
                f.push(("pat", self.pat(x)));
                f.push(("cond", self.expr(e)));
            }
            hir::PatKind::Range(..) => {
                f.push(("k", s("Range")));
                f.push(("str", s(self.snippet(p.span))));
            }
            hir::PatKind::Slice(a, m, b) => {
                f.push(("k", s("Slice")));
                f.push(("before", J::Arr(a.iter().map(|x| self.pat(x)).collect())));
                if let Some(m) = m {
                    f.push(("mid", self.pat(m)));
                }
                f.push(("after", J::Arr(b.iter().map(|x| self.pat(x)).collect())));
            }
            hir::PatKind::Err(_) => f.push(("k", s("Err"))),
        }
        f.push(("sp", self.d.span(p.span)));
        J::obj(f)
    }

    fn snippet(&self, sp: Span) -> String {
        self.d.tcx.sess.source_map().span_to_snippet(sp).unwrap_or_default()
    }

    fn block(&self, b: &hir::Block<'_>) -> J {
        let mut stmts = vec![];
        for st in b.stmts {
            match &st.kind {
                hir::StmtKind::Let(l) => {
                    let mut f = vec![("k", s("Let")), ("pat", self.pat(l.pat))];
                    if let Some(i) = l.init {
                        f.push(("init", self.expr(i)));
                    }
                    if let Some(e) = l.els {
                        f.push(("els", self.block(e)));
                    }
                    f.push(("src", s(format!("{:?}", l.source))));
                    f.push(("sp", self.d.span(l.span)));
                    stmts.push(J::obj(f));
                }
                hir::StmtKind::Item(_) => stmts.push(J::obj(vec![("k", s("Item")), ("sp", self.d.span(st.span))])),
                hir::StmtKind::Expr(e) => stmts.push(J::obj(vec![("k", s("Expr")), ("e", self.expr(e))])),
                hir::StmtKind::Semi(e) => stmts.push(J::obj(vec![("k", s("Semi")), ("e", self.expr(e))])),
            }
        }
        let mut f = vec![("k", s("Block")), ("stmts", J::Arr(stmts))];
        if let Some(e) = b.expr {
            f.push(("expr", self.expr(e)));
        }
        if let hir::BlockCheckMode::UnsafeBlock(src) = b.rules {
            f.push(("unsafe", s(format!("{:?}", src))));
        }
        f.push(("sp", self.d.span(b.span)));
        J::obj(f)
    }

    fn expr(&self, e: &hir::Expr<'_>) -> J {
        let mut f: Vec<(&'static str, J)> = vec![];
        let es = |xs: &[hir::Expr<'_>]| J::Arr(xs.iter().map(|x| self.expr(x)).collect());
        match &e.kind {
            hir::ExprKind::ConstBlock(_) => f.push(("k", s("ConstBlock"))),
            hir::ExprKind::Array(xs) => {
                f.push(("k", s("Array")));
                f.push(("elems", es(xs)));
            }
            hir::ExprKind::Call(func, args) => {
                f.push(("k", s("Call")));
                // resolved callee when func is a path
                if let hir::ExprKind::Path(qp) = &func.kind {
                    let r = self.typeck.qpath_res(qp, func.hir_id);
                    if let Res::Def(kind, did) = r {
                        f.push(("callee", s(self.d.path(did))));
                        f.push(("callee_kind", s(format!("{:?}", kind))));
                        if let DefKind::Ctor(..) = kind {
                            if let Some(p) = self.d.tcx.opt_parent(did) {
                                f.push(("ctor_of", s(self.d.path(p))));
                            }
                        }
                        if matches!(kind, DefKind::AssocFn | DefKind::Fn) {
                            let args_ = self.typeck.node_args(func.hir_id);
                            f.push(("gargs", J::Arr(args_.types().map(|t| s(self.d.tystr(t))).collect())));
                        }
                        // self type of an associated fn: from substs
                        if matches!(kind, DefKind::AssocFn) {
                            let args_ = self.typeck.node_args(func.hir_id);
                            if let Some(first) = args_.types().next() {
                                f.push(("self_ty", s(self.d.tystr(first))));
                            }
                            self.push_resolved(&mut f, did, args_, e.hir_id);
                        }
                    }
                }
                f.push(("f", self.expr(func)));
                f.push(("args", es(args)));
            }
            hir::ExprKind::MethodCall(seg, recv, args, _) => {
                f.push(("k", s("MethodCall")));
                f.push(("method", s(seg.ident.to_string())));
                if let Some(did) = self.typeck.type_dependent_def_id(e.hir_id) {
                    f.push(("callee", s(self.d.path(did))));
                    let args_ = self.typeck.node_args(e.hir_id);
                    self.push_resolved(&mut f, did, args_, e.hir_id);
                    f.push(("gargs", J::Arr(args_.types().map(|t| s(self.d.tystr(t))).collect())));
                }
                f.push(("recv_ty", s(self.d.tystr(self.typeck.expr_ty_adjusted(recv)))));
                f.push(("recv", self.expr(recv)));
                f.push(("args", es(args)));
            }
            hir::ExprKind::Use(x, _) => {
                f.push(("k", s("Use")));
                f.push(("e", self.expr(x)));
            }
            hir::ExprKind::Tup(xs) => {
                f.push(("k", s("Tup")));
                f.push(("elems", es(xs)));
            }
            hir::ExprKind::Binary(op, l, r) => {
                f.push(("k", s("Binary")));
                f.push(("op", s(format!("{:?}", op.node))));
                if let Some(did) = self.typeck.type_dependent_def_id(e.hir_id) {
                    f.push(("callee", s(self.d.path(did))));
                }
                f.push(("l", self.expr(l)));
                f.push(("r", self.expr(r)));
            }
            hir::ExprKind::Unary(op, x) => {
                f.push(("k", s("Unary")));
                f.push(("op", s(format!("{:?}", op))));
                if let Some(did) = self.typeck.type_dependent_def_id(e.hir_id) {
                    f.push(("callee", s(self.d.path(did))));
                }
                f.push(("e", self.expr(x)));
            }
            hir::ExprKind::Lit(l) => {
                f.push(("k", s("Lit")));
                f.push(("v", s(format!("{:?}", l.node))));
            }
            hir::ExprKind::Cast(x, _) => {
                f.push(("k", s("Cast")));
                f.push(("e", self.expr(x)));
            }
            hir::ExprKind::Type(x, _) => {
                f.push(("k", s("Type")));
                f.push(("e", self.expr(x)));
            }
            hir::ExprKind::DropTemps(x) => {
                f.push(("k", s("DropTemps")));
                f.push(("e", self.expr(x)));
            }
            hir::ExprKind::Let(l) => {
                f.push(("k", s("LetExpr")));
                f.push(("pat", self.pat(l.pat)));
                f.push(("init", self.expr(l.init)));
            }
            hir::ExprKind::If(c, t, el) => {
                f.push(("k", s("If")));
                f.push(("cond", self.expr(c)));
                f.push(("then", self.expr(t)));
                if let Some(x) = el {
                    f.push(("else", self.expr(x)));
                }
            }
            hir::ExprKind::Loop(b, _, src, _) => {
                f.push(("k", s("Loop")));
                f.push(("src", s(format!("{:?}", src))));
                f.push(("body", self.block(b)));
            }
            hir::ExprKind::Match(scrut, arms, src) => {
                f.push(("k", s("Match")));
                f.push(("src", s(format!("{:?}", src))));
                f.push(("scrut", self.expr(scrut)));
                let arms_j: Vec<J> = arms
                    .iter()
                    .map(|a| {
                        let mut af = vec![("pat", self.pat(a.pat))];
                        if let Some(g) = a.guard {
                            af.push(("guard", self.expr(g)));
                        }
                        af.push(("body", self.expr(a.body)));
                        af.push(("sp", self.d.span(a.span)));
                        J::obj(af)
                    })
                    .collect();
                f.push(("arms", J::Arr(arms_j)));
            }
            hir::ExprKind::Closure(c) => {
                f.push(("k", s("Closure")));
                f.push(("def", s(self.d.path(c.def_id.to_def_id()))));
                f.push(("move", J::Bool(matches!(c.capture_clause, hir::CaptureBy::Value { .. }))));
                let body = self.d.tcx.hir_body(c.body);
                f.push(("params", J::Arr(body.params.iter().map(|p| self.pat(p.pat)).collect())));
                f.push(("body", self.expr(body.value)));
            }
            hir::ExprKind::Block(b, _) => {
                return {
                    let mut j = self.block(b);
                    if let J::Obj(ref mut v) = j {
                        v.push(("ty", s(self.d.tystr(self.typeck.expr_ty(e)))));
                    }
                    j
                };
            }
            hir::ExprKind::Assign(l, r, _) => {
                f.push(("k", s("Assign")));
                f.push(("l", self.expr(l)));
                f.push(("r", self.expr(r)));
            }
            hir::ExprKind::AssignOp(op, l, r) => {
                f.push(("k", s("AssignOp")));
                f.push(("op", s(format!("{:?}", op.node))));
                f.push(("l", self.expr(l)));
                f.push(("r", self.expr(r)));
            }
            hir::ExprKind::Field(x, ident) => {
                f.push(("k", s("Field")));
                f.push(("field", s(ident.to_string())));
                f.push(("base_ty", s(self.d.tystr(self.typeck.expr_ty_adjusted(x)))));
                f.push(("e", self.expr(x)));
            }
            hir::ExprKind::Index(x, i, _) => {
                f.push(("k", s("Index")));
                if let Some(did) = self.typeck.type_dependent_def_id(e.hir_id) {
                    f.push(("callee", s(self.d.path(did))));
                }
                f.push(("base_ty", s(self.d.tystr(self.typeck.expr_ty_adjusted(x)))));
                f.push(("e", self.expr(x)));
                f.push(("idx", self.expr(i)));
            }
            hir::ExprKind::Path(qp) => {
                f.push(("k", s("Path")));
                f.extend(self.qpath(qp, e.hir_id));
            }
            hir::ExprKind::AddrOf(_, m, x) => {
                f.push(("k", s("AddrOf")));
                f.push(("mut", J::Bool(m.is_mut())));
                f.push(("e", self.expr(x)));
            }
            hir::ExprKind::Break(_, x) => {
                f.push(("k", s("Break")));
                if let Some(x) = x {
                    f.push(("e", self.expr(x)));
                }
            }
            hir::ExprKind::Continue(_) => f.push(("k", s("Continue"))),
            hir::ExprKind::Ret(x) => {
                f.push(("k", s("Ret")));
                if let Some(x) = x {
                    f.push(("e", self.expr(x)));
                }
            }
            hir::ExprKind::Struct(qp, fields, tail) => {
                f.push(("k", s("Struct")));
                f.extend(self.qpath(qp, e.hir_id));
                let fs: Vec<J> = fields
                    .iter()
                    .map(|ef| J::obj(vec![("field", s(ef.ident.to_string())), ("e", self.expr(ef.expr))]))
                    .collect();
                f.push(("fields", J::Arr(fs)));
                if let hir::StructTailExpr::Base(b) = tail {
                    f.push(("base", self.expr(b)));
                }
            }
            hir::ExprKind::Repeat(x, _) => {
                f.push(("k", s("Repeat")));
                f.push(("e", self.expr(x)));
            }
            other => {
                f.push(("k", s("Other")));
                let mut d = format!("{:?}", std::mem::discriminant(other));
                d.truncate(40);
                f.push(("str", s(d)));
            }
        }
        f.push(("ty", s(self.d.tystr(self.typeck.expr_ty(e)))));
        // adjustments: record overloaded derefs / borrows count only when present
        let adj = self.typeck.expr_adjustments(e);
        if !adj.is_empty() {
            let a: Vec<J> = adj
                .iter()
                .map(|a| {
                    let mut k = format!("{:?}", a.kind);
                    k.truncate(40);
                    s(k)
                })
                .collect();
            f.push(("adj", J::Arr(a)));
            f.push(("ty_adj", s(self.d.tystr(self.typeck.expr_ty_adjusted(e)))));
        }
        f.push(("sp", self.d.span(e.span)));
        J::obj(f)
    }

    fn push_resolved(
        &self,
        f: &mut Vec<(&'static str, J)>,
        did: DefId,
        args: ty::GenericArgsRef<'tcx>,
        _hid: hir::HirId,
    ) {
        let tcx = self.d.tcx;
        let owner = self.typeck.hir_owner.def_id.to_def_id();
        let env = ty::TypingEnv::post_analysis(tcx, owner);
        // only trait methods need resolving
        if tcx.trait_of_assoc(did).is_some() && tcx.generics_of(did).count() == args.len() {
            if let Ok(Some(inst)) = ty::Instance::try_resolve(tcx, env, did, args) {
                let rd = inst.def_id();
                if rd != did {
                    f.push(("resolved", s(self.d.path(rd))));
                }
                if let ty::InstanceKind::Virtual(..) = inst.def {
                    f.push(("virtual", J::Bool(true)));
                }
            }
            if let Some(first) = args.types().next() {
                f.push(("trait_self", s(self.d.tystr(first))));
            }
        }
    }
}

fn main() {
    let mut args: Vec<String> = std::env::args().collect();
    // RUSTC_WORKSPACE_WRAPPER: argv[1] is the real rustc path
    if args.len() > 1 && (args[1].ends_with("rustc") || args[1].contains("/rustc")) {
        args.remove(1);
    }
    rustc_driver::run_compiler(&args, &mut Cb);
}
