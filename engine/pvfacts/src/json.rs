// Minimal JSON value + writer (no external crates).
pub enum J {
    Null,
    Bool(bool),
    Num(i64),
    Str(String),
    Arr(Vec<J>),
    Obj(Vec<(&'static str, J)>),
}

impl J {
    pub fn obj(v: Vec<(&'static str, J)>) -> J {
        J::Obj(v)
    }

    pub fn write(&self, out: &mut String) {
        match self {
            J::Null => out.push_str("null"),
            J::Bool(b) => out.push_str(if *b { "true" } else { "false" }),
            J::Num(n) => out.push_str(&n.to_string()),
            J::Str(s) => write_str(s, out),
            J::Arr(a) => {
                out.push('[');
                for (i, x) in a.iter().enumerate() {
                    if i > 0 {
                        out.push(',');
                    }
                    x.write(out);
                }
                out.push(']');
            }
            J::Obj(o) => {
                out.push('{');
                for (i, (k, v)) in o.iter().enumerate() {
                    if i > 0 {
                        out.push(',');
                    }
                    write_str(k, out);
                    out.push(':');
                    v.write(out);
                }
                out.push('}');
            }
        }
    }
}

fn write_str(s: &str, out: &mut String) {
    out.push('"');
    for c in s.chars() {
        match c {
            '"' => out.push_str("\\\""),
            '\\' => out.push_str("\\\\"),
            '\n' => out.push_str("\\n"),
            '\r' => out.push_str("\\r"),
            '\t' => out.push_str("\\t"),
            c if (c as u32) < 0x20 => out.push_str(&format!("\\u{:04x}", c as u32)),
            c => out.push(c),
        }
    }
    out.push('"');
}
