// pvtmpl: extracts every `quote!{..}` / `quote!(..)` / `parse_quote!` template of the macro crate as a
// token tree (JSON), with its context: enclosing impl/fn, enclosing match-arm patterns, and the
// `let` bindings of the enclosing function (name -> method-call chain of the initialiser).
// Nothing is expanded or executed.
use proc_macro2::{Delimiter, TokenStream, TokenTree};
use std::fmt::Write as _;
use syn::visit::Visit;

fn esc(s: &str) -> String {
    let mut o = String::from("\"");
    for c in s.chars() {
        match c {
            '"' => o.push_str("\\\""),
            '\\' => o.push_str("\\\\"),
            '\n' => o.push_str("\\n"),
            '\t' => o.push_str("\\t"),
            '\r' => o.push_str("\\r"),
            c if (c as u32) < 0x20 => {
                let _ = write!(o, "\\u{:04x}", c as u32);
            }
            c => o.push(c),
        }
    }
    o.push('"');
    o
}

fn tokens_json(ts: TokenStream, out: &mut String) {
    out.push('[');
    let mut first = true;
    for tt in ts {
        if !first {
            out.push(',');
        }
        first = false;
        match tt {
            TokenTree::Group(g) => {
                let d = match g.delimiter() {
                    Delimiter::Parenthesis => "(",
                    Delimiter::Brace => "{",
                    Delimiter::Bracket => "[",
                    Delimiter::None => "",
                };
                let _ = write!(out, "{{\"g\":{},\"line\":{},\"t\":", esc(d), g.span().start().line);
                tokens_json(g.stream(), out);
                out.push('}');
            }
            TokenTree::Ident(i) => {
                let _ = write!(out, "{{\"i\":{}}}", esc(&i.to_string()));
            }
            TokenTree::Punct(p) => {
                let _ = write!(
                    out,
                    "{{\"p\":{},\"j\":{}}}",
                    esc(&p.as_char().to_string()),
                    if p.spacing() == proc_macro2::Spacing::Joint { "true" } else { "false" }
                );
            }
            TokenTree::Literal(l) => {
                let _ = write!(out, "{{\"l\":{}}}", esc(&l.to_string()));
            }
        }
    }
    out.push(']');
}

struct Ctx {
    owner: String,      // impl ToTokens for X  /  fn name
    fn_name: String,
    arms: Vec<String>,  // enclosing match arm patterns, outermost first
    scruts: Vec<String>, // scrutinee of the match each enclosing arm belongs to
    guards: Vec<String>, // guard of each enclosing arm ("" if none)
    conds: Vec<(String, bool)>, // enclosing `if cond` with the branch taken
    lets: Vec<(String, Vec<String>, String, String)>, // (name, method chain, text, type annotation)
    loops: Vec<String>, // enclosing `for pat in expr`
    out: Vec<String>,
    delegations: Vec<String>,
}

fn closure_field_path(c: &syn::ExprClosure) -> Option<String> {
    // |x| &x.name  /  |x| x.name.clone()  -> ".name"
    let param = match c.inputs.first() {
        Some(syn::Pat::Ident(pi)) => pi.ident.to_string(),
        Some(syn::Pat::Type(pt)) => match &*pt.pat {
            syn::Pat::Ident(pi) => pi.ident.to_string(),
            _ => return None,
        },
        _ => return None,
    };
    fn go(e: &syn::Expr, param: &str, acc: &mut Vec<String>) -> bool {
        match e {
            syn::Expr::Reference(r) => go(&r.expr, param, acc),
            syn::Expr::Paren(p) => go(&p.expr, param, acc),
            syn::Expr::Field(f) => {
                if !go(&f.base, param, acc) {
                    return false;
                }
                match &f.member {
                    syn::Member::Named(n) => acc.push(n.to_string()),
                    syn::Member::Unnamed(i) => acc.push(i.index.to_string()),
                }
                true
            }
            syn::Expr::MethodCall(m) if m.method == "clone" && m.args.is_empty() => go(&m.receiver, param, acc),
            syn::Expr::Path(p) => p.path.is_ident(param),
            _ => false,
        }
    }
    let mut acc = vec![];
    if go(&c.body, &param, &mut acc) {
        Some(acc.iter().map(|x| format!(".{}", x)).collect::<Vec<_>>().join(""))
    } else {
        None
    }
}

fn method_chain(e: &syn::Expr, acc: &mut Vec<String>) {
    match e {
        syn::Expr::MethodCall(m) => {
            method_chain(&m.receiver, acc);
            let mut name = m.method.to_string();
            if let Some(syn::Expr::Closure(c)) = m.args.first() {
                match closure_field_path(c) {
                    Some(p) => name = format!("{}({})", name, p),
                    None => name = format!("{}(?)", name),
                }
            } else if !m.args.is_empty() {
                let a = &m.args;
                name = format!("{}[{}]", name, quote::quote!(#a).to_string());
            }
            acc.push(name);
        }
        syn::Expr::Call(c) => {
            if let syn::Expr::Path(p) = &*c.func {
                acc.push(p.path.segments.iter().map(|s| s.ident.to_string()).collect::<Vec<_>>().join("::"));
            }
            for a in &c.args {
                method_chain(a, acc);
            }
        }
        syn::Expr::Field(f) => {
            method_chain(&f.base, acc);
            if let syn::Member::Named(n) = &f.member {
                acc.push(format!(".{}", n));
            }
        }
        syn::Expr::Path(p) => acc.push(p.path.segments.iter().map(|s| s.ident.to_string()).collect::<Vec<_>>().join("::")),
        syn::Expr::Reference(r) => method_chain(&r.expr, acc),
        syn::Expr::Paren(p) => method_chain(&p.expr, acc),
        syn::Expr::Try(t) => method_chain(&t.expr, acc),
        _ => {}
    }
}

impl<'ast> Visit<'ast> for Ctx {
    fn visit_item_impl(&mut self, i: &'ast syn::ItemImpl) {
        let prev = self.owner.clone();
        let ty = quote::quote!(#i.self_ty).to_string();
        let self_ty = { let t = &i.self_ty; quote::quote!(#t).to_string() };
        let tr = i.trait_.as_ref().map(|(_, p, _)| quote::quote!(#p).to_string()).unwrap_or_default();
        let _ = ty;
        self.owner = format!("impl {} for {}", tr, self_ty);
        syn::visit::visit_item_impl(self, i);
        self.owner = prev;
    }
    fn visit_impl_item_fn(&mut self, f: &'ast syn::ImplItemFn) {
        let prev = (self.fn_name.clone(), std::mem::take(&mut self.lets));
        self.fn_name = f.sig.ident.to_string();
        syn::visit::visit_impl_item_fn(self, f);
        self.fn_name = prev.0;
        self.lets = prev.1;
    }
    fn visit_item_fn(&mut self, f: &'ast syn::ItemFn) {
        let prev = (self.fn_name.clone(), self.owner.clone(), std::mem::take(&mut self.lets));
        self.fn_name = f.sig.ident.to_string();
        self.owner = format!("fn {}", f.sig.ident);
        syn::visit::visit_item_fn(self, f);
        self.fn_name = prev.0;
        self.owner = prev.1;
        self.lets = prev.2;
    }
    fn visit_expr_match(&mut self, m: &'ast syn::ExprMatch) {
        let sc = &m.expr;
        let sc_text = quote::quote!(#sc).to_string();
        self.visit_expr(&m.expr);
        for a in &m.arms {
            let p = &a.pat;
            self.arms.push(quote::quote!(#p).to_string());
            self.scruts.push(sc_text.clone());
            self.guards.push(match &a.guard {
                Some((_, g)) => quote::quote!(#g).to_string(),
                None => String::new(),
            });
            if let Some((_, g)) = &a.guard {
                self.visit_expr(g);
            }
            self.visit_expr(&a.body);
            self.arms.pop();
            self.scruts.pop();
            self.guards.pop();
        }
    }
    fn visit_expr_if(&mut self, i: &'ast syn::ExprIf) {
        let c = &i.cond;
        let c_text = quote::quote!(#c).to_string();
        self.visit_expr(&i.cond);
        self.conds.push((c_text.clone(), true));
        self.visit_block(&i.then_branch);
        self.conds.pop();
        if let Some((_, e)) = &i.else_branch {
            self.conds.push((c_text, false));
            self.visit_expr(e);
            self.conds.pop();
        }
    }
    fn visit_expr_method_call(&mut self, m: &'ast syn::ExprMethodCall) {
        if m.method == "to_tokens" && self.fn_name == "to_tokens" {
            let r = &m.receiver;
            let mut s = String::new();
            let _ = write!(
                s,
                "{{\"owner\":{},\"fn\":{},\"line\":{},\"arms\":[{}],\"scruts\":[{}],\"guards\":[{}],\"conds\":[{}],\"recv\":{}}}",
                esc(&self.owner),
                esc(&self.fn_name),
                m.method.span().start().line,
                self.arms.iter().map(|a| esc(a)).collect::<Vec<_>>().join(","),
                self.scruts.iter().map(|a| esc(a)).collect::<Vec<_>>().join(","),
                self.guards.iter().map(|a| esc(a)).collect::<Vec<_>>().join(","),
                self.conds.iter().map(|(c, b)| format!("[{},{}]", esc(c), b)).collect::<Vec<_>>().join(","),
                esc(&quote::quote!(#r).to_string())
            );
            self.delegations.push(s);
        }
        syn::visit::visit_expr_method_call(self, m);
    }
    fn visit_block(&mut self, b: &'ast syn::Block) {
        // lexical scoping of `let`s: names bound inside a block are not visible after it
        let n = self.lets.len();
        syn::visit::visit_block(self, b);
        self.lets.truncate(n);
    }
    fn visit_expr_for_loop(&mut self, f: &'ast syn::ExprForLoop) {
        let (p, e) = (&f.pat, &f.expr);
        self.loops.push(format!("{} in {}", quote::quote!(#p), quote::quote!(#e)));
        syn::visit::visit_expr_for_loop(self, f);
        self.loops.pop();
    }
    fn visit_local(&mut self, l: &'ast syn::Local) {
        if let Some(init) = &l.init {
            let p = &l.pat;
            let mut name = quote::quote!(#p).to_string();
            let mut ty = String::new();
            if let syn::Pat::Type(pt) = &l.pat {
                let pp = &pt.pat;
                name = quote::quote!(#pp).to_string();
                let t = &pt.ty;
                ty = quote::quote!(#t).to_string();
            }
            let mut chain = vec![];
            method_chain(&init.expr, &mut chain);
            let e = &init.expr;
            let mut text = quote::quote!(#e).to_string();
            text.truncate(400);
            let is_mut = name.starts_with("mut ");
            if is_mut {
                ty = format!("mut {}", ty);
            }
            self.lets.push((name.replace("mut ", ""), chain, text, ty));
        }
        syn::visit::visit_local(self, l);
    }
    fn visit_macro(&mut self, m: &'ast syn::Macro) {
        let name = m.path.segments.last().map(|s| s.ident.to_string()).unwrap_or_default();
        if name == "quote" || name == "parse_quote" {
            let mut s = String::new();
            let _ = write!(
                s,
                "{{\"macro\":{},\"owner\":{},\"fn\":{},\"line\":{},\"arms\":[{}],\"scruts\":[{}],\"guards\":[{}],\"conds\":[{}],\"loops\":[{}],\"lets\":[{}],\"tokens\":",
                esc(&name),
                esc(&self.owner),
                esc(&self.fn_name),
                m.path.segments.last().unwrap().ident.span().start().line,
                self.arms.iter().map(|a| esc(a)).collect::<Vec<_>>().join(","),
                self.scruts.iter().map(|a| esc(a)).collect::<Vec<_>>().join(","),
                self.guards.iter().map(|a| esc(a)).collect::<Vec<_>>().join(","),
                self.conds.iter().map(|(c, b)| format!("[{},{}]", esc(c), b)).collect::<Vec<_>>().join(","),
                self.loops.iter().map(|a| esc(a)).collect::<Vec<_>>().join(","),
                self.lets
                    .iter()
                    .map(|(n, c, t, ty)| format!("{{\"name\":{},\"chain\":[{}],\"text\":{},\"ty\":{}}}", esc(n), c.iter().map(|x| esc(x)).collect::<Vec<_>>().join(","), esc(t), esc(ty)))
                    .collect::<Vec<_>>()
                    .join(",")
            );
            tokens_json(m.tokens.clone(), &mut s);
            s.push('}');
            self.out.push(s);
        }
        syn::visit::visit_macro(self, m);
    }
}

fn main() {
    let args: Vec<String> = std::env::args().collect();
    let src = std::fs::read_to_string(&args[1]).expect("read source");
    let file = syn::parse_file(&src).expect("parse");
    let mut c = Ctx { owner: String::new(), fn_name: String::new(), arms: vec![], scruts: vec![], guards: vec![], conds: vec![], lets: vec![], loops: vec![], out: vec![], delegations: vec![] };
    c.visit_file(&file);
    // enum variants (for emitter-agreement rules)
    let mut enums = vec![];
    for item in &file.items {
        if let syn::Item::Enum(e) = item {
            let vs: Vec<String> = e.variants.iter().map(|v| esc(&v.ident.to_string())).collect();
            let ps: Vec<String> = e
                .variants
                .iter()
                .map(|v| {
                    let fs: Vec<String> = v
                        .fields
                        .iter()
                        .map(|f| {
                            let t = &f.ty;
                            format!("[{},{}]", esc(&f.ident.as_ref().map(|i| i.to_string()).unwrap_or_default()), esc(&quote::quote!(#t).to_string()))
                        })
                        .collect();
                    format!("[{}]", fs.join(","))
                })
                .collect();
            enums.push(format!("{{\"name\":{},\"variants\":[{}],\"payloads\":[{}]}}", esc(&e.ident.to_string()), vs.join(","), ps.join(",")));
        }
    }
    let mut structs = vec![];
    for item in &file.items {
        if let syn::Item::Struct(st) = item {
            let fs: Vec<String> = st
                .fields
                .iter()
                .enumerate()
                .map(|(n, f)| {
                    let t = &f.ty;
                    format!("[{},{}]", esc(&f.ident.as_ref().map(|i| i.to_string()).unwrap_or(n.to_string())), esc(&quote::quote!(#t).to_string()))
                })
                .collect();
            structs.push(format!("{{\"name\":{},\"fields\":[{}]}}", esc(&st.ident.to_string()), fs.join(",")));
        }
    }
    let out = format!(
        "{{\"file\":{},\"templates\":[{}],\"delegations\":[{}],\"enums\":[{}],\"structs\":[{}]}}",
        esc(&args[1]),
        c.out.join(","),
        c.delegations.join(","),
        enums.join(","),
        structs.join(",")
    );
    std::fs::write(&args[2], out).expect("write");
}
