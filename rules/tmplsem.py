"""Template semantics (K12): canonical form of the macro crate's quote! templates and a matcher
against expected shapes written in the same surface syntax.

Nothing is expanded or executed.  A template is the token tree of one `quote!{..}` invocation as
extracted by engine/pvtmpl; here it is parsed (rules/tmpl.py), its interpolations `#x` are resolved
to where `x` comes from (a field of `self` through an adaptor chain, the payload of the enclosing
match arm, or a local built by other code), and wrappers that do not change what a goal or term
denotes (`GoalCast::cast_into`, `Upcast::to_super/into_super`, `Downcast::into_sub`, `Clone::clone`,
`Into::into`, `Box::new`, `&`, `.clone()`) are removed.

Canonical nodes (tuples):
  ('interp', origin)   origin: 'self.body' | 'Clause::Eq#0' | 'TreeTerm::ProperList#items' | 'local:patterns'
  ('rep', [nodes], sep)
  ('path', 'a::b')  ('call', callee, [args])  ('macro', name, [args])  ('array', [..])  ('tuple', [..])
  ('lit', text)  ('closure', move, [params], body)  ('block', [stmts], tail)
     stmt: ('let', [names], init) | ('expr', node) | ('item', kw)
  ('struct', path, [(field, node)])  ('method', recv, name, [args])  ('field', recv, name)  ('binary', l, text)
"""
import re

import tmpl

IDENTITY_CALLS = (
    "GoalCast::cast_into",
    "Upcast::to_super",
    "Upcast::into_super",
    "Downcast::into_sub",
    "Clone::clone",
    "Into::into",
    "Box::new",
    "Rc::new",
)

# adaptors that map a sequence to the same sequence, element by element, in the same order
ONE_TO_ONE = {"iter", "iter_mut", "into_iter", "collect", "cloned", "copied", "as_ref", "as_mut", "unwrap", "clone", "to_vec", "to_owned", "borrow", "deref"}


def path_endswith(actual, suffix):
    a = [s for s in actual.split("::") if s]
    b = [s for s in suffix.split("::") if s]
    return len(b) <= len(a) and a[-len(b):] == b


def _is_identity(callee):
    if callee[0] != "path":
        return False
    return any(path_endswith(callee[1], s) for s in IDENTITY_CALLS)


# ----------------------------------------------------------------------
# arm patterns (text as printed by quote: tokens separated by blanks)
def parse_arm_pattern(text):
    """-> nested ('ctor', path, [(key, sub)]) | ('bind', name) | ('wild',) | ('other', text)"""
    toks = re.findall(r"::|=>|\.\.|[A-Za-z_][A-Za-z0-9_]*|\d+|\S", text)
    pos = [0]

    def peek():
        return toks[pos[0]] if pos[0] < len(toks) else None

    def eat():
        t = peek()
        pos[0] += 1
        return t

    def pat():
        t = peek()
        if t is None:
            return ("other", "")
        while t in ("ref", "mut", "&"):
            eat()
            t = peek()
        if t == "_":
            eat()
            return ("wild",)
        if re.fullmatch(r"[A-Za-z_][A-Za-z0-9_]*", t or ""):
            segs = [eat()]
            while peek() == "::":
                eat()
                segs.append(eat())
            if peek() == "(":
                eat()
                subs = []
                k = 0
                while peek() not in (")", None):
                    subs.append((k, pat()))
                    k += 1
                    if peek() == ",":
                        eat()
                eat()
                return ("ctor", "::".join(segs), subs)
            if peek() == "{":
                eat()
                subs = []
                while peek() not in ("}", None):
                    name = eat()
                    while name in ("ref", "mut"):
                        name = eat()
                    if peek() == ":":
                        eat()
                        subs.append((name, pat()))
                    else:
                        subs.append((name, ("bind", name)))
                    if peek() == ",":
                        eat()
                eat()
                return ("ctor", "::".join(segs), subs)
            if len(segs) == 1 and segs[0][0].islower():
                return ("bind", segs[0])
            return ("ctor", "::".join(segs), [])
        eat()
        return ("other", t)

    return pat()


def arm_bindings(text):
    """dict name -> origin string ('Type::Variant#key') for the names bound by an arm pattern."""
    out = {}

    def go(p, origin):
        if p[0] == "bind":
            out[p[1]] = origin or "scrutinee"
        elif p[0] == "ctor":
            for key, sub in p[2]:
                go(sub, "%s#%s" % (p[1], key))

    go(parse_arm_pattern(text), None)
    return out


def arm_ctor(text):
    p = parse_arm_pattern(text)
    if p[0] == "ctor":
        return p[1]
    if p[0] == "wild":
        return "_"
    if p[0] == "bind":
        return "_bind:" + p[1]
    return "?"


# ----------------------------------------------------------------------
class Origin:
    """Where an interpolated name comes from."""

    def __init__(self, text, adaptors=(), ty=""):
        self.text = text
        self.adaptors = list(adaptors)
        self.ty = ty

    def __repr__(self):
        return "%s%s" % (self.text, ("<" + ",".join(self.adaptors) + ">") if self.adaptors else "")


def resolve(name, t, upto=None):
    """Origin of interpolated local `name` in template record `t` (lets visible at the template,
    then arm bindings innermost first)."""
    lets = t.get("lets", [])
    if upto is None:
        upto = len(lets)
    for i in range(upto - 1, -1, -1):
        l = lets[i]
        if l["name"] != name:
            continue
        chain = l["chain"]
        if not chain:
            return Origin("local:" + name, [], l.get("ty", ""))
        root = chain[0]
        fields = []
        adaptors = []
        for c in chain[1:]:
            if c.startswith(".") and not adaptors:
                fields.append(c)
            else:
                m = re.fullmatch(r"map\((\.[A-Za-z0-9_.]+)\)", c)
                if m:
                    fields.append(m.group(1))
                    adaptors.append("map-field")
                else:
                    adaptors.append(c)
        if root == "self":
            return Origin("self" + "".join(fields), adaptors, l.get("ty", ""))
        if re.fullmatch(r"[a-z_][A-Za-z0-9_]*", root) and root != name or (root == name):
            base = resolve(root, t, upto=i)
            if base.ty.startswith("mut ") and fields:
                # a field of a mutable local may have been reassigned: do not look through it
                return Origin("local:" + root + "".join(fields), adaptors, l.get("ty", ""))
            if base.text.startswith("local:") and root == name:
                return Origin("local:" + name, adaptors, l.get("ty", ""))
            return Origin(base.text + "".join(fields), base.adaptors + adaptors, l.get("ty", "") or base.ty)
        return Origin("local:" + name, adaptors, l.get("ty", ""))
    for arm in reversed(t.get("arms", [])):
        b = arm_bindings(arm)
        if name in b:
            return Origin(b[name])
    return Origin("local:" + name)


# ----------------------------------------------------------------------
def canon(n, t, origins=None):
    """Canonical tree of parsed template node `n` of template record `t`."""
    if origins is None:
        origins = {}

    def interp(name):
        o = resolve(name, t) if t is not None else Origin(name)
        origins.setdefault(o.text, o)
        return ("interp", o.text)

    def go(x):
        if isinstance(x, list):
            return [go(y) for y in x]
        if not isinstance(x, tuple) or not x:
            return x
        k = x[0]
        if k == "interp":
            return interp(x[1])
        if k == "ref" or k == "deref":
            return go(x[1])
        if k == "call":
            callee = go(x[1])
            args = go(x[2])
            if _is_identity(callee) and len(args) == 1:
                return args[0]
            return ("call", callee, args)
        if k == "path":
            return ("path", "::".join(s for s in x[1].split("::") if s))
        if k == "macro":
            if x[1].split("::")[-1] == "vec":
                return ("array", go(x[2]))
            return ("macro", x[1].split("::")[-1], go(x[2]))
        if k == "method":
            if x[2] == "clone" and not x[3]:
                return go(x[1])
            return ("method", go(x[1]), x[2], go(x[3]))
        if k == "field":
            name = x[2]
            if name.startswith("#"):
                name = interp(name[1:])
            return ("field", go(x[1]), name)
        if k == "rep":
            return ("rep", [go(y) for y in x[1]], x[2])
        if k in ("array", "tuple"):
            return (k, go(x[1]))
        if k == "closure":
            params = []
            toks = x[2].replace("# ", "#").replace(",", " ").split()
            for p in toks:
                if p.startswith("#"):
                    params.append(interp(p[1:]))
                elif p not in ("mut", "ref"):
                    params.append(("path", p))
            return ("closure", x[1], params, go(x[3]))
        if k == "block":
            return ("block", [go(s) for s in x[1]], go(x[2]) if x[2] is not None else None)
        if k == "let":
            names = []
            for nm in x[2]:
                names.append(interp(nm[1:]) if nm.startswith("#") else ("path", nm))
            return ("let", names, go(x[4]) if x[4] is not None else None)
        if k == "expr":
            return ("expr", go(x[1]))
        if k == "item":
            return ("item", x[1], x[2])
        if k == "struct":
            return ("struct", go(x[1]), [(f, go(v)) for f, v in x[2]])
        if k == "try":
            return ("try", go(x[1]))
        if k == "binary":
            return ("binary", go(x[1]), x[2])
        return x

    r = go(n)
    # a block holding a single expression is that expression
    while isinstance(r, tuple) and r and r[0] == "block" and not r[1] and r[2] is not None:
        r = r[2]
    return r


# ----------------------------------------------------------------------
# expected shapes: same syntax, tokenised here
_TOK = re.compile(r'\s*(?:("(?:[^"\\]|\\.)*")|([A-Za-z_][A-Za-z0-9_]*)|(\d+)|(.))', re.S)
_OPEN = {"(": ")", "[": "]", "{": "}"}


def tokenize(s):
    pos = 0
    stack = [[]]
    closers = []
    s = s.strip()
    while pos < len(s):
        m = _TOK.match(s, pos)
        pos = m.end()
        if m.group(1):
            stack[-1].append({"l": m.group(1)})
        elif m.group(2):
            stack[-1].append({"i": m.group(2)})
        elif m.group(3):
            stack[-1].append({"l": m.group(3)})
        else:
            c = m.group(4)
            if c.isspace():
                continue
            if c in _OPEN:
                stack.append([])
                closers.append((c, _OPEN[c]))
            elif closers and c == closers[-1][1]:
                o, _ = closers.pop()
                inner = stack.pop()
                stack[-1].append({"g": o, "t": inner, "line": 0})
            else:
                stack[-1].append({"p": c, "j": False})
    assert len(stack) == 1, "unbalanced expected shape: %r" % s
    return stack[0]


def expected(s):
    """Parse an expected shape; interps stay as ('interp', name) to be mapped by the caller."""
    return canon(tmpl.parse(tokenize(s)), None)


def show(n):
    return tmpl.show(_unshow(n))


def _unshow(n):
    # canonical -> displayable by tmpl.show
    if isinstance(n, tuple) and n and n[0] == "field" and isinstance(n[2], tuple):
        return ("field", _unshow(n[1]), "#" + n[2][1])
    if isinstance(n, list):
        return [_unshow(x) for x in n]
    if not isinstance(n, tuple) or not n:
        return n
    k = n[0]
    if k == "closure":
        return ("closure", n[1], " ".join(_unshow_s(p) for p in n[2]), _unshow(n[3]))
    if k == "let":
        return ("let", " ".join(_unshow_s(p) for p in n[1]), [], "", _unshow(n[2]) if n[2] is not None else None)
    if k == "item":
        return ("item", n[1], [])
    if k == "closure" and False:
        return n
    return tuple(_unshow(x) for x in n)


def _unshow_s(p):
    return ("#" + p[1]) if p[0] == "interp" else p[1]


class Matcher:
    """match(expected, actual): expected paths are suffixes (or class names / `_`), expected interps
    are mapped through `names` (name -> origin text, or None to bind consistently)."""

    def __init__(self, names=None, classes=None):
        self.names = dict(names or {})
        self.classes = dict(classes or {})
        self.bound = {}
        self.why = ""

    def fail(self, msg):
        if not self.why:
            self.why = msg
        return False

    def match(self, e, a):
        if isinstance(e, list):
            if not isinstance(a, list) or len(e) != len(a):
                return self.fail("expected %d element(s) %s, found %d: %s" % (len(e), show(e)[:160], len(a) if isinstance(a, list) else -1, show(a)[:160]))
            return all(self.match(x, y) for x, y in zip(e, a))
        if e is None or a is None:
            return e is a or self.fail("expected %s, found %s" % (show(e), show(a)))
        if not isinstance(e, tuple):
            return e == a or self.fail("expected %r, found %r" % (e, a))
        k = e[0]
        if k == "path" and e[1] == "_":
            return True
        if not isinstance(a, tuple) or not a:
            return self.fail("expected %s, found %r" % (show(e), a))
        if k == "interp":
            if a[0] != "interp":
                return self.fail("expected interpolation #%s, found %s" % (e[1], show(a)[:120]))
            want = self.names.get(e[1], None)
            if want is None:
                if e[1] in self.bound:
                    return self.bound[e[1]] == a[1] or self.fail("#%s is %s here but %s elsewhere in the same template" % (e[1], a[1], self.bound[e[1]]))
                self.bound[e[1]] = a[1]
                return True
            wants = want if isinstance(want, (list, tuple, set)) else [want]
            return a[1] in wants or self.fail("expected interpolation of %s, found %s" % ("/".join(wants), a[1]))
        if k == "path":
            if a[0] != "path":
                return self.fail("expected path %s, found %s" % (e[1], show(a)[:120]))
            alts = self.classes.get(e[1], [e[1]])
            return any(path_endswith(a[1], s) for s in alts) or self.fail("expected %s, found %s" % (" | ".join(alts), a[1]))
        if a[0] != k:
            return self.fail("expected %s, found %s" % (show(e)[:160], show(a)[:160]))
        if k in ("call",):
            return self.match(e[1], a[1]) and self.match(e[2], a[2])
        if k == "macro":
            return (e[1] == a[1] or self.fail("expected %s!, found %s!" % (e[1], a[1]))) and self.match(e[2], a[2])
        if k in ("array", "tuple"):
            return self.match(e[1], a[1])
        if k == "rep":
            return self.match(e[1], a[1])
        if k == "lit":
            return e[1] == a[1] or self.fail("expected literal %s, found %s" % (e[1], a[1]))
        if k == "closure":
            return (e[1] == a[1] or self.fail("closure move-ness differs")) and self.match(e[2], a[2]) and self.match(e[3], a[3])
        if k == "block":
            es = [s for s in e[1] if s[0] != "item"]
            as_ = [s for s in a[1] if s[0] != "item"]
            return self.match(es, as_) and self.match(e[2], a[2])
        if k == "let":
            return self.match(e[1], a[1]) and self.match(e[2], a[2])
        if k == "expr":
            return self.match(e[1], a[1])
        if k == "struct":
            if not self.match(e[1], a[1]) or len(e[2]) != len(a[2]):
                return self.fail("struct literal differs: %s vs %s" % (show(e)[:120], show(a)[:120]))
            return all((ef == af or self.fail("field %s vs %s" % (ef, af))) and self.match(ev, av) for (ef, ev), (af, av) in zip(e[2], a[2]))
        if k == "method":
            return self.match(e[1], a[1]) and (e[2] == a[2] or self.fail("method %s vs %s" % (e[2], a[2]))) and self.match(e[3], a[3])
        if k == "field":
            return self.match(e[1], a[1]) and (e[2] == a[2] or (isinstance(e[2], tuple) and self.match(e[2], a[2])) or self.fail("field %s vs %s" % (e[2], a[2])))
        if k == "binary":
            return self.match(e[1], a[1]) and (e[2].replace(" ", "") == a[2].replace(" ", "") or self.fail("operator text differs"))
        return e == a or self.fail("expected %s, found %s" % (show(e)[:120], show(a)[:120]))


# ----------------------------------------------------------------------
class Alt:
    """One way an `impl ToTokens for X` emits tokens: a template or a delegation, with its context."""

    def __init__(self, kind, rec, sem):
        self.kind = kind  # 'template' | 'delegate'
        self.rec = rec
        self.sem = sem
        self.arms = rec.get("arms", [])
        self.guards = rec.get("guards", [])
        self.conds = rec.get("conds", [])
        self.line = rec["line"]
        self.site = "macros/src/lib.rs:%d" % rec["line"]
        self.origins = {}
        if kind == "template":
            self.tree = canon(sem.T.tree(rec), rec, self.origins)
        else:
            name = rec["recv"].replace(" ", "")
            if name.startswith("self."):
                self.target = Origin("self." + name[5:])
            else:
                self.target = resolve(name, rec)
            self.tree = ("interp", self.target.text)

    def ctor(self, depth=0):
        return arm_ctor(self.arms[depth]) if len(self.arms) > depth else None

    def __repr__(self):
        return "<%s %s arms=%s conds=%s>" % (self.kind, self.site, self.arms, self.conds)


class Sem:
    def __init__(self, data):
        self.data = data
        self.T = tmpl.Templates(data)
        self.enums = {e["name"]: e for e in data["enums"]}
        self.structs = {s["name"]: dict((f[0], f[1]) for f in s["fields"]) for s in data.get("structs", [])}
        self._alts = {}

    def alts(self, ty, fn="to_tokens"):
        """Alternatives of `impl ToTokens for ty` in source order."""
        key = (ty, fn)
        if key in self._alts:
            return self._alts[key]
        owner = "impl ToTokens for %s" % ty
        out = []
        for t in self.T.templates:
            if t["owner"] == owner and t["fn"] == fn and t["macro"] == "quote":
                out.append(Alt("template", t, self))
        for d in self.data.get("delegations", []):
            if d["owner"] == owner and d["fn"] == fn:
                recv = d["recv"].replace(" ", "")
                # `output.to_tokens(tokens)` emits the template bound to `output`
                if self._is_quote_local(owner, fn, recv, d["line"]):
                    continue
                out.append(Alt("delegate", dict(d, lets=self._lets_at(owner, fn, d["line"])), self))
        out.sort(key=lambda a: a.line)
        self._alts[key] = out
        return out

    def _lets_at(self, owner, fn, line):
        best = []
        for t in self.T.templates:
            if t["owner"] == owner and t["fn"] == fn and t["line"] <= line:
                best = t.get("lets", best)
        return best

    def _is_quote_local(self, owner, fn, name, line):
        for t in self.T.templates:
            if t["owner"] == owner and t["fn"] == fn:
                for l in t.get("lets", []):
                    if l["name"] == name and ("quote !" in l["text"] or l["text"].strip() == "" or l["text"].startswith("if ")):
                        return True
        # `let output; if .. { output = quote!{..} }`: declared without initialiser
        return name == "output"

    def fn_templates(self, fn_name, macro="quote"):
        return [t for t in self.T.templates if t["owner"] == "fn %s" % fn_name and t["macro"] == macro]

    def variants(self, enum):
        return list(self.enums[enum]["variants"])


# ----------------------------------------------------------------------
class GenFn:
    """A function generated by a template (inside `impl`/`mod` items): canonical body tree."""

    def __init__(self, rec, ctx, name, sig, body):
        self.rec = rec
        self.ctx = ctx
        self.name = name
        self.sig = tmpl.text(sig)
        self.header = ctx[-1] if ctx else ""
        self.trait, self.self_ty = tmpl.impl_header(self.header) if self.header.startswith("impl") else (None, "")
        self.origins = {}
        self.tree = canon(tmpl.Parser(body).block(), rec, self.origins)
        self.site = "macros/src/lib.rs:%d" % rec["line"]

    def reps(self):
        """All repetition groups in the body: list of (rep node, set of origins interpolated inside)."""
        out = []
        for n in tmpl.walk(self.tree):
            if isinstance(n, tuple) and n and n[0] == "rep":
                out.append((n, set(x[1] for x in tmpl.walk(n[1]) if isinstance(x, tuple) and x and x[0] == "interp")))
        return out

    def __repr__(self):
        return "<genfn %s::%s for %s>" % (self.trait, self.name, self.self_ty)


def generated_fns(rec):
    return [GenFn(rec, ctx, name, sig, body) for ctx, name, sig, body in tmpl.fns_in(rec["tokens"])]


def generated_structs(rec):
    """[(ctx, name_text, canonical field list tree, origins)]"""
    out = []
    for ctx, name, body, delim in tmpl.structs_in(rec["tokens"]):
        origins = {}
        tree = canon(tmpl.Parser(body).block(), rec, origins)
        out.append((ctx, name, tree, origins))
    return out
