"""Symbolic reading of typed HIR trees (K3 provenance engine).

`Evaluator(crate).fn_term(fn)` turns a function body into a nested-tuple term in
which locals bound once are replaced by what they were bound to, identity
wrappers (clone, as_ref, &, *, Box::new, Rc::new, ...) are removed, pattern-bound
names become projections of the scrutinee, and calls to small local wrapper
functions are replaced by the wrapper's own term (bounded inlining).  Nothing is
executed; the term is a description of the code's shape.

Term kinds (tuples, first element is the tag):
  ('param', i, name)            function parameter i
  ('cparam', closure_def, i)    closure parameter
  ('proj', base, ctor, k)       k-th payload (or named field) of constructor `ctor` of `base`
  ('item', iter)                an element drawn from iterator `iter` (for-loop variable)
  ('ctor', path, args)          enum-variant / tuple-struct construction
  ('struct', path, fields)      struct literal; fields = ((name, term), ...)
  ('call', path, args)          any other call (receiver first)
  ('field', base, name)
  ('lit', text) ('tuple', args) ('array', args) ('index', base, idx)
  ('closure', def, nparams, body)
  ('match', scrut, arms)        arms = ((pat, guard|None, body), ...)
  ('if', cond, then, else|None)
  ('seq', stmts, result)        stmts = (('let', pat, term) | ('semi', term), ...)
  ('for', iter, pat, body) ('while', cond, body) ('loop', body)
  ('binop', op, l, r) ('unop', op, x) ('assign', lhs, rhs) ('assignop', op, lhs, rhs)
  ('ret', x|None) ('break', x|None) ('continue',)
  ('try', x)                    `x?`
  ('var', id, name)             a local that is re-assigned (not followed)
  ('const', path) ('fnref', path) ('opaque', kind)
Patterns:
  ('pwild',) ('pbind', id, name, sub|None) ('pctor', path, subpats) ('pstruct', path, fields)
  ('ptuple', pats) ('plit', text) ('por', pats) ('prange', text) ('pslice', ...)
"""
from facts import norm

IDENTITY_CALLS = {
    "std::clone::Clone::clone",
    "std::convert::AsRef::as_ref",
    "std::convert::AsMut::as_mut",
    "std::borrow::Borrow::borrow",
    "std::borrow::BorrowMut::borrow_mut",
    "std::ops::Deref::deref",
    "std::ops::DerefMut::deref_mut",
    "std::boxed::Box::new",
    "std::rc::Rc::new",
    "std::borrow::ToOwned::to_owned",
    "std::rc::Rc::make_mut",
    "std::option::Option::as_ref",
    "std::option::Option::as_mut",
    "std::option::Option::cloned",
    "std::option::Option::copied",
    "std::iter::Iterator::cloned",
    "std::iter::Iterator::copied",
}


def suffix_match(path, suffix):
    if path is None:
        return False
    return path == suffix or path.endswith("::" + suffix) or path.endswith(suffix) and (
        len(path) == len(suffix) or not (path[-len(suffix) - 1].isalnum() or path[-len(suffix) - 1] == "_")
    )


# ---------------------------------------------------------------------------------------------------
# Normal-form mode.  ./check evaluates every rule twice: on the terms as written (CANON = False) and on
# their normal form (CANON = True); a rule instance is reported only if it fails both times.  The normal
# form removes the idiom choices a behaviour-preserving refactoring typically flips:
#   * `match x { Ok(v) => BODY(v), Err(e) => return Err(e) }`      ==>  BODY(x?)
#   * `if let P = x { T } else { E }`                              ==>  match x { P => T, _ => E }
#   * a call of a private helper with exactly one call site in the crate and no early return of its own
#                                                                  ==>  the helper's body (extract-function)
CANON = False
# which rewrites the normal-form pass applies (./check runs several single-idiom passes, see MODES there)
MODE = frozenset(["iflet2match", "try", "guards", "optry", "helpers"])
KNOWN_FNS = None  # function paths of the tree the tables were written for (props/known_fns.json)


def known_fns():
    global KNOWN_FNS
    if KNOWN_FNS is None:
        import json
        import os

        f = os.path.join(os.path.dirname(os.path.dirname(os.path.abspath(__file__))), "props", "known_fns.json")
        try:
            KNOWN_FNS = set(json.load(open(f)))
        except Exception:
            KNOWN_FNS = set()
    return KNOWN_FNS


def new_helper(crate, npath, fn):
    """A private function that did not exist in the tree the tables were written for (extract-function)."""
    return (
        str(fn.get("vis", "")).startswith("Restricted")
        and not fn.get("impl_trait")
        and "hir" in fn
        and not fn.get("in_test_mod")
        and not fn["span"].endswith("!")
        and npath not in known_fns()
    )


def helper_fns(crate):
    """Private functions all of whose call sites are in one single other function (MIR call census)."""
    h = getattr(crate, "_helper_fns", None)
    if h is not None:
        return h
    from collections import Counter

    calls = Counter()
    callers = {}
    for p, fn in crate.fns.items():
        mir = fn.get("mir")
        if not mir:
            continue
        for b in mir["blocks"]:
            t = b.get("term") or {}
            if t.get("k") == "call" and isinstance(t.get("callee"), str):
                c = norm(t["callee"])
                calls[c] += 1
                callers.setdefault(c, set()).add(fn["npath"])
    h = {}
    for p, fn in crate.fns.items():
        if "hir" not in fn or fn.get("in_test_mod") or not str(fn.get("vis", "")).startswith("Restricted"):
            continue
        if fn.get("impl_trait") or fn["span"].endswith("!"):
            continue
        cs = callers.get(p) or set()
        if len(cs) == 1 and cs != {p}:  # every call site is in one and the same function
            h[p] = next(iter(cs))
    crate._helper_fns = h
    return h


_FOLD_IDS = [0]


def canon(t):
    """Normal form of a term (see CANON)."""
    if not isinstance(t, tuple) or not t:
        return t
    if isinstance(t[0], str):
        t = (t[0],) + tuple(canon(x) for x in t[1:])
    else:
        return tuple(canon(x) for x in t)
    k = t[0]
    if k == "if" and isinstance(t[1], tuple) and t[1] and t[1][0] == "iflet" and "iflet2match" in MODE:
        P, X = t[1][1], t[1][2]
        els = t[3] if len(t) > 3 and t[3] is not None else ("tuple", ())
        return canon_match(("match", X, ((P, None, t[2]), (("pwild",), None, els))))
    if k == "call" and "fold2loop" in MODE and isinstance(t[1], str) and t[1].split("::")[-1] == "fold" and len(t[2]) == 3 and t[2][2][0] == "closure" and t[2][2][2] == 2:
        # it.fold(init, |acc, x| BODY)  ==>  { let mut acc = init; for x in it { acc = BODY; } acc }
        it, init, clo = t[2]
        import zlib

        fid = zlib.crc32(repr(t).encode()) % 9000  # the same fold written twice (let-substitution) gets the same loop
        acc = ("var", 990000 + fid, "acc")
        body = _subst(_subst(clo[3], ("cparam", clo[1], 0), acc), ("cparam", clo[1], 1), ("item", it))
        loop = ("for", it, ("pbind", 980000 + fid, "x", None), ("seq", (("semi", ("assign", acc, body)),), ("tuple", ())))
        return ("seq", (("let", ("pbind", acc[1], "acc", None), init), ("semi", loop)), acc)
    if k == "match":
        t = canon_match(t)
        if t[0] == "match" and "match2iflet" in MODE and len(t[2]) == 2:
            (p1, g1, b1), (p2, g2, b2) = t[2]
            if g1 is None and g2 is None and p1[0] == "pctor" and (p2[0] == "pwild" or (p2[0] == "pctor" and not p2[2])):
                e2 = _flat(b2)
                return ("if", ("iflet", p1, t[1]), b1, None if e2 == ("tuple", ()) else b2)
        return t
    return t


def _is_none(x):
    return isinstance(x, tuple) and x[:1] == ("ctor",) and x[1].endswith("::None") and not x[2]


def _strip_ret(t):
    """`{ ...; return v }` / `return v` -> (`{ ...; v }`, True); anything else -> (t, False)."""
    if t[0] == "ret":
        return (t[1] if len(t) > 1 else ("tuple", ())), True
    if t[0] == "seq":
        r, ok = _strip_ret(t[2])
        if ok:
            return ("seq", t[1], r), True
        if t[1] and t[1][-1][0] == "semi" and t[2] == ("tuple", ()):
            r, ok = _strip_ret(t[1][-1][1])
            if ok:
                return ("seq", t[1][:-1], r), True
    return t, False


def canon_result(t):
    """Rewrites that are only valid where the value of `t` is the function's return value:
       * guard clauses:  `if c { return a; } REST`            ==>  `if c { a } else { REST }`
       * `match x { Some(v) => BODY(v), None => None }`        ==>  BODY(x?)      (Option `?`)"""
    if not isinstance(t, tuple) or not t:
        return t
    if t[0] == "seq" and t[1] and "whilelet" in MODE:
        # `while let P = x { BODY } r`  ==>  `loop { match x { P => BODY[break := return r], _ => return r } }`
        last = t[1][-1]
        r = _flat(t[2])
        if last[0] == "semi" and last[1][0] == "while" and last[1][1][:1] == ("iflet",) and r[0] in ("var", "param", "lit", "field"):
            P, X = last[1][1][1], last[1][1][2]
            body = _subst(last[1][2], ("break", None), ("ret", r))
            lp = ("loop", ("match", X, ((P, None, body), (("pwild",), None, ("ret", r)))))
            return ("seq", t[1][:-1], lp) if t[1][:-1] else lp
    if t[0] == "seq" and len(t[1]) == 1 and "loop2any" in MODE and _flat(t[2]) == ("lit", "Bool(false)"):
        # `for x in it { if COND(x) { return true; } } false`  ==>  `it.any(|x| COND(x))`
        st = t[1][0]
        if st[0] == "semi" and st[1][0] == "for":
            it, body = st[1][1], st[1][3]
            b = body
            while b[0] == "seq" and all(x[0] == "let" for x in b[1]):
                b = b[2]
            if b[0] == "seq" and len(b[1]) == 1 and b[2] == ("tuple", ()) and b[1][0][0] == "semi":
                b = b[1][0][1]
            if b[0] == "if" and (len(b) < 4 or b[3] is None):
                inner, ok = _strip_ret(b[2])
                if ok and _flat(inner) == ("lit", "Bool(true)"):
                    name = "canon::any"
                    cond = _subst(b[1], ("item", it), ("cparam", name, 0))
                    return ("call", "std::iter::Iterator::any", (it, ("closure", name, 1, cond)))
    if t[0] == "seq":
        stmts, res = t[1], t[2]
        for i, st in enumerate(stmts):
            if "guards" in MODE and st[0] == "semi" and st[1][0] == "if" and (len(st[1]) < 4 or st[1][3] is None):
                body, ok = _strip_ret(st[1][2])
                if ok:
                    rest = canon_result(("seq", stmts[i + 1 :], res)) if (stmts[i + 1 :] or True) else res
                    new_if = ("if", st[1][1], body, rest)
                    return ("seq", stmts[:i], new_if) if stmts[:i] else new_if
        r2 = canon_result(res)
        if r2[0] == "seq" and not stmts:
            return r2
        return ("seq", stmts, r2)
    if t[0] == "if" and len(t) > 3 and t[3] is not None:
        return ("if", t[1], canon_result(t[2]), canon_result(t[3]))
    if t[0] == "ret" and "guards" in MODE:
        return canon_result(t[1]) if len(t) > 1 else ("tuple", ())
    if t[0] == "match":
        X, arms = t[1], t[2]
        if len(arms) == 2 and "optry" in MODE:
            so = [a for a in arms if a[0][0] == "pctor" and a[0][1].endswith("::Some") and a[1] is None]
            no = [a for a in arms if a not in so and a[1] is None and _is_none(_flat(a[2]))]
            if len(so) == 1 and len(no) == 1:
                okv = ("proj", X, so[0][0][1], 0)
                return canon_result(_subst(so[0][2], okv, ("try", X)))
        return ("match", X, tuple((p, g, canon_result(b)) for p, g, b in arms))
    return t


def try_expand(t, option):
    """`let v = x?; REST` / `lhs = x?; REST`  ==>  `match x { Ok(v) => { ...; REST }, Err(e) => return Err(e) }`
    (Some / None => None for an Option-returning function): the reverse of the `try` rewrite, at statement level
    of the function body."""
    if not (isinstance(t, tuple) and t and t[0] == "seq"):
        return t
    stmts, res = t[1], t[2]
    for i, st in enumerate(stmts):
        X = None
        if st[0] == "let" and isinstance(st[2], tuple) and st[2][:1] == ("try",):
            X = st[2][1]
            head = ()
        elif st[0] == "semi" and st[1][0] == "assign" and isinstance(st[1][2], tuple) and st[1][2][:1] == ("try",):
            X = st[1][2][1]
            head = None
        if X is None:
            continue
        okc, errc = ("std::prelude::v1::Some", "std::prelude::v1::None") if option else ("std::prelude::v1::Ok", "std::prelude::v1::Err")
        okv = ("proj", X, okc, 0)
        rest_stmts = tuple(_subst(x, ("try", X), okv) for x in ((st,) if head is None else ()) + tuple(stmts[i + 1 :]))
        rest = try_expand(("seq", rest_stmts, _subst(res, ("try", X), okv)), option)
        if option:
            bad = ("ctor", errc, ())
            arms = ((("pctor", okc, (("pbind", -1, "v", None),), None), None, rest), (("pctor", errc, (), None), None, bad))
        else:
            bad = ("ret", ("ctor", errc, (("proj", X, errc, 0),)))
            arms = ((("pctor", okc, (("pbind", -1, "v", None),), None), None, rest), (("pctor", errc, (("pbind", -2, "e", None),), None), None, bad))
        m = ("match", X, arms)
        return ("seq", tuple(stmts[:i]), m) if stmts[:i] else m
    return t


def unguard(t):
    """`if c { A } else { REST }` in result position  ==>  `if c { return A; } REST`  (reverse of `guards`)."""
    if not isinstance(t, tuple) or not t:
        return t
    if t[0] == "seq":
        r = unguard(t[2])
        if r[0] == "seq":
            return ("seq", tuple(t[1]) + tuple(r[1]), r[2])
        return ("seq", t[1], r)
    if t[0] == "if" and len(t) > 3 and t[3] is not None and not (isinstance(t[1], tuple) and t[1][:1] == ("iflet",)):
        rest = unguard(t[3])
        g = ("semi", ("if", t[1], ("seq", (("semi", ("ret", _flat(t[2]) if _flat(t[2])[0] != "seq" else t[2])),), ("tuple", ())), None))
        if rest[0] == "seq":
            return ("seq", (g,) + tuple(rest[1]), rest[2])
        return ("seq", (g,), rest)
    return t


def _flat(t):
    while isinstance(t, tuple) and t and t[0] == "seq" and not t[1]:
        t = t[2]
    return t


def _pat_shape(p):
    if isinstance(p, tuple):
        if p and p[0] == "pbind":
            return ("pbind", None, None, _pat_shape(p[3]) if len(p) > 3 else None)
        return tuple(_pat_shape(x) for x in p)
    return p


def canon_match(t):
    X, arms = t[1], t[2]
    if "guardarms" in MODE:
        # `P if g => A, P => B`  ==>  `P => if g { A } else { B }`
        out = []
        i = 0
        arms = list(arms)
        while i < len(arms):
            p, g, b = arms[i]
            if g is not None and i + 1 < len(arms) and arms[i + 1][1] is None and _pat_shape(arms[i + 1][0]) == _pat_shape(p):
                out.append((p, None, ("if", g, b, arms[i + 1][2])))
                i += 2
            else:
                out.append(arms[i])
                i += 1
        arms = tuple(out)
        t = ("match", X, arms)
    if len(arms) == 2 and "try" in MODE:
        ok = [a for a in arms if a[0][0] == "pctor" and a[0][1].endswith("::Ok") and a[1] is None]
        er = [a for a in arms if a[0][0] == "pctor" and a[0][1].endswith("::Err") and a[1] is None]
        if len(ok) == 1 and len(er) == 1:
            eb = er[0][2]
            while eb[0] == "seq" and not eb[1]:
                eb = eb[2]
            errv = ("proj", X, er[0][0][1], 0)
            if eb[0] == "ret" and eb[1][0] == "ctor" and eb[1][1].endswith("::Err") and eb[1][2] == (errv,):
                okv = ("proj", X, ok[0][0][1], 0)
                return _subst(ok[0][2], okv, ("try", X))
    return t


def _subst(t, a, b):
    if t == a:
        return b
    if isinstance(t, tuple):
        return tuple(_subst(x, a, b) for x in t)
    return t


class Evaluator:
    def __init__(self, crate, identity=None, inline=None, max_inline=4, keep_clone=False, extra_identity=(), named_lets=False):
        self.crate = crate
        self.identity = set(IDENTITY_CALLS if identity is None else identity) | set(extra_identity)
        if keep_clone:
            self.identity.discard("std::clone::Clone::clone")
        self.inline_pred = inline if inline is not None else default_inline
        if CANON:
            base = self.inline_pred
            helpers = helper_fns(crate)
            ev0 = self

            def pred(npath, fn, _base=base):
                if _base(npath, fn):
                    return True
                if "helpers" in MODE and new_helper(crate, npath, fn):
                    # only helpers without an early return of their own (`return`, `?`): their body can stand for the call
                    tt = ev0._helper_body_ok.get(npath)
                    if tt is None:
                        try:
                            saved = ev0.inline_pred
                            ev0.inline_pred = _base
                            body = ev0.fn_term(fn, depth=1)
                            ev0.inline_pred = saved
                            early = any(x[0] in ("ret", "try") for x in subterms(body))
                            out = str(fn.get("output") or "")
                            # a helper with early exits stands for its call only where the caller propagates them (`helper(..)?`):
                            # accepted when it returns a Result / Option, as those helpers do
                            tt = (not early) or ("Result" in out or "Option" in out)
                        except Exception:
                            tt = False
                        ev0._helper_body_ok[npath] = tt
                    return tt
                return False

            self._helper_body_ok = {}
            self.inline_pred = pred
        self.max_inline = max_inline
        self.named_lets = named_lets
        self._reassigned_cache = {}

    # ------------------------------------------------------------------
    def fn_term(self, fn, args=None, depth=0):
        """Term of the function body. `args`: terms for the parameters (inlining)."""
        env = {}
        reassigned = self._reassigned(fn)
        for i, p in enumerate(fn.get("params", [])):
            val = args[i] if args is not None and i < len(args) else ("param", i, _pname(p))
            self._bind(p, val, env, reassigned)
        ctx = {"fn": fn, "reassigned": reassigned, "depth": depth}
        t = self.ev(fn["hir"], env, ctx)
        if CANON and depth == 0:
            t = canon_result(canon(t))
            if "tryexpand" in MODE:
                t = try_expand(t, "Option" in str(fn.get("output") or ""))
            if "unguards" in MODE:
                t = unguard(t)
        return t

    def _reassigned(self, fn):
        k = fn["npath"]
        if k in self._reassigned_cache:
            return self._reassigned_cache[k]
        out = set()

        def walk(n):
            if isinstance(n, dict):
                if n.get("k") in ("Assign", "AssignOp"):
                    l = n["l"]
                    # strip derefs/fields: assignment to the local itself only
                    if l.get("k") == "Path" and l.get("res") == "local":
                        out.add(l["id"])
                for v in n.values():
                    walk(v)
            elif isinstance(n, list):
                for x in n:
                    walk(x)

        walk(fn.get("hir"))
        self._reassigned_cache[k] = out
        return out

    # ------------------------------------------------------------------
    def pat(self, p):
        k = p["k"]
        if k == "Wild":
            return ("pwild",)
        if k == "Binding":
            return ("pbind", p["id"], p["name"], self.pat(p["sub"]) if "sub" in p else None)
        if k == "TupleStruct":
            return ("pctor", norm(p.get("ctor_of") or p.get("path")), tuple(self.pat(x) for x in p["pats"]), p.get("dotdot"))
        if k == "Struct":
            return ("pstruct", norm(p.get("path")), tuple((f["field"], self.pat(f["pat"])) for f in p["fields"]))
        if k == "Tuple":
            return ("ptuple", tuple(self.pat(x) for x in p["pats"]))
        if k in ("Box", "Deref", "Ref"):
            return self.pat(p["pat"])
        if k == "Or":
            return ("por", tuple(self.pat(x) for x in p["pats"]))
        if k == "PathPat":
            if str(p.get("dk", "")).startswith("Ctor"):
                return ("pctor", norm(p.get("ctor_of") or p.get("path")), (), None)
            return ("plit", norm(p.get("path")) or p.get("txt", ""))
        if k == "Lit":
            return ("plit", p.get("str", ""))
        if k == "Range":
            return ("prange", p.get("str", ""))
        if k == "Slice":
            return ("pslice", tuple(self.pat(x) for x in p.get("before", [])), self.pat(p["mid"]) if "mid" in p else None, tuple(self.pat(x) for x in p.get("after", [])))
        if k == "Guard":
            return ("pguard", self.pat(p["pat"]))
        return ("pother", k)

    def _bind(self, p, val, env, reassigned):
        """Bind the names of HIR pattern `p` to projections of `val`."""
        k = p["k"]
        if k == "Binding":
            if p["id"] in reassigned:
                env[p["id"]] = ("var", p["id"], p["name"])
                env[("init", p["id"])] = val
            else:
                env[p["id"]] = val
            if "sub" in p:
                self._bind(p["sub"], val, env, reassigned)
        elif k == "TupleStruct":
            ctor = norm(p.get("ctor_of") or p.get("path"))
            dd = p.get("dotdot")
            n = len(p["pats"])
            for i, sp in enumerate(p["pats"]):
                idx = i
                if dd is not None and i >= dd:
                    idx = ("fromend", n - i)
                # constructor applied directly: take the operand
                if val[0] == "ctor" and val[1] == ctor and dd is None and i < len(val[2]):
                    self._bind(sp, val[2][i], env, reassigned)
                else:
                    self._bind(sp, ("proj", val, ctor, idx), env, reassigned)
        elif k == "Struct":
            ctor = norm(p.get("path"))
            for f in p["fields"]:
                self._bind(f["pat"], ("proj", val, ctor, f["field"]), env, reassigned)
        elif k == "Tuple":
            for i, sp in enumerate(p["pats"]):
                if val[0] == "tuple" and p.get("dotdot") is None and i < len(val[1]):
                    self._bind(sp, val[1][i], env, reassigned)
                else:
                    self._bind(sp, ("proj", val, "tuple", i), env, reassigned)
        elif k in ("Box", "Deref", "Ref"):
            self._bind(p["pat"], val, env, reassigned)
        elif k == "Or":
            # a name bound in every alternative denotes one of several projections: ('alt', (..))
            envs = []
            for alt in p["pats"]:
                e2 = {}
                self._bind(alt, val, e2, reassigned)
                envs.append(e2)
            keys = set()
            for e2 in envs:
                keys |= set(e2)
            for kk in keys:
                vals = []
                for e2 in envs:
                    if kk in e2 and e2[kk] not in vals:
                        vals.append(e2[kk])
                env[kk] = vals[0] if len(vals) == 1 else ("alt", tuple(vals))
        elif k == "Slice":
            for i, sp in enumerate(p.get("before", [])):
                self._bind(sp, ("proj", val, "slice", i), env, reassigned)
            if "mid" in p:
                self._bind(p["mid"], ("proj", val, "slice", "rest"), env, reassigned)
            for i, sp in enumerate(p.get("after", [])):
                self._bind(sp, ("proj", val, "slice", ("fromend", i)), env, reassigned)
        elif k == "Guard":
            self._bind(p["pat"], val, env, reassigned)

    # ------------------------------------------------------------------
    def ev(self, e, env, ctx):
        k = e.get("k")
        m = getattr(self, "ev_" + k, None)
        if m is None:
            return ("opaque", k)
        return m(e, env, ctx)

    def ev_Block(self, e, env, ctx):
        env = dict(env)
        stmts = []
        for st in e["stmts"]:
            sk = st["k"]
            if sk == "Let":
                init = self.ev(st["init"], env, ctx) if "init" in st else ("opaque", "uninit")
                if "els" in st:
                    els = self.ev_Block(st["els"], env, ctx)
                    init = ("letelse", init, els)
                bound = init
                if self.named_lets and st["pat"]["k"] == "Binding" and has_effect(init) and ctx["depth"] == 0:
                    # keep the identity of a value produced by a call: ('letv', id, name, init)
                    bound = ("letv", st["pat"]["id"], st["pat"]["name"], init)
                self._bind(st["pat"], bound, env, ctx["reassigned"])
                stmts.append(("let", self.pat(st["pat"]), init))
            elif sk in ("Expr", "Semi"):
                stmts.append(("semi", self.ev(st["e"], env, ctx)))
        res = self.ev(e["expr"], env, ctx) if "expr" in e else ("tuple", ())
        # a block that only binds names is transparent
        if all(s[0] == "let" and not has_effect(s[2]) for s in stmts):
            live = [s for s in stmts if s[0] == "let" and has_effect(s[2])]
            if not live:
                return res
        return ("seq", tuple(stmts), res)

    def ev_Path(self, e, env, ctx):
        r = e.get("res")
        if r == "local":
            if e["id"] in env:
                return env[e["id"]]
            return ("var", e["id"], e.get("txt"))
        if r == "def":
            dk = e.get("dk", "")
            if dk.startswith("Ctor"):
                return ("ctor", norm(e.get("ctor_of") or e["path"]), ())
            if dk in ("Fn", "AssocFn"):
                return ("fnref", norm(e["path"]))
            return ("const", norm(e["path"]))
        if r == "selfctor":
            return ("ctor", norm(e["path"]), ())
        return ("opaque", "path:" + str(e.get("txt")))

    def _call(self, callee, args, e, ctx, is_ctor=False):
        if is_ctor:
            return ("ctor", callee, tuple(args))
        # identity wrappers
        if callee in self.identity and args:
            return args[0]
        if args and callee.split("::")[-1] in ("copied", "cloned") and (callee.startswith("std::option::Option") or callee.startswith("std::iter::Iterator") or callee.startswith("core::")):
            return args[0]
        # bounded inlining of small local functions
        fn = self.crate.fns.get(callee)
        if fn is not None and "hir" in fn and "trait_default" not in fn and ctx["depth"] < self.max_inline and self.inline_pred(callee, fn):
            if fn["npath"] != ctx["fn"]["npath"]:
                return self.fn_term(fn, args=list(args), depth=ctx["depth"] + 1)
        return ("call", callee, tuple(args))

    def ev_Call(self, e, env, ctx):
        args = [self.ev(a, env, ctx) for a in e["args"]]
        if "callee" in e:
            ck = e.get("callee_kind", "")
            if ck.startswith("Ctor"):
                return self._call(norm(e.get("ctor_of") or e["callee"]), args, e, ctx, is_ctor=True)
            callee = norm(e.get("resolved") or e["callee"])
            if norm(e["callee"]) in self.identity and args:
                return args[0]
            return self._call(callee, args, e, ctx)
        f = self.ev(e["f"], env, ctx)
        if f[0] == "closure" and False:
            pass
        return ("callv", f, tuple(args))

    def ev_MethodCall(self, e, env, ctx):
        recv = self.ev(e["recv"], env, ctx)
        args = [recv] + [self.ev(a, env, ctx) for a in e["args"]]
        callee = norm(e.get("resolved") or e.get("callee") or ("?::" + e["method"]))
        if e["method"] in ("downcast_ref", "downcast_mut", "is") and e.get("gargs"):
            callee = callee + "::<" + norm(e["gargs"][-1]) + ">"
        # identity by unresolved trait name too
        if norm(e.get("callee")) in self.identity:
            return recv
        return self._call(callee, args, e, ctx)

    def ev_Use(self, e, env, ctx):
        return self.ev(e["e"], env, ctx)

    ev_DropTemps = ev_Use
    ev_Type = ev_Use

    def ev_Cast(self, e, env, ctx):
        inner = self.ev(e["e"], env, ctx)
        if e.get("ty") in ("i8", "i16", "i32", "i64", "i128", "isize", "u8", "u16", "u32", "u64", "u128", "usize", "f32", "f64", "bool", "char") or str(e.get("ty", "")).startswith("*"):
            return ("cast", inner, e.get("ty"))
        return inner  # unsizing / identity cast

    def ev_AddrOf(self, e, env, ctx):
        return self.ev(e["e"], env, ctx)

    def ev_Unary(self, e, env, ctx):
        x = self.ev(e["e"], env, ctx)
        if e["op"] == "Deref":
            return x
        return ("unop", e["op"], x)

    def ev_Binary(self, e, env, ctx):
        return ("binop", e["op"], self.ev(e["l"], env, ctx), self.ev(e["r"], env, ctx))

    def ev_Lit(self, e, env, ctx):
        return ("lit", e["v"])

    def ev_Tup(self, e, env, ctx):
        return ("tuple", tuple(self.ev(x, env, ctx) for x in e["elems"]))

    def ev_Array(self, e, env, ctx):
        return ("array", tuple(self.ev(x, env, ctx) for x in e["elems"]))

    def ev_Repeat(self, e, env, ctx):
        return ("repeat", self.ev(e["e"], env, ctx))

    def ev_Field(self, e, env, ctx):
        base = self.ev(e["e"], env, ctx)
        if base[0] == "struct":
            for n, v in base[2]:
                if n == e["field"]:
                    return v
        if base[0] == "tuple" and e["field"].isdigit() and int(e["field"]) < len(base[1]):
            return base[1][int(e["field"])]
        if base[0] == "ctor" and e["field"].isdigit() and int(e["field"]) < len(base[2]):
            return base[2][int(e["field"])]
        return ("field", base, e["field"])

    def ev_Index(self, e, env, ctx):
        return ("index", self.ev(e["e"], env, ctx), self.ev(e["idx"], env, ctx))

    def ev_Struct(self, e, env, ctx):
        fields = tuple((f["field"], self.ev(f["e"], env, ctx)) for f in e["fields"])
        base = self.ev(e["base"], env, ctx) if "base" in e else None
        path = norm(e.get("path"))
        if base is not None:
            return ("struct", path, fields, base)
        return ("struct", path, fields)

    def ev_Closure(self, e, env, ctx):
        env2 = dict(env)
        d = norm(e["def"])
        for i, p in enumerate(e["params"]):
            self._bind(p, ("cparam", d, i), env2, ctx["reassigned"])
        return ("closure", d, len(e["params"]), self.ev(e["body"], env2, ctx))

    def ev_If(self, e, env, ctx):
        cond_e = e["cond"]
        env2 = dict(env)
        cond = self._cond(cond_e, env2, ctx)
        then = self.ev(e["then"], env2, ctx)
        els = self.ev(e["else"], env, ctx) if "else" in e else None
        return ("if", cond, then, els)

    def _cond(self, c, env, ctx):
        """Condition; `if let` binds into env."""
        if c.get("k") == "DropTemps":
            return self._cond(c["e"], env, ctx)
        if c.get("k") == "LetExpr":
            init = self.ev(c["init"], env, ctx)
            self._bind(c["pat"], init, env, ctx["reassigned"])
            return ("iflet", self.pat(c["pat"]), init)
        if c.get("k") == "Binary" and c.get("op") == "And":
            l = self._cond(c["l"], env, ctx)
            r = self._cond(c["r"], env, ctx)
            return ("binop", "And", l, r)
        return self.ev(c, env, ctx)

    def ev_LetExpr(self, e, env, ctx):
        init = self.ev(e["init"], env, ctx)
        return ("iflet", self.pat(e["pat"]), init)

    def ev_Match(self, e, env, ctx):
        src = e.get("src", "")
        if src.startswith("TryDesugar"):
            # match Try::branch(x) { Continue(v) => v, Break(r) => return from_residual(r) }
            sc = e["scrut"]
            inner = sc["args"][0] if sc.get("k") == "Call" and sc.get("args") else sc
            return ("try", self.ev(inner, env, ctx))
        if src == "ForLoopDesugar":
            return self._for(e, env, ctx)
        scrut = self.ev(e["scrut"], env, ctx)
        arms = []
        for a in e["arms"]:
            env2 = dict(env)
            self._bind(a["pat"], scrut, env2, ctx["reassigned"])
            guard = self._cond(a["guard"], env2, ctx) if "guard" in a else None
            body = self.ev(a["body"], env2, ctx)
            arms.append((self.pat(a["pat"]), guard, body))
        return ("match", scrut, tuple(arms))

    def _for(self, e, env, ctx):
        sc = e["scrut"]
        it_e = sc["args"][0] if sc.get("k") == "Call" and sc.get("args") else sc
        it = self.ev(it_e, env, ctx)
        try:
            loop = e["arms"][0]["body"]
            while loop.get("k") in ("DropTemps", "Use"):
                loop = loop["e"]
            blk = loop["body"]
            inner = blk["stmts"][0]["e"] if blk["stmts"] else blk["expr"]
            while inner.get("k") in ("DropTemps", "Use"):
                inner = inner["e"]
            some_arm = None
            for a in inner["arms"]:
                ap = a["pat"]
                if ap["k"] == "TupleStruct" and ap["pats"]:
                    some_arm, pat = a, ap["pats"][0]
                elif ap["k"] == "Struct" and ap.get("fields"):
                    some_arm, pat = a, ap["fields"][0]["pat"]
            env2 = dict(env)
            self._bind(pat, ("item", it), env2, ctx["reassigned"])
            body = self.ev(some_arm["body"], env2, ctx)
            return ("for", it, self.pat(pat), body)
        except (KeyError, IndexError, TypeError):
            return ("opaque", "for")

    def ev_Loop(self, e, env, ctx):
        src = e.get("src", "")
        body = e["body"]
        if src == "While":
            try:
                iff = body["expr"]
                env2 = dict(env)
                cond = self._cond(iff["cond"], env2, ctx)
                return ("while", cond, self.ev(iff["then"], env2, ctx))
            except KeyError:
                pass
        return ("loop", self.ev_Block(body, env, ctx))

    def ev_Assign(self, e, env, ctx):
        return ("assign", self.ev(e["l"], env, ctx), self.ev(e["r"], env, ctx))

    def ev_AssignOp(self, e, env, ctx):
        return ("assignop", e["op"], self.ev(e["l"], env, ctx), self.ev(e["r"], env, ctx))

    def ev_Ret(self, e, env, ctx):
        return ("ret", self.ev(e["e"], env, ctx) if "e" in e else None)

    def ev_Break(self, e, env, ctx):
        return ("break", self.ev(e["e"], env, ctx) if "e" in e else None)

    def ev_Continue(self, e, env, ctx):
        return ("continue",)

    def ev_ConstBlock(self, e, env, ctx):
        return ("opaque", "constblock")

    def ev_Other(self, e, env, ctx):
        return ("opaque", "other")


def _pname(p):
    if p.get("k") == "Binding":
        return p["name"]
    return "_"


def default_inline(npath, fn):
    """Constructor wrapper / getter: the body is a single expression made only of calls,
    constructors, paths, fields, borrows (no control flow, no statements, no closures)."""
    h = fn.get("hir")
    if not h or h.get("k") != "Block" or h["stmts"] or "expr" not in h:
        return False
    return _simple_expr(h["expr"]) and _count_nodes(h) < 300


_SIMPLE = {"Call", "MethodCall", "Path", "Struct", "Field", "AddrOf", "Unary", "Tup", "Lit", "Use", "DropTemps", "Cast", "Type", "Array"}


def _simple_expr(e):
    if not isinstance(e, dict):
        return True
    k = e.get("k")
    if k is not None and k not in _SIMPLE and "sp" in e and k not in ("Wild", "Binding"):
        if k == "Block":
            return (not e["stmts"]) and "expr" in e and _simple_expr(e["expr"])
        return False
    for key in ("f", "args", "recv", "e", "elems", "fields", "base"):
        v = e.get(key)
        if isinstance(v, dict) and not _simple_expr(v):
            return False
        if isinstance(v, list):
            for x in v:
                if isinstance(x, dict):
                    y = x.get("e", x) if "field" in x and "e" in x else x
                    if not _simple_expr(y):
                        return False
    return True


def inline_also(*suffixes):
    """Inline predicate: constructor wrappers plus the named functions."""

    def pred(npath, fn):
        if default_inline(npath, fn):
            return True
        return any(suffix_match(npath, s) for s in suffixes)

    return pred


def _count_nodes(n):
    if isinstance(n, dict):
        return 1 + sum(_count_nodes(v) for v in n.values())
    if isinstance(n, list):
        return sum(_count_nodes(v) for v in n)
    return 0


def _has_loop(n):
    if isinstance(n, dict):
        if n.get("k") == "Loop":
            return True
        return any(_has_loop(v) for v in n.values())
    if isinstance(n, list):
        return any(_has_loop(v) for v in n)
    return False


def has_effect(t):
    """Conservative: a term that contains a call / assignment may have an effect."""
    if not isinstance(t, tuple) or not t:
        return False
    if isinstance(t[0], str):
        if t[0] in ("call", "callv", "assign", "assignop", "ret", "break", "continue", "try", "loop", "for", "while", "seq"):
            return True
        return any(has_effect(x) for x in t[1:] if isinstance(x, tuple))
    return any(has_effect(x) for x in t if isinstance(x, tuple))


# ----------------------------------------------------------------------
# term utilities
def subterms(t):
    """Pre-order iteration over all sub-terms (tuples whose first element is a str tag)."""
    if isinstance(t, tuple):
        if t and isinstance(t[0], str):
            yield t
        for x in t:
            if isinstance(x, tuple):
                yield from subterms(x)


def calls(t, suffix=None):
    for s in subterms(t):
        if s[0] == "call" and (suffix is None or suffix_match(s[1], suffix)):
            yield s


def ctors(t, suffix=None):
    for s in subterms(t):
        if s[0] == "ctor" and (suffix is None or suffix_match(s[1], suffix)):
            yield s


class V:
    """Pattern variable (binds consistently)."""

    def __init__(self, name):
        self.name = name

    def __repr__(self):
        return "?" + self.name


class AnyOf:
    def __init__(self, *alts):
        self.alts = alts


ANY = V("_")


def P(path):
    """Path pattern matched by suffix."""
    return ("__path__", path)


def unify(pat, t, b=None):
    """Match pattern `pat` against term `t`. Returns bindings dict or None."""
    if b is None:
        b = {}
    if isinstance(pat, V):
        if pat.name == "_":
            return b
        if pat.name in b:
            return b if b[pat.name] == t else None
        b2 = dict(b)
        b2[pat.name] = t
        return b2
    if isinstance(pat, AnyOf):
        for a in pat.alts:
            r = unify(a, t, b)
            if r is not None:
                return r
        return None
    if isinstance(pat, tuple) and len(pat) == 2 and pat[0] == "__path__":
        return b if isinstance(t, str) and suffix_match(t, pat[1]) else None
    if isinstance(pat, tuple):
        if isinstance(t, tuple) and t and t[0] == "letv" and not (pat and pat[0] == "letv"):
            return unify(pat, t[3], b)
        if not isinstance(t, tuple) or len(pat) != len(t):
            return None
        for p, x in zip(pat, t):
            b = unify(p, x, b)
            if b is None:
                return None
        return b
    return b if pat == t else None


def C(path, *args):
    return ("ctor", P(path), tuple(args))


def F(path, *args):
    return ("call", P(path), tuple(args))


def show(t, depth=0, maxdepth=12):
    """Compact rendering of a term for reports."""
    if not isinstance(t, tuple) or not t:
        return repr(t)
    if depth > maxdepth:
        return "..."
    k = t[0]
    sh = lambda x: show(x, depth + 1, maxdepth)
    short = lambda p: "::".join(str(p).split("::")[-2:]) if p else "?"
    if k == "param":
        return "%s" % t[2]
    if k == "cparam":
        return "arg%d" % t[2]
    if k == "proj":
        return "%s.%s#%s" % (sh(t[1]), short(t[2]), t[3])
    if k == "letv":
        return "%s#%s" % (t[2], t[1])
    if k == "item":
        return "item(%s)" % sh(t[1])
    if k == "alt":
        return "{%s}" % " | ".join(sh(a) for a in t[1])
    if k == "ctor":
        return "%s(%s)" % (short(t[1]), ", ".join(sh(a) for a in t[2])) if t[2] else short(t[1])
    if k == "call":
        return "%s(%s)" % (short(t[1]), ", ".join(sh(a) for a in t[2]))
    if k == "callv":
        return "(%s)(%s)" % (sh(t[1]), ", ".join(sh(a) for a in t[2]))
    if k == "field":
        return "%s.%s" % (sh(t[1]), t[2])
    if k == "lit":
        return str(t[1])
    if k in ("tuple", "array"):
        return "(%s)" % ", ".join(sh(a) for a in t[1])
    if k == "struct":
        return "%s{%s}" % (short(t[1]), ", ".join("%s: %s" % (n, sh(v)) for n, v in t[2]))
    if k == "closure":
        return "|%d| %s" % (t[2], sh(t[3]))
    if k == "match":
        return "match %s {%s}" % (sh(t[1]), "; ".join("%s%s => %s" % (showpat(p), " if " + sh(g) if g else "", sh(b)) for p, g, b in t[2]))
    if k == "if":
        return "if %s {%s} else {%s}" % (sh(t[1]), sh(t[2]), sh(t[3]) if t[3] is not None else "")
    if k == "seq":
        return "{%s; %s}" % ("; ".join(sh(s[-1]) if s[0] == "semi" else "let %s = %s" % (showpat(s[1]), sh(s[2])) for s in t[1]), sh(t[2]))
    if k == "binop":
        return "(%s %s %s)" % (sh(t[2]), t[1], sh(t[3]))
    if k == "unop":
        return "%s(%s)" % (t[1], sh(t[2]))
    if k == "var":
        return "var:%s" % t[2]
    if k == "try":
        return "%s?" % sh(t[1])
    if k == "ret":
        return "return %s" % (sh(t[1]) if t[1] is not None else "")
    if k == "for":
        return "for %s in %s {%s}" % (showpat(t[2]), sh(t[1]), sh(t[3]))
    if k == "iflet":
        return "let %s = %s" % (showpat(t[1]), sh(t[2]))
    return "%s(%s)" % (k, ", ".join(sh(a) if isinstance(a, tuple) else str(a) for a in t[1:]))


def showpat(p):
    if not isinstance(p, tuple):
        return str(p)
    k = p[0]
    short = lambda x: "::".join(str(x).split("::")[-2:]) if x else "?"
    if k == "pwild":
        return "_"
    if k == "pbind":
        return p[2] + ("@" + showpat(p[3]) if p[3] else "")
    if k == "pctor":
        return "%s(%s)" % (short(p[1]), ", ".join(showpat(x) for x in p[2]))
    if k == "pstruct":
        return "%s{%s}" % (short(p[1]), ", ".join("%s: %s" % (n, showpat(x)) for n, x in p[2]))
    if k == "ptuple":
        return "(%s)" % ", ".join(showpat(x) for x in p[1])
    if k == "por":
        return " | ".join(showpat(x) for x in p[1])
    if k == "plit":
        return p[1]
    return k
