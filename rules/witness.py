"""K13: compile-fail witnesses. Builds /verif/witness (a library crate whose only content is
doc-tests) against /repo's current tree with `cargo +nightly test --doc --offline` and reads which
doc-tests passed.  A witness holds iff its `compile_fail,E0xxx` test passes (the snippet is rejected
with exactly that error code) *and* its twin (same snippet without the offending construct) compiles.
The doc-tests are `compile_fail` / `no_run`: nothing of proto-vulcan is executed."""
import fcntl
import hashlib
import os
import re
import shutil
import subprocess
import time

import facts

VERIF = facts.VERIF
SRC = os.path.join(VERIF, "witness")
_cache = {}


def _run_all():
    repo = os.path.abspath(facts.REPO)
    key = facts.tree_hash() + hashlib.sha256(open(os.path.join(SRC, "src", "lib.rs"), "rb").read()).hexdigest()[:8]
    if key in _cache:
        return _cache[key]
    os.makedirs(facts.CACHE, exist_ok=True)
    res_file = os.path.join(facts.CACHE, "witness-%s.txt" % key)
    lock = open(os.path.join(facts.CACHE, ".witness-%s.lock" % hashlib.sha256(repo.encode()).hexdigest()[:10]), "w")  # one build dir per repo path
    fcntl.flock(lock, fcntl.LOCK_EX)
    try:
        if os.path.exists(res_file):
            out = open(res_file).read()
        else:
            wdir = os.path.join(facts.CACHE, "witness-build-%s" % hashlib.sha256(repo.encode()).hexdigest()[:10])
            os.makedirs(os.path.join(wdir, "src"), exist_ok=True)
            shutil.copy(os.path.join(SRC, "src", "lib.rs"), os.path.join(wdir, "src", "lib.rs"))
            with open(os.path.join(SRC, "Cargo.toml.in")) as f:
                toml = f.read().replace("@REPO@", repo)
            with open(os.path.join(wdir, "Cargo.toml"), "w") as f:
                f.write(toml)
            lockf = os.path.join(repo, "Cargo.lock")
            if os.path.exists(lockf):
                shutil.copy(lockf, os.path.join(wdir, "Cargo.lock"))
            env = dict(os.environ, CARGO_NET_OFFLINE="true")
            env.pop("RUSTC_WORKSPACE_WRAPPER", None)
            out = ""
            for attempt in range(3):
                r = subprocess.run(["cargo", "+nightly", "test", "--doc", "--offline", "-j", "8"], cwd=wdir, env=env, capture_output=True, text=True)
                out = r.stdout + "\n" + r.stderr
                if "test result:" in out:
                    break
                if "signal: 15" in out or "SIGTERM" in out or "SIGKILL" in out or "signal: 9" in out:
                    time.sleep(2)
                    continue
                break
            if "test result:" in out:
                with open(res_file, "w") as f:
                    f.write(out)
    finally:
        fcntl.flock(lock, fcntl.LOCK_UN)
        lock.close()
    res = {}
    for m in re.finditer(r"^test src/lib\.rs - (\w+) \(line \d+\)(?: - compile(?: fail)?)? \.\.\. (\w+)", out, re.M):
        res[m.group(1)] = m.group(2)
    _cache[key] = (res, out)
    return res, out


def run(ctx, prop, names):
    """Evaluate the named witnesses (and their twins) as rule instances of `prop`."""
    rule = "%s.K13.witness" % prop
    if os.environ.get("PV_NO_WITNESS"):  # tools/opmut.py only: operator mutants cannot move a type-level barrier
        return
    res, out = _run_all()
    if not res:
        ctx.violation(rule, "anchor-missing|doc-tests", "witness/src/lib.rs", "the witness crate did not build or ran no doc-test (fail closed): %s" % out[-600:])
        return
    ctx.count("witness_doc_tests_run", len(res))
    for n in names:
        w = res.get(n)
        t = res.get(n + "_twin")
        if w is None or t is None:
            ctx.violation(rule, "anchor-missing|%s" % n, "witness/src/lib.rs", "witness %s or its twin was not run" % n)
            continue
        ctx.expect(t == "ok", rule, "%s|twin-compiles" % n, "witness/src/lib.rs", "the compiling twin of %s no longer compiles against the current tree (the witness would pass for the wrong reason)" % n)
        ctx.expect(w == "ok", rule, "%s|rejected" % n, "witness/src/lib.rs", "the construct of witness %s is now accepted by the compiler (or rejected with a different error): the type-level barrier is gone" % n)
