"""MIR-level analyses: CFG helpers, dominators, path-sensitive drop-flag propagation (K4),
panic-site inventory helpers (K8).  Works on the JSON MIR emitted by pvfacts
(optimized_mir at -Zmir-opt-level=0: drop elaboration done, drop flags are bool locals)."""
from facts import norm

STATE_ADTS = (
    "crate::state::State",
    "crate::stream::Stream",
    "crate::stream::LazyStream",
    "crate::stream::Lazy",
)


def ty_contains(tys, adts, depth=0, through_ref=False):
    """Does the structured type mention one of `adts` (owned; references are skipped unless asked)?"""
    if not isinstance(tys, dict) or depth > 10:
        return False
    if "adt" in tys:
        if norm(tys["adt"]) in adts:
            return True
        return any(ty_contains(a, adts, depth + 1, through_ref) for a in tys.get("args", []))
    if "ref" in tys:
        return through_ref and ty_contains(tys["ref"], adts, depth + 1, through_ref)
    if "rawptr" in tys:
        return False
    for k in ("tuple",):
        if k in tys:
            return any(ty_contains(a, adts, depth + 1, through_ref) for a in tys[k])
    for k in ("slice", "array"):
        if k in tys:
            return ty_contains(tys[k], adts, depth + 1, through_ref)
    return False


def succs(term):
    k = term["k"]
    out = []
    if k == "goto":
        out = [term["target"]]
    elif k == "switch":
        out = [t[1] for t in term["targets"]] + [term["otherwise"]]
    elif k in ("call", "drop", "assert"):
        if term.get("target") is not None:
            out.append(term["target"])
        if term.get("unwind") is not None:
            out.append(term["unwind"])
    elif k == "other":
        out = list(term.get("succ", []))
    return out


def normal_succs(term):
    """Successors excluding unwind edges."""
    k = term["k"]
    if k in ("call", "drop", "assert"):
        return [term["target"]] if term.get("target") is not None else []
    return succs(term)


def place_key(p):
    return (p["l"], tuple(_proj_key(x) for x in p["p"]))


def _proj_key(x):
    if isinstance(x, dict):
        if "variant" in x:
            return ("v", x["idx"])
        if "index" in x:
            return ("i", x["index"])
        return ("?",)
    return x


def place_str(mir, p):
    l = p["l"]
    name = mir["locals"][l].get("name") or "_%d" % l
    s = name
    for x in p["p"]:
        if x == "*":
            s = "(*%s)" % s
        elif isinstance(x, int):
            s += ".%d" % x
        elif isinstance(x, dict) and "variant" in x:
            s = "(%s as %s)" % (s, x.get("variant"))
        else:
            s += "[..]"
    return s


class DropAudit:
    """Path-sensitive exploration of the non-unwind CFG with constant propagation of bool locals
    (drop flags) and of known enum variants of places, reporting reachable Drop terminators and
    Clone/mem::drop calls on state-bearing values."""

    def __init__(self, fn, adts=STATE_ADTS, variant_free=None, max_states=60000):
        self.fn = fn
        self.mir = fn["mir"]
        self.adts = adts
        # variants with no state payload: (adt, variant name)
        self.variant_free = variant_free or {("crate::stream::Stream", "Empty"), ("std::option::Option", "None")}
        self.max_states = max_states
        bools = {i for i, l in enumerate(self.mir["locals"]) if l["ty"] == "bool"}
        # drop flags: bool locals that are only ever assigned the constants true / false
        nonflag = set()
        for b in self.mir["blocks"]:
            for s in b["stmts"]:
                if s["k"] == "assign" and not s["place"]["p"] and s["place"]["l"] in bools:
                    rv = s["rv"]
                    if not (rv["k"] == "use" and "const" in rv["op"] and rv["op"]["const"] in ("true", "false", "const true", "const false")):
                        nonflag.add(s["place"]["l"])
            tm = b["term"]
            if tm["k"] == "call" and tm.get("dest") is not None and not tm["dest"]["p"] and tm["dest"]["l"] in bools:
                nonflag.add(tm["dest"]["l"])
        self.bools = bools - nonflag
        # variants are tracked only for places rooted in locals whose type can hold search state
        self.state_locals = {i for i, l in enumerate(self.mir["locals"]) if ty_contains(l["tys"], self.adts, through_ref=True)} | {0}
        self.events = []  # (kind, block, info)
        self.exhausted = False
        self.const_variant = {}
        self.variant_index = {}

    def run(self):
        blocks = self.mir["blocks"]
        start = (0, frozenset(), frozenset(), frozenset())
        seen = set()
        work = [start]
        n = 0
        events = {}
        while work:
            st = work.pop()
            if st in seen:
                continue
            seen.add(st)
            n += 1
            if n > self.max_states:
                self.exhausted = True
                break
            bi, flags_f, vars_f, refs_f = st
            flags = dict(flags_f)
            variants = dict(vars_f)
            refs = dict(refs_f)
            b = blocks[bi]
            if b["cleanup"]:
                continue
            for s in b["stmts"]:
                self._stmt(s, flags, variants, refs)
            t = b["term"]
            k = t["k"]
            nxt = []
            if k == "switch":
                d = t["discr"]
                pl = d.get("copy") or d.get("move")
                dl = pl["l"] if pl and not pl["p"] else None
                src = flags.get(("discr_of", dl)) if dl is not None else None
                if dl is not None and isinstance(flags.get(dl), int):
                    val = flags[dl]
                    tgt = [bb for v, bb in t["targets"] if int(v) == val]
                    nxt = [(tgt[0] if tgt else t["otherwise"], None)]
                elif dl in self.bools:
                    nxt = [(bb, ("flag", dl, int(v))) for v, bb in t["targets"]]
                    nxt.append((t["otherwise"], ("flag", dl, 1)))
                elif src is not None and src[0] in self.state_locals:
                    known = self._known_idx(src, variants)
                    taken = set()
                    for v, bb in t["targets"]:
                        taken.add(int(v))
                        if known is None or int(v) in known:
                            nxt.append((bb, ("variant", src, frozenset([int(v)]))))
                    if known is None:
                        nxt.append((t["otherwise"], None))
                    elif known - taken:
                        nxt.append((t["otherwise"], ("variant", src, frozenset(known - taken))))
                else:
                    nxt = [(bb, None) for v, bb in t["targets"]] + [(t["otherwise"], None)]
            elif k == "drop":
                self._drop(bi, t, flags, variants, refs, events)
                nxt = [(t["target"], None)]
            elif k == "call":
                self._call(bi, t, flags, variants, refs, events)
                if t.get("target") is not None:
                    nxt = [(t["target"], None)]
            elif k == "assert":
                nxt = [(t["target"], None)]
            elif k == "goto":
                nxt = [(t["target"], None)]
            elif k == "other":
                nxt = [(x, None) for x in t.get("succ", [])]
            for bb, refine in nxt:
                f2, v2 = flags, variants
                if refine is not None:
                    if refine[0] == "flag":
                        f2 = dict(flags)
                        f2[refine[1]] = refine[2]
                    else:
                        v2 = dict(variants)
                        v2[refine[1]] = refine[2]
                work.append((bb, frozenset(f2.items()), frozenset(v2.items()), frozenset(refs.items())))
        self.events = sorted(events.values(), key=lambda e: (e["block"], e["kind"]))
        self.states = n
        return self.events

    # ------------------------------------------------------------------
    def _stmt(self, s, flags, variants, refs):
        if s["k"] != "assign":
            if s["k"] == "setdiscr":
                variants[place_key(s["place"])] = frozenset([s["idx"]])
            return
        pl = s["place"]
        rv = s["rv"]
        key = place_key(pl)
        # any assignment invalidates what we knew about the destination
        if not pl["p"]:
            l = pl["l"]
            flags.pop(l, None)
            flags.pop(("discr_of", l), None)
            refs.pop(l, None)
        for vk in [vk for vk in variants if vk == key or (vk[0] == key[0] and vk[1][: len(key[1])] == key[1])]:
            variants.pop(vk, None)
        k = rv["k"]
        if k == "use":
            op = rv["op"]
            if "const" in op and not pl["p"] and pl["l"] in self.bools:
                if op["const"] in ("true", "const true"):
                    flags[pl["l"]] = 1
                elif op["const"] in ("false", "const false"):
                    flags[pl["l"]] = 0
            src = op.get("copy") or op.get("move")
            if src is not None:
                sk = place_key(src)
                if sk in variants and key[0] in self.state_locals:
                    variants[key] = variants[sk]
                if not pl["p"] and not src["p"] and src["l"] in refs:
                    refs[pl["l"]] = refs[src["l"]]
                if not pl["p"] and not src["p"] and src["l"] in flags and isinstance(flags[src["l"]], int) and pl["l"] in self.bools:
                    flags[pl["l"]] = flags[src["l"]]
        elif k == "discr" and not pl["p"]:
            src = self._resolve(rv["place"], refs)
            flags[("discr_of", pl["l"])] = src
        elif k == "aggregate" and "adt" in rv and key[0] in self.state_locals:
            adt = norm(rv["adt"])
            variants[key] = ("named", adt, rv["variant"])
        elif k == "ref" and not pl["p"]:
            tgt = self._resolve(rv["place"], refs)
            if tgt[0] in self.state_locals:
                refs[pl["l"]] = tgt

    def _resolve(self, place, refs):
        """Place key with leading deref of a tracked reference local replaced by its target."""
        k = place_key(place)
        l, proj = k
        if proj and proj[0] == "*" and l in refs:
            tl, tproj = refs[l]
            return (tl, tproj + proj[1:])
        return k

    def _known_idx(self, key, variants):
        v = variants.get(key)
        if v is None:
            return None
        if isinstance(v, tuple) and v and v[0] == "named":
            names = self.variant_index.get(v[1])
            if names and v[2] in names:
                return frozenset([names.index(v[2])])
            return None
        return v

    def _payload_free(self, key, variants, ty_tree):
        v = variants.get(key)
        if v is None:
            return False
        adt = norm(ty_tree.get("adt")) if isinstance(ty_tree, dict) and "adt" in ty_tree else None
        if isinstance(v, tuple) and v and v[0] == "named":
            return (v[1], v[2]) in self.variant_free
        if adt is None:
            return False
        names = self.variant_index.get(adt) if hasattr(self, "variant_index") else None
        if not names:
            return False
        return all((adt, names[i]) in self.variant_free for i in v if i < len(names)) and len(v) > 0

    def _drop(self, bi, t, flags, variants, refs, events):
        if not ty_contains(t["tys"], self.adts):
            return
        key = self._resolve(t["place"], refs)
        if self._payload_free(key, variants, t["tys"]) or self._payload_free(place_key(t["place"]), variants, t["tys"]):
            return
        # Box<T> whose content was moved out: the elaborated drop is of the box shell only
        ret = variants.get((0, ()))
        retv = "?"
        if isinstance(ret, tuple) and ret and ret[0] == "named":
            retv = ret[2]
        elif ret is not None:
            rt = self.mir["locals"][0]["tys"]
            names = self.variant_index.get(norm(rt.get("adt"))) if isinstance(rt, dict) and "adt" in rt else None
            if names and len(ret) == 1:
                retv = names[list(ret)[0]]
        e = {
            "kind": "drop",
            "block": bi,
            "place": place_str(self.mir, t["place"]),
            "ty": norm(t["ty"]),
            "sp": t["sp"],
            "ret": {retv},
        }
        if (bi, "drop") in events:
            events[(bi, "drop")]["ret"] |= {retv}
        else:
            events[(bi, "drop")] = e

    def _call(self, bi, t, flags, variants, refs, events):
        callee = norm(t.get("resolved") or t.get("callee") or "")
        base = norm(t.get("callee") or "")
        dest = t.get("dest")
        if dest is not None and not dest["p"]:
            flags.pop(dest["l"], None)
            flags.pop(("discr_of", dest["l"]), None)
            refs.pop(dest["l"], None)
        if dest is not None:
            dk = place_key(dest)
            for vk in [vk for vk in variants if vk[0] == dk[0] and vk[1][: len(dk[1])] == dk[1]]:
                variants.pop(vk, None)
        cv = self.const_variant.get(callee) or self.const_variant.get(base)
        if cv is not None and dest is not None:
            variants[place_key(dest)] = ("named", cv[0], cv[1])
        if base == "std::ops::FromResidual::from_residual" and dest is not None:
            dty = self.mir["locals"][dest["l"]]["ty"] if not dest["p"] else ""
            if dty.startswith("std::result::Result<"):
                variants[place_key(dest)] = ("named", "std::result::Result", "Err")
            elif dty.startswith("std::option::Option<"):
                variants[place_key(dest)] = ("named", "std::option::Option", "None")
        if base == "std::clone::Clone::clone":
            ga = t.get("gargs") or []
            if ga and ty_contains(ga[0], self.adts):
                events[(bi, "clone")] = {"kind": "clone", "block": bi, "ty": _tystr(ga[0]), "sp": t["sp"], "place": ""}
        elif base in ("std::mem::drop", "std::mem::forget", "core::mem::drop", "core::mem::forget"):
            ga = t.get("gargs") or []
            if ga and ty_contains(ga[0], self.adts):
                events[(bi, "memdrop")] = {"kind": "memdrop", "block": bi, "ty": _tystr(ga[0]), "sp": t["sp"], "place": ""}
        elif base in ("std::mem::replace", "core::mem::replace", "std::mem::take", "core::mem::take"):
            # mem::replace(r, v): *r now holds v (track a payload-free variant)
            args = t["args"]
            if args:
                r = args[0].get("move") or args[0].get("copy")
                if r is not None and not r["p"] and r["l"] in refs:
                    target = refs[r["l"]]
                    old = variants.get(target)
                    for vk in [vk for vk in variants if vk[0] == target[0] and vk[1][: len(target[1])] == target[1]]:
                        variants.pop(vk, None)
                    if old is not None and dest is not None:
                        variants[place_key(dest)] = old
                    if len(args) > 1:
                        v = args[1].get("move") or args[1].get("copy")
                        if v is not None and place_key(v) in variants:
                            variants[target] = variants[place_key(v)]
        else:
            # a call taking `&mut place` may change its variant
            for a in t["args"]:
                r = a.get("move") or a.get("copy")
                if r is not None and not r["p"] and r["l"] in refs:
                    lt = self.mir["locals"][r["l"]]["ty"]
                    if lt.startswith("&mut") or "&mut" in lt[:12]:
                        target = refs[r["l"]]
                        for vk in [vk for vk in variants if vk[0] == target[0] and vk[1][: len(target[1])] == target[1]]:
                            variants.pop(vk, None)


def _tystr(tys):
    if isinstance(tys, dict):
        if "adt" in tys:
            a = norm(tys["adt"]).split("::")[-1]
            args = [_tystr(x) for x in tys.get("args", []) if not (isinstance(x, dict) and "param" in x)]
            return a + ("<" + ", ".join(args) + ">" if args else "")
        if "tuple" in tys:
            return "(" + ", ".join(_tystr(x) for x in tys["tuple"]) + ")"
        if "ref" in tys:
            return "&" + _tystr(tys["ref"])
        if "param" in tys:
            return tys["param"]
        for k in ("prim", "str", "fnptr", "closure"):
            if k in tys:
                return str(tys[k])
    return str(tys)


_cv_cache = {}


def const_variant_fns(crate):
    """Functions whose body is just a payload-free enum variant (e.g. `Stream::empty()`)."""
    if id(crate) in _cv_cache:
        return _cv_cache[id(crate)]
    out = {}
    for p, fn in crate.fns.items():
        h = fn.get("hir")
        if not h or h.get("k") != "Block" or h["stmts"] or "expr" not in h or "trait_default" in fn:
            continue
        e = h["expr"]
        if e.get("k") == "Path" and e.get("res") == "def" and str(e.get("dk", "")).startswith("Ctor") and "Const" in e.get("dk", ""):
            v = norm(e.get("ctor_of") or e["path"])
            adt, name = v.rsplit("::", 1)
            out[p] = (adt, name)
    _cv_cache[id(crate)] = out
    return out


def drop_audit(fn, crate, **kw):
    a = DropAudit(fn, **kw)
    # variant name tables for enums of the crate + Option
    vi = {"std::option::Option": ["None", "Some"], "core::option::Option": ["None", "Some"], "std::result::Result": ["Ok", "Err"]}
    for p, adt in crate.adts.items():
        if adt["kind"] == "enum":
            vi[p] = [v["name"] for v in adt["variants"]]
    a.variant_index = vi
    a.const_variant = const_variant_fns(crate)
    a.run()
    return a


# ----------------------------------------------------------------------
def dominators(mir, normal_only=True):
    """Immediate-dominator style sets (simple iterative algorithm; functions are small)."""
    blocks = mir["blocks"]
    n = len(blocks)
    preds = [[] for _ in range(n)]
    for i, b in enumerate(blocks):
        for s in (normal_succs(b["term"]) if normal_only else succs(b["term"])):
            preds[s].append(i)
    dom = [None] * n
    dom[0] = {0}
    allb = set(range(n))
    changed = True
    while changed:
        changed = False
        for i in range(1, n):
            ps = [dom[p] for p in preds[i] if dom[p] is not None]
            if not ps:
                continue
            new = set.intersection(*ps) | {i}
            if new != dom[i]:
                dom[i] = new
                changed = True
    return dom, preds


def reachable(mir, start=0, normal_only=True):
    seen = set()
    work = [start]
    blocks = mir["blocks"]
    while work:
        b = work.pop()
        if b in seen:
            continue
        seen.add(b)
        work += normal_succs(blocks[b]["term"]) if normal_only else succs(blocks[b]["term"])
    return seen
