"""Fact base: runs the pvfacts driver on /repo's current working tree (cached by a
content hash of the tree) and loads / indexes the resulting JSON facts.

Nothing here executes proto-vulcan code: the driver is a rustc front end run
(`cargo +nightly check`) that dumps typed HIR and MIR.
"""
import fcntl
import glob
import hashlib
import json
import os
import re
import shutil
import subprocess
import sys
import tempfile
import time

VERIF = os.path.dirname(os.path.dirname(os.path.abspath(__file__)))
REPO = os.environ.get("PV_REPO", "/repo")
CACHE = os.environ.get("PV_CACHE") or os.path.join(VERIF, ".cache")
DRIVER_DIR = os.path.join(VERIF, "engine", "pvfacts")
DRIVER = os.path.join(DRIVER_DIR, "target", "release", "pvfacts")
TMPL_DIR = os.path.join(VERIF, "engine", "pvtmpl")
TMPL = os.path.join(TMPL_DIR, "target", "release", "pvtmpl")

# configurations: name -> (cargo args, description)
CONFIGS = {
    "lib-default": (["--workspace", "--lib"], "lib targets of both workspace crates, default features (core, extras, clpfd, clpz)"),
    "all-targets": (["--workspace", "--all-targets"], "lib + unit tests + examples, default features"),
    "core-extras-clpfd": (["-p", "proto-vulcan", "--lib", "--no-default-features", "--features", "core,extras,clpfd"], "lib, features core+extras+clpfd (the only proper feature subset that compiles on this tree)"),
}


def tree_hash(root=None):
    root = root or REPO
    h = hashlib.sha256()
    for dp, dns, fns in os.walk(root):
        dns[:] = sorted(d for d in dns if d not in ("target", ".git"))
        for fn in sorted(fns):
            p = os.path.join(dp, fn)
            rel = os.path.relpath(p, root)
            try:
                with open(p, "rb") as f:
                    data = f.read()
            except OSError:
                continue
            h.update(rel.encode())
            h.update(b"\0")
            h.update(hashlib.sha256(data).digest())
    # the driver itself is part of the key
    for src in sorted(glob.glob(os.path.join(DRIVER_DIR, "src", "*.rs"))) + sorted(
        glob.glob(os.path.join(TMPL_DIR, "src", "*.rs"))
    ):
        with open(src, "rb") as f:
            h.update(hashlib.sha256(f.read()).digest())
    return h.hexdigest()[:24]


def _env():
    env = dict(os.environ)
    env["CARGO_NET_OFFLINE"] = "true"
    return env


def nightly_sysroot():
    return subprocess.check_output(["rustc", "+nightly", "--print", "sysroot"], text=True).strip()


def build_engines(verbose=False):
    """Build the driver and the template extractor if their binaries are missing or stale."""
    for d, b in ((DRIVER_DIR, DRIVER), (TMPL_DIR, TMPL)):
        if not os.path.isdir(d):
            continue
        srcs = glob.glob(os.path.join(d, "src", "*.rs")) + [os.path.join(d, "Cargo.toml")]
        if os.path.exists(b) and all(os.path.getmtime(b) >= os.path.getmtime(s) for s in srcs):
            continue
        r = subprocess.run(
            ["cargo", "build", "--release", "--offline"], cwd=d, env=_env(), capture_output=True, text=True
        )
        if r.returncode != 0:
            sys.stderr.write(r.stdout + r.stderr)
            raise SystemExit("engine build failed in %s" % d)
        os.utime(b, None)


def _run_driver(cfg, outdir):
    args, _ = CONFIGS[cfg]
    tdir = tempfile.mkdtemp(prefix="pvfacts-target-")
    try:
        env = _env()
        env["LD_LIBRARY_PATH"] = nightly_sysroot() + "/lib"
        env["RUSTFLAGS"] = "-Zmir-opt-level=0 -Awarnings"
        env["RUSTC_WORKSPACE_WRAPPER"] = DRIVER
        env["PVFACTS_OUT"] = outdir
        env["CARGO_TARGET_DIR"] = tdir
        env.pop("RUSTC_WRAPPER", None)
        r = subprocess.run(
            ["cargo", "+nightly", "check", "--offline"] + args, cwd=REPO, env=env, capture_output=True, text=True
        )
        if r.returncode != 0:
            sys.stderr.write(r.stdout[-4000:] + r.stderr[-8000:])
            raise SystemExit("pvfacts: cargo check failed for config %s (the tree must compile)" % cfg)
    finally:
        shutil.rmtree(tdir, ignore_errors=True)


def _run_tmpl(outdir):
    if not os.path.exists(TMPL):
        return
    src = os.path.join(REPO, "macros", "src", "lib.rs")
    r = subprocess.run([TMPL, src, os.path.join(outdir, "templates.json")], capture_output=True, text=True)
    if r.returncode != 0:
        sys.stderr.write(r.stdout + r.stderr)
        raise SystemExit("pvtmpl failed")


def ensure(cfg="lib-default"):
    """Return the directory holding fact files for `cfg` on the current /repo tree."""
    os.makedirs(CACHE, exist_ok=True)
    glock = open(os.path.join(CACHE, ".lock"), "w")
    fcntl.flock(glock, fcntl.LOCK_EX)
    try:
        build_engines()
    finally:
        fcntl.flock(glock, fcntl.LOCK_UN)
        glock.close()
    key = tree_hash()
    # one extraction per (tree, config) at a time; different trees are extracted concurrently
    lock = open(os.path.join(CACHE, ".lock-%s-%s" % (key, cfg)), "w")
    fcntl.flock(lock, fcntl.LOCK_EX)
    try:
        d = os.path.join(CACHE, key, cfg)
        done = os.path.join(d, ".done")
        if not os.path.exists(done):
            shutil.rmtree(d, ignore_errors=True)
            os.makedirs(d)
            t0 = time.time()
            _run_driver(cfg, d)
            _run_tmpl(d)
            if not glob.glob(os.path.join(d, "proto_vulcan-*.json")):
                raise SystemExit("pvfacts: no fact file produced for proto_vulcan (driver skipped?)")
            with open(done, "w") as f:
                f.write("%.1f" % (time.time() - t0))
            # prune cache entries not touched for 3 hours (never the current one)
            now = time.time()
            for k in os.listdir(CACHE):
                kp = os.path.join(CACHE, k)
                if os.path.isdir(kp) and k != key and now - os.path.getmtime(kp) > 3 * 3600:
                    shutil.rmtree(kp, ignore_errors=True)
                elif k.startswith(".lock-") and now - os.path.getmtime(kp) > 3 * 3600:
                    try:
                        os.remove(kp)
                    except OSError:
                        pass
        os.utime(os.path.join(CACHE, key), None)
        return d
    finally:
        fcntl.flock(lock, fcntl.LOCK_UN)
        lock.close()


_PARAMLIKE = re.compile(r"^(?:'[a-z_]+|[A-Z][0-9]?)$")
_norm_cache = {}


def norm(path):
    """Normalise a def path: inside every generic argument list drop lifetimes and
    type-parameter-like entries (`U`, `E`, `G`, `T`...), drop lists that become empty and
    turbofish `::`, keep qualified-self brackets (`<X as Y>::m`) and the `crate::` prefix.
    `SMap::<U, E>::walk` -> `SMap::walk`; `<LTerm<U, E> as From<isize>>::from` ->
    `<LTerm as From<isize>>::from`."""
    if path is None:
        return None
    r = _norm_cache.get(path)
    if r is None:
        r = _norm(path)
        r = re.sub(r"&'[a-z_]+ ", "&", r).replace(" + 'static", "")
        _norm_cache[path] = r
    return r


def _norm(s):
    out = []
    i = 0
    n = len(s)
    while i < n:
        c = s[i]
        if c == "<":
            # find the matching bracket
            depth = 0
            j = i
            while j < n:
                if s[j] == "<":
                    depth += 1
                elif s[j] == ">" and s[j - 1] != "-":
                    depth -= 1
                    if depth == 0:
                        break
                j += 1
            inner = s[i + 1:j]
            prev = s[i - 1] if i > 0 else ""
            is_generic = prev.isalnum() or prev == "_" or s[max(0, i - 2):i] == "::"
            if is_generic:
                parts = [_norm(x.strip()) for x in _split_top(inner)]
                parts = [x for x in parts if not _PARAMLIKE.match(x)]
                if out[-2:] == [":", ":"]:
                    out = out[:-2]
                if parts:
                    out.append("<" + ", ".join(parts) + ">")
            else:
                out.append("<" + _norm(inner) + ">")
            i = j + 1
            continue
        out.append(c)
        i += 1
    return "".join(out)


def _split_top(s):
    parts = []
    depth = 0
    cur = []
    for k, ch in enumerate(s):
        if ch in "<([":
            depth += 1
        elif ch in ")]" or (ch == ">" and s[k - 1] != "-"):
            depth -= 1
        if ch == "," and depth == 0:
            parts.append("".join(cur))
            cur = []
        else:
            cur.append(ch)
    if cur:
        parts.append("".join(cur))
    return parts


class Crate:
    def __init__(self, data, file):
        self.file = file
        self.name = data["crate"]
        self.test = data["test"]
        self.data = data
        self.adts = {norm(a["path"]): a for a in data["adts"]}
        self.impls = data["impls"]
        self.traits = {norm(t["path"]): t for t in data["traits"]}
        self.statics = data["statics"]
        self.fns = {}
        self.fns_all = {}
        self.closures = {}
        for fn in data["fns"]:
            fn["npath"] = norm(fn["path"])
            fn["crate"] = self.name
            if fn["kind"] == "Closure":
                self.closures[fn["npath"]] = fn
            else:
                self.fns.setdefault(fn["npath"], fn)
                self.fns_all.setdefault(fn["npath"], []).append(fn)
        # trait impl method lookup: (trait, self_adt, name) -> fn path
        self.impl_methods = {}
        for im in self.impls:
            for it in im["items"]:
                self.impl_methods[(norm(im.get("trait")), norm(im.get("self_adt")) or im["self_ty"], it["name"])] = norm(it["path"])

    def fn(self, suffix):
        """Look a function up by the tail of its normalised path (must be unique)."""
        c = [f for p, f in self.fns.items() if p == suffix or p.endswith("::" + suffix)]
        exact = [f for f in c if f["npath"] == suffix or f["npath"] == "crate::" + suffix]
        if exact:
            return exact[0]
        if len(c) == 1:
            return c[0]
        return None

    def all_bodies(self):
        for f in self.fns.values():
            yield f
        for f in self.closures.values():
            yield f

    def impls_of(self, trait_suffix):
        out = []
        for im in self.impls:
            t = norm(im.get("trait"))
            if t and (t == trait_suffix or t.endswith("::" + trait_suffix)):
                out.append(im)
        return out


def load(cfg="lib-default"):
    d = ensure(cfg)
    return FactBase(d, cfg)


class FactBase:
    """Lazily loaded set of crate fact files of one configuration."""

    def __init__(self, d, cfg):
        self.dir = d
        self.cfg = cfg
        self._loaded = {}
        self.files = {}
        for f in sorted(glob.glob(os.path.join(d, "*.json"))):
            b = os.path.basename(f)
            if b == "templates.json":
                continue
            m = re.match(r"(.*)-(plain|test)(-bin)?-\d+\.json$", b)
            if not m:
                continue
            k = (m.group(1), m.group(2) == "test", bool(m.group(3)))
            # proc-macro crate may be dumped twice (host/target): keep the first
            self.files.setdefault(k, f)

    def crate(self, name, test=False, binary=False):
        k = (name, test, binary)
        if k not in self.files:
            return None
        if k not in self._loaded:
            with open(self.files[k]) as fh:
                self._loaded[k] = Crate(json.load(fh), self.files[k])
        return self._loaded[k]

    @property
    def crates(self):
        return [self.crate(*k) for k in self.files]

    @property
    def lib(self):
        return self.crate("proto_vulcan")

    @property
    def macros(self):
        return self.crate("proto_vulcan_macros")

    def templates(self):
        p = os.path.join(self.dir, "templates.json")
        if os.path.exists(p):
            with open(p) as f:
                return json.load(f)
        return None


if __name__ == "__main__":
    fb = load(sys.argv[1] if len(sys.argv) > 1 else "lib-default")
    for c in fb.crates:
        print(c.name, c.test, len(c.fns), "fns", len(c.closures), "closures", len(c.adts), "adts", len(c.impls), "impls")
