"""Helpers to compare sym terms with rule tables (K3 / K5 / K6 at HIR level)."""
import sym
from pat import pat
from sym import ANY, V, show, showpat, suffix_match, unify


def flatten(t):
    """Split a term into (effects, result): descends through `seq`, collecting non-let statements
    and let statements whose value is not otherwise referenced (kept as effects)."""
    effects = []
    while isinstance(t, tuple) and t and t[0] == "seq":
        for s in t[1]:
            if s[0] == "semi":
                effects.append(s[1])
            elif s[0] == "let":
                effects.append(("let",) + s[1:])
        t = t[2]
    return effects, t


def stmts_of(t):
    """Effects of a block plus its tail expression when that is not `()`."""
    eff, res = flatten(t)
    return eff + ([] if is_unit(res) else [res])


def result(t):
    return flatten(t)[1]


def semis(t):
    """Non-let statement effects of the top-level seq."""
    return [e for e in flatten(t)[0] if not (isinstance(e, tuple) and e and e[0] == "let")]


def is_unit(t):
    return t == ("tuple", ())


def pat_ctors(p):
    """Constructors a pattern matches at top level: list of ctor paths, or ['*'] for catch-all."""
    k = p[0]
    if k in ("pwild",):
        return ["*"]
    if k == "pbind":
        return pat_ctors(p[3]) if p[3] else ["*"]
    if k == "pctor":
        return [p[1]]
    if k == "pstruct":
        return [p[1]]
    if k == "por":
        out = []
        for a in p[1]:
            out += pat_ctors(a)
        return out
    if k == "plit":
        return ["lit:" + p[1]]
    if k == "ptuple":
        return ["tuple"]
    return ["?"]


def arms_of(m):
    """dict ctor-path -> list of (pattern, guard, body) for a ('match', scrut, arms) term."""
    out = {}
    for p, g, b in m[2]:
        for c in pat_ctors(p):
            out.setdefault(c, []).append((p, g, b))
    return out


def find_arm(m, ctor_suffix):
    """Arms of match term `m` whose top-level pattern is constructor `ctor_suffix` (not a wildcard)."""
    res = []
    for c, lst in arms_of(m).items():
        if c not in ("*", "?") and suffix_match(c, ctor_suffix):
            res += lst
    return res


def check_match_table(ctx, rule, fnkey, site, term, scrut_pat, table, bindings=None, allow_extra=True, effects_ok=None):
    """`term` must be a match on `scrut_pat` with, for every constructor in `table`, exactly one
    explicit (non-wildcard) unguarded arm whose body unifies with the table pattern.
    table: {ctor_suffix: pattern-string | compiled pattern | callable(body, bindings)->(ok, msg)}.
    Returns bindings or None."""
    eff, m = flatten(term)
    if not (isinstance(m, tuple) and m and m[0] == "match"):
        ctx.violation(rule, "%s|shape" % fnkey, site, "expected a match on %s, found %s" % (scrut_pat, show(m, maxdepth=3)[:200]))
        return None
    b = dict(bindings or {})
    sp = pat(scrut_pat) if isinstance(scrut_pat, str) else scrut_pat
    b2 = unify(sp, m[1], b)
    if b2 is None:
        ctx.violation(rule, "%s|scrutinee" % fnkey, site, "match scrutinee is %s, expected %s" % (show(m[1], maxdepth=4)[:200], scrut_pat))
        return None
    b = b2
    ok_all = True
    for ctor, expected in table.items():
        arms = find_arm(m, ctor)
        key = "%s|arm=%s" % (fnkey, ctor)
        if len(arms) != 1:
            ctx.violation(rule, key, site, "expected exactly one explicit arm for %s, found %d (a wildcard arm does not count)" % (ctor, len(arms)))
            ok_all = False
            continue
        p, g, body = arms[0]
        if g is not None:
            ctx.violation(rule, key, site, "arm %s is guarded (%s); the table expects an unconditional arm" % (ctor, show(g, maxdepth=3)[:120]))
            ok_all = False
            continue
        r = match_body(body, expected, b)
        if r is None or r[0] is None:
            ctx.violation(rule, key, site, "arm %s yields %s ; expected %s" % (ctor, show(body, maxdepth=8)[:400], expected if isinstance(expected, str) else getattr(expected, "__doc__", None) or "table entry"), detail=r[1] if r else "")
            ok_all = False
        else:
            ctx.ok(rule, key, site, show(body, maxdepth=6)[:200])
    return b if ok_all else None


def match_body(body, expected, b):
    """Returns (bindings|None, msg)."""
    if callable(expected) and not isinstance(expected, (tuple, V)):
        return expected(body, b)
    ep = pat(expected) if isinstance(expected, str) else expected
    eff, res = flatten(body)
    # pure arm: no side-effect statements allowed unless they are debug hooks
    r = unify(ep, res, b)
    if r is None:
        return (None, "result %s does not match" % show(res, maxdepth=6)[:300])
    bad = [e for e in eff if not harmless_effect(e)]
    if bad:
        return (None, "unexpected statement(s): %s" % "; ".join(show(e, maxdepth=4)[:120] for e in bad))
    return (r, "")


def harmless_effect(e):
    """Statements that cannot change the result: empty debug-hook ifs (`if self.debug_enabled {}`),
    unit expressions, lets (their value is already substituted at the uses)."""
    if not isinstance(e, tuple) or not e:
        return True
    if e[0] == "let":
        return True
    if is_unit(e):
        return True
    if e[0] == "if":
        return _empty(e[2]) and (e[3] is None or _empty(e[3])) and not sym.has_effect(e[1])
    return False


def _empty(t):
    eff, res = flatten(t)
    return is_unit(res) and all(harmless_effect(x) for x in eff)


def strip_shortcuts(t, goal_pat, identity_pat, empty_pat="Stream::Empty", b=None):
    """Accepts  [if is_succeed(g) {identity} else] [if is_fail(g) {Empty} else] general
    (each shortcut optional, but correct when present). Returns (general, bindings, errors)."""
    errs = []
    b = dict(b or {})
    gp = pat(goal_pat) if isinstance(goal_pat, str) else goal_pat
    idp = pat(identity_pat) if isinstance(identity_pat, str) else identity_pat
    emp = pat(empty_pat)
    for _ in range(4):
        eff, r = flatten(t)
        if not (isinstance(r, tuple) and r and r[0] == "if"):
            break
        cond, then, els = r[1], r[2], r[3]
        which = None
        if cond[0] == "call" and len(cond[2]) == 1 and unify(gp, cond[2][0], b) is not None:
            b = unify(gp, cond[2][0], b)
            if suffix_match(cond[1], "is_succeed"):
                which = "succeed"
            elif suffix_match(cond[1], "is_fail"):
                which = "fail"
        if which is None or els is None:
            break
        tres = result(then)
        if which == "succeed":
            r2 = unify(idp, tres, b)
            if r2 is None:
                errs.append("shortcut for a succeeding goal yields %s, expected the unchanged stream %s" % (show(tres, maxdepth=4)[:160], identity_pat))
            else:
                b = r2
        else:
            if unify(emp, tres, b) is None:
                errs.append("shortcut for a failing goal yields %s, expected the empty stream" % show(tres, maxdepth=4)[:160])
        t = els
    return t, b, errs


# ----------------------------------------------------------------------
# path-literal enumeration (K6) over if / if-let / match-free block terms
def cond_cases(c, want):
    """Ways for condition `c` to evaluate to `want`: list of literal lists [(term, bool), ...]."""
    if isinstance(c, tuple) and c and c[0] == "unop" and c[1] == "Not":
        return cond_cases(c[2], not want)
    if isinstance(c, tuple) and c and c[0] == "binop" and c[1] == "And":
        if want:
            return [a + b for a in cond_cases(c[2], True) for b in cond_cases(c[3], True)]
        return cond_cases(c[2], False) + [a + b for a in cond_cases(c[2], True) for b in cond_cases(c[3], False)]
    if isinstance(c, tuple) and c and c[0] == "binop" and c[1] == "Or":
        if want:
            return cond_cases(c[2], True) + [a + b for a in cond_cases(c[2], False) for b in cond_cases(c[3], True)]
        return [a + b for a in cond_cases(c[2], False) for b in cond_cases(c[3], False)]
    return [[(c, want)]]


def block_paths(t, limit=256):
    """Acyclic paths through a block term: yields (literals, effects, terminal) where terminal is
    None (falls through), ('ret', x), ('break', x) or ('continue',). Loops are opaque effects."""
    out = []

    def go(stmts, i, lits, effs):
        if len(out) > limit:
            return
        if i == len(stmts):
            out.append((lits, effs, None))
            return
        s = stmts[i]
        if not isinstance(s, tuple) or not s:
            return go(stmts, i + 1, lits, effs)
        if s[0] == "let":
            # a let whose value is an if/match with effects is not expanded; keep as effect
            return go(stmts, i + 1, lits, effs + [s])
        if s[0] == "if":
            for want, br in ((True, s[2]), (False, s[3])):
                for case in cond_cases(s[1], want):
                    sub = stmts_of(br) if br is not None else []
                    go(sub + [("__join__",)] + stmts[i + 1 :], 0, lits + case, effs)
            return
        if s[0] == "match":
            for p, g, b in s[2]:
                lit = [(("matches", s[1], p), True)]
                if g is not None:
                    for case in cond_cases(g, True):
                        go(stmts_of(b) + [("__join__",)] + stmts[i + 1 :], 0, lits + lit + case, effs)
                else:
                    go(stmts_of(b) + [("__join__",)] + stmts[i + 1 :], 0, lits + lit, effs)
            return
        if s[0] in ("ret", "break", "continue"):
            out.append((lits, effs, s))
            return
        if s[0] == "__join__":
            return go(stmts, i + 1, lits, effs)
        if s[0] == "seq":
            return go(stmts_of(s) + stmts[i + 1 :], 0, lits, effs)
        return go(stmts, i + 1, lits, effs + [s])

    go(stmts_of(t), 0, [], [])
    return out


# ----------------------------------------------------------------------
def occurrences_with_guards(t, lits=None):
    """Yield (subterm, literals) for every sub-term together with the branch literals under which it is
    evaluated (if-conditions, match arm patterns/guards, short-circuit && / ||).  Literals: (term, bool)
    or (("matches", scrut, pat), True)."""
    lits = lits or []
    if not isinstance(t, tuple) or not t:
        return
    if not isinstance(t[0], str):
        for x in t:
            if isinstance(x, tuple):
                yield from occurrences_with_guards(x, lits)
        return
    yield t, lits
    k = t[0]
    if k == "if":
        yield from occurrences_with_guards(t[1], lits)
        for want, br in ((True, t[2]), (False, t[3])):
            if br is None:
                continue
            for case in cond_cases(t[1], want):
                yield from occurrences_with_guards(br, lits + case)
    elif k == "match":
        yield from occurrences_with_guards(t[1], lits)
        for p, g, b in t[2]:
            l2 = lits + [(("matches", t[1], p), True)]
            if g is not None:
                yield from occurrences_with_guards(g, l2)
                for case in cond_cases(g, True):
                    yield from occurrences_with_guards(b, l2 + case)
            else:
                yield from occurrences_with_guards(b, l2)
    elif k == "binop" and t[1] in ("And", "Or"):
        yield from occurrences_with_guards(t[2], lits)
        for case in cond_cases(t[2], t[1] == "And"):
            yield from occurrences_with_guards(t[3], lits + case)
    elif k == "seq":
        # an `if c { return / panic }` statement guards the rest of the block with !c
        cur = list(lits)
        for s in t[1]:
            body = s[2] if s[0] == "let" else s[1]
            yield from occurrences_with_guards(body, cur)
            if s[0] == "semi" and isinstance(body, tuple) and body and body[0] == "if" and body[3] is None or (s[0] == "semi" and isinstance(body, tuple) and body and body[0] == "if" and _empty(body[3]) if isinstance(body, tuple) and len(body) > 3 and body[3] is not None else False):
                if _diverges(body[2]):
                    cases = cond_cases(body[1], False)
                    if len(cases) == 1:
                        cur = cur + cases[0]
        yield from occurrences_with_guards(t[2], cur)
    else:
        for x in t[1:]:
            if isinstance(x, tuple):
                yield from occurrences_with_guards(x, lits)


def _diverges(t):
    for s in sym.subterms(t):
        if s[0] in ("ret", "break", "continue"):
            return True
        if s[0] == "call" and ("panic" in s[1] or "unreachable" in s[1]):
            return True
    return False
