"""Tiny pattern language for sym terms, so that rule tables stay readable.

  _                 anything
  $x                pattern variable (must bind consistently)
  @0 @1 ...         function parameter by position
  arg0 arg1 ...     closure parameter by position (any closure)
  Path::Ctor(a, b)  constructor application (last path segment starts upper-case)
  Path::Ctor        unit constructor
  path::func(a, b)  call (last path segment starts lower-case); paths match by suffix
  t.field           field access
  t.Ctor#k          k-th payload of constructor Ctor of t (pattern-bound name)
  t?                the `?` operator
  item(t)           element drawn from iterator t
  (a, b)            tuple
  'text'            literal whose text contains `text`
"""
import re

from sym import ANY, AnyOf, P, V

_TOK = re.compile(r"\s*(?:(\$[A-Za-z_][A-Za-z0-9_]*)|(@\d+)|(<[^()]*?>(?:::[A-Za-z_][A-Za-z0-9_]*)+|[A-Za-z_][A-Za-z0-9_]*(?:::[A-Za-z_][A-Za-z0-9_]*)*)|('[^']*')|(.))")


class _Parser:
    def __init__(self, s):
        self.toks = []
        pos = 0
        s = s.strip()
        while pos < len(s):
            m = _TOK.match(s, pos)
            if not m:
                raise ValueError("bad pattern at %r" % s[pos:])
            pos = m.end()
            if m.group(1):
                self.toks.append(("var", m.group(1)[1:]))
            elif m.group(2):
                self.toks.append(("param", int(m.group(2)[1:])))
            elif m.group(3):
                self.toks.append(("path", m.group(3)))
            elif m.group(4):
                self.toks.append(("lit", m.group(4)[1:-1]))
            elif m.group(5) and not m.group(5).isspace():
                self.toks.append(("sym", m.group(5)))
        self.i = 0

    def peek(self):
        return self.toks[self.i] if self.i < len(self.toks) else (None, None)

    def eat(self, kind=None, val=None):
        t = self.peek()
        if (kind and t[0] != kind) or (val is not None and t[1] != val):
            raise ValueError("pattern: expected %s %s, got %s" % (kind, val, t))
        self.i += 1
        return t

    def args(self):
        out = []
        self.eat("sym", "(")
        while self.peek() != ("sym", ")"):
            out.append(self.term())
            if self.peek() == ("sym", ","):
                self.eat()
        self.eat("sym", ")")
        return tuple(out)

    def term(self):
        k, v = self.peek()
        if k == "var":
            self.eat()
            t = V(v)
        elif k == "param":
            self.eat()
            t = ("param", v, ANY)
        elif k == "lit":
            self.eat()
            t = ("lit", _LitContains(v))
        elif k == "sym" and v == "(":
            t = ("tuple", self.args())
        elif k == "path":
            self.eat()
            if v == "_":
                t = ANY
            elif re.fullmatch(r"arg\d+", v):
                t = ("cparam", ANY, int(v[3:]))
            elif v == "item" and self.peek() == ("sym", "("):
                a = self.args()
                t = ("item", a[0])
            else:
                last = v.split("::")[-1]
                if self.peek() == ("sym", "("):
                    a = self.args()
                    t = ("ctor", P(v), a) if last[0].isupper() else ("call", P(v), a)
                else:
                    t = ("ctor", P(v), ()) if last[0].isupper() else ("const", P(v))
        else:
            raise ValueError("pattern: unexpected %s %s" % (k, v))
        # postfix
        while True:
            k, v = self.peek()
            if (k, v) == ("sym", "."):
                self.eat()
                k2, v2 = self.eat()
                if k2 == "path" and self.peek() == ("sym", "#"):
                    self.eat()
                    _, idx = self.eat()
                    idx = int(idx) if str(idx).isdigit() else idx
                    t = ("proj", t, P(v2), idx)
                elif k2 == "path":
                    t = ("field", t, v2)
                elif k2 == "sym" and str(v2).isdigit():
                    t = ("field", t, v2)
                else:
                    raise ValueError("pattern: bad postfix %s" % v2)
            elif (k, v) == ("sym", "?"):
                self.eat()
                t = ("try", t)
            else:
                break
        return t


class _LitContains:
    def __init__(self, s):
        self.s = s

    def __eq__(self, other):
        return isinstance(other, str) and self.s in other

    def __hash__(self):
        return hash(self.s)

    def __repr__(self):
        return "lit~%r" % self.s


_cache = {}


def pat(s):
    if s not in _cache:
        p = _Parser(s)
        t = p.term()
        if p.i != len(p.toks):
            raise ValueError("pattern: trailing tokens in %r" % s)
        _cache[s] = t
    return _cache[s]


def alt(*ss):
    return AnyOf(*[pat(s) for s in ss])
