"""Check context: collects rule-instance evaluations, violations, evidence; applies known findings."""
import json
import os
import re
import sys
import time

VERIF = os.path.dirname(os.path.dirname(os.path.abspath(__file__)))
OUT = os.environ.get("PV_OUT", VERIF)


class Ctx:
    def __init__(self, prop, tier, seed=0):
        self.prop = prop
        self.tier = tier
        self.seed = seed
        self.t0 = time.time()
        self.instances = []  # dicts: rule, key, site, ok, detail
        self.violations = []
        self.notes = []
        self.configs = []
        self.functions = set()
        self.counters = {}
        self.explanation = ""
        self.assumptions = []
        self.not_decided = ""
        # functions whose early exits are each validated by their own table rule (the early-exit
        # census does not need to freeze them: a new exit is judged by that rule)
        self.tabled_exits = set()

    # ------------------------------------------------------------------
    def count(self, name, n=1):
        self.counters[name] = self.counters.get(name, 0) + n

    def fn_seen(self, path):
        self.functions.add(path)

    def ok(self, rule, key, site="", detail=""):
        """A rule instance that matched a real construct and holds."""
        self.instances.append({"rule": rule, "key": key, "site": site, "ok": True, "detail": detail})

    def violation(self, rule, key, site, what, detail=""):
        """A rule instance that fails. key = rule | function | construct (no line numbers)."""
        full = "%s|%s" % (rule, key)
        nf = getattr(self, "normal_form_violated", None)

        def _held_in(pass_keys):
            # a pass "rescues" this instance only if it *positively evaluated the very same instance as holding*
            # (an ok record with the same rule and key) and reports nothing at all about the same rule and construct:
            # a pass in which the rule finds nothing to look at, fails differently, or misses its anchor rescues nothing
            bad, good, mode = pass_keys
            pre = "%s|%s" % (rule, key.split("|")[0])
            if rule.endswith("early-exits") and ("guards" in mode or "unguards" in mode):
                return False  # these passes erase exactly what the early-exit census measures
            # the same instance, possibly reported with a finer detail suffix than the ok record carries
            segs = key.split("|")
            grp = "%s|%s|%s" % (rule, segs[0], segs[1]) if len(segs) >= 2 else full
            if segs[0] == "anchor-missing" and len(segs) >= 2:
                grp = "%s|floor|%s" % (rule, segs[1])  # a floor that is met in this pass
            positive = any(g == grp or g.startswith(grp + "|") for g in good)
            if not positive and (rule.endswith("early-exits") or key.split("|")[-1] == "shape"):
                # census / whole-function shape instances: the pass must have evaluated something about this construct
                positive = any(g == pre or g.startswith(pre + "|") for g in good)
            if not positive:
                return False
            return not any(k == pre or k.startswith(pre + "|") or k.startswith(rule + "|anchor-missing") for k in bad)

        if nf is not None and rule != "internal" and any(_held_in(pk) for pk in nf):
            # the instance holds on the normal form of the code (match / if-let / `?` / extracted helper are
            # idiom choices, see rules/sym.py CANON): not a violation
            self.instances.append({"rule": rule, "key": key, "site": site, "ok": True, "detail": "holds on the normal form of the code (idiom differs from the one the table was written for)"})
            self.accepted_by_normal_form = getattr(self, "accepted_by_normal_form", 0) + 1
            return
        self.instances.append({"rule": rule, "key": key, "site": site, "ok": False, "detail": what})
        self.violations.append({"key": full, "rule": rule, "site": site, "what": what, "detail": detail})

    def expect(self, cond, rule, key, site, what, detail=""):
        if cond:
            self.ok(rule, key, site, detail)
        else:
            self.violation(rule, key, site, what, detail)
        return cond

    def floor(self, rule, found, floor, what):
        """Fail closed if fewer instances than counted by hand were found."""
        if found < floor:
            self.violation(rule, "anchor-missing|%s" % what, "", "expected at least %d %s, found %d (anchor moved or rule blind)" % (floor, what, found))
            return False
        self.count("floor:" + rule + ":" + what, found)
        self.instances.append({"rule": rule, "key": "floor|%s" % what, "site": "", "ok": True, "detail": "%d found (at least %d expected)" % (found, floor)})
        return True

    def note(self, s):
        self.notes.append(s)

    # ------------------------------------------------------------------
    def finish(self):
        known = load_known()
        kf = {k["key"]: k for k in known.get("known", []) if k["property"] == self.prop}
        wall = time.time() - self.t0
        real = []
        out_lines = []
        seen_keys = set()
        for v in self.violations:
            if v["key"] in seen_keys:
                continue
            seen_keys.add(v["key"])
            if v["key"] in kf:
                out_lines.append("KNOWN-FINDING: property=%s %s [%s] %s" % (self.prop, kf[v["key"]].get("what", v["what"]), v["key"], v["site"]))
            else:
                real.append(v)
        os.makedirs(os.path.join(OUT, "reports"), exist_ok=True)
        for v in real:
            slug = re.sub(r"[^A-Za-z0-9_.-]+", "_", v["key"])[:120]
            path = os.path.join(OUT, "reports", "%s-%s.json" % (self.prop, slug))
            with open(path, "w") as f:
                json.dump({"property": self.prop, "tier": self.tier, **v}, f, indent=1)
            out_lines.append("VIOLATION property=%s replay=%s" % (self.prop, path))
            out_lines.append("  rule=%s site=%s: %s" % (v["rule"], v["site"], v["what"]))
            if v["detail"]:
                out_lines.append("  detail: %s" % str(v["detail"])[:600])
        ok_instances = [i for i in self.instances if i["ok"]]
        distinct = len({(i["rule"], i["key"]) for i in self.instances})
        samples = []
        byrule = {}
        for i in self.instances:
            byrule.setdefault(i["rule"], []).append(i)
        for r, lst in sorted(byrule.items()):
            for i in lst[:3]:
                samples.append({"rule": r, "instance": i["key"], "site": i["site"], "holds": i["ok"], "detail": str(i["detail"])[:240]})
        ev = {
            "property_id": self.prop,
            "tier": self.tier,
            "seed": self.seed,
            "level": "other",
            "coverage": {
                "explanation": self.explanation,
                "evaluations": len(self.instances),
                "distinct_nontrivial": distinct,
                "rule": "one evaluation = one rule instance (rule kind x function x construct) found in the current /repo source and compared with its table entry; distinct = distinct (rule, instance key) pairs; an instance is non-trivial because it is anchored to a real construct of the resolved program (floors fail the check when anchors disappear)",
                "samples": samples[:60],
                "rules": {r: {"instances": len(l), "holding": sum(1 for i in l if i["ok"])} for r, l in sorted(byrule.items())},
                "functions_analysed": len(self.functions),
                "functions": sorted(self.functions)[:200],
                "configs": self.configs,
                "counters": self.counters,
                "not_decided": self.not_decided,
                "known_findings_reported": [l for l in out_lines if l.startswith("KNOWN-FINDING")],
                "notes": self.notes[:50],
                "exhaustive": False,
            },
            "assumptions": self.assumptions
            + [
                "rustc nightly front end (resolution, typeck, MIR building, drop elaboration) is correct",
                "feature `debugger` is not analysed (not part of the baseline build)",
                "user-supplied code (User impls, fngoal closures) is outside the claim",
            ],
            "wall_s": round(wall, 2),
            "violations": len(real),
        }
        os.makedirs(os.path.join(OUT, "evidence"), exist_ok=True)
        with open(os.path.join(OUT, "evidence", "%s.json" % self.prop), "w") as f:
            json.dump(ev, f, indent=1)
        for l in out_lines:
            print(l)
        print(
            "%s %s: %d rule instances (%d distinct), %d functions, %d violation(s), %d known finding(s), %.1fs"
            % (self.prop, self.tier, len(self.instances), distinct, len(self.functions), len(real), len(out_lines) - sum(1 for l in out_lines if not l.startswith("KNOWN")), wall)
        )
        return 1 if real else 0


def load_known():
    p = os.path.join(VERIF, "known_findings.json")
    if os.path.exists(p):
        with open(p) as f:
            return json.load(f)
    return {"known": [], "fixed": []}


def site_of(node_or_span):
    """file:line from a facts span string `file:l:c-l:c[!]`."""
    sp = node_or_span.get("sp") or node_or_span.get("span") if isinstance(node_or_span, dict) else node_or_span
    if not sp:
        return ""
    parts = sp.split(":")
    return "%s:%s" % (parts[0], parts[1]) if len(parts) > 1 else sp
