"""Template call trees: parses the token trees of the macro crate's quote! templates (as extracted
by engine/pvtmpl, never expanded or executed) into small expression trees.

Nodes (tuples):
  ('interp', name)                      #name
  ('rep', [nodes], sep)                 #( ... ) sep *      (nodes: statements or expressions)
  ('path', 'a::b::c')
  ('call', callee_node, [args])
  ('macro', 'name', [args])             name!( .. ) / name![ .. ]
  ('ref', node)  ('array', [elems])  ('tuple', [elems])  ('lit', text)
  ('closure', is_move, [param token text], body)
  ('block', [stmts], tail|None)         stmt: ('let', pattern_text, [names bound / interps], type_text, init) | ('expr', node) | ('item', kw, text)
  ('struct', path_node, [(field, node)])
  ('method', recv, name, [args])  ('field', recv, name)  ('try', node)
  ('unknown', text)
"""
import json


def load(path):
    with open(path) as f:
        return json.load(f)


def text(toks):
    out = []
    for t in toks:
        if "i" in t:
            out.append(t["i"])
        elif "p" in t:
            out.append(t["p"])
        elif "l" in t:
            out.append(t["l"])
        elif "g" in t:
            o, c = {"(": "()", "[": "[]", "{": "{}", "": ("", "")}[t["g"]]
            out.append(o + " " + text(t["t"]) + " " + c)
    return " ".join(out)


def is_p(t, ch):
    return isinstance(t, dict) and t.get("p") == ch


def is_i(t, name=None):
    return isinstance(t, dict) and "i" in t and (name is None or t["i"] == name)


def is_g(t, d=None):
    return isinstance(t, dict) and "g" in t and (d is None or t["g"] == d)


class Parser:
    def __init__(self, toks):
        self.t = toks
        self.i = 0

    def peek(self, k=0):
        return self.t[self.i + k] if self.i + k < len(self.t) else None

    def eof(self):
        return self.i >= len(self.t)

    # -------------------------------------------------- lists
    def comma_list(self):
        out = []
        while not self.eof():
            out.append(self.expr())
            if is_p(self.peek(), ","):
                self.i += 1
        return out

    # -------------------------------------------------- blocks
    def block(self):
        stmts = []
        tail = None
        while not self.eof():
            t = self.peek()
            if is_p(t, ";"):
                self.i += 1
                continue
            if is_i(t, "let"):
                stmts.append(self.let())
                continue
            if is_p(t, "#") and is_g(self.peek(1), "[") :
                # attribute: skip
                self.i += 2
                continue
            if is_i(t) and t["i"] in ("use", "struct", "impl", "fn", "pub", "mod", "enum", "type", "const", "static", "trait"):
                stmts.append(self.item())
                continue
            e = self.expr()
            if is_p(self.peek(), ";"):
                self.i += 1
                stmts.append(("expr", e))
            elif self.eof():
                tail = e
            else:
                stmts.append(("expr", e))
        return ("block", stmts, tail)

    def item(self):
        start = self.i
        kw = self.peek()["i"]
        while not self.eof():
            t = self.peek()
            self.i += 1
            if is_p(t, ";"):
                break
            if is_g(t, "{"):
                # struct/impl/fn body ends the item (unless followed by nothing)
                break
        return ("item", kw, self.t[start : self.i])

    def let(self):
        self.i += 1  # let
        pat = []
        while not self.eof() and not is_p(self.peek(), "=") and not is_p(self.peek(), ":") and not is_p(self.peek(), ";"):
            pat.append(self.peek())
            self.i += 1
        ty = []
        if is_p(self.peek(), ":"):
            self.i += 1
            depth = 0
            while not self.eof():
                t = self.peek()
                if is_p(t, "<"):
                    depth += 1
                elif is_p(t, ">"):
                    depth -= 1
                elif is_p(t, "=") and depth <= 0:
                    break
                elif is_p(t, ";") and depth <= 0:
                    break
                ty.append(t)
                self.i += 1
        init = None
        if is_p(self.peek(), "="):
            self.i += 1
            init = self.expr()
        if is_p(self.peek(), ";"):
            self.i += 1
        names = []
        k = 0
        while k < len(pat):
            if is_p(pat[k], "#") and k + 1 < len(pat) and is_i(pat[k + 1]):
                names.append("#" + pat[k + 1]["i"])
                k += 2
                continue
            if is_i(pat[k]) and pat[k]["i"] not in ("mut", "ref"):
                names.append(pat[k]["i"])
            k += 1
        return ("let", text(pat), names, text(ty), init)

    # -------------------------------------------------- expressions
    def expr(self):
        e = self.primary()
        # postfix
        while not self.eof():
            t = self.peek()
            if is_p(t, ".") and is_i(self.peek(1)):
                name = self.peek(1)["i"]
                self.i += 2
                if is_g(self.peek(), "("):
                    args = Parser(self.peek()["t"]).comma_list()
                    self.i += 1
                    e = ("method", e, name, args)
                else:
                    e = ("field", e, name)
            elif is_p(t, ".") and is_p(self.peek(1), "#") and is_i(self.peek(2)):
                name = "#" + self.peek(2)["i"]
                self.i += 3
                e = ("field", e, name)
            elif is_p(t, "?"):
                self.i += 1
                e = ("try", e)
            else:
                break
        # binary operators: keep as opaque sequence
        if not self.eof() and isinstance(self.peek(), dict) and "p" in self.peek() and self.peek()["p"] in "+-*/<>=!&|" and not is_p(self.peek(), ","):
            # swallow the rest up to , or ;
            start = self.i
            while not self.eof() and not is_p(self.peek(), ",") and not is_p(self.peek(), ";"):
                self.i += 1
            return ("binary", e, text(self.t[start : self.i]))
        return e

    def primary(self):
        t = self.peek()
        if t is None:
            return ("unknown", "")
        if is_p(t, "#"):
            n = self.peek(1)
            if is_i(n):
                self.i += 2
                node = ("interp", n["i"])
                nx = self.peek()
                if is_p(nx, "|") and (is_p(self.peek(1), "#") or is_i(self.peek(1)) or is_p(self.peek(1), "|")):
                    # `#m |a, b| body`: closure whose `move` keyword is interpolated
                    self.i += 1
                    params = []
                    while not self.eof() and not is_p(self.peek(), "|"):
                        params.append(self.peek())
                        self.i += 1
                    self.i += 1
                    body = self.expr()
                    return ("closure", "#" + n["i"], text(params), body)
                if is_g(nx, "("):
                    self.i += 1
                    return ("call", node, Parser(nx["t"]).comma_list())
                if is_g(nx, "{") and _looks_like_fields(nx["t"]):
                    self.i += 1
                    return ("struct", node, _fields(nx["t"]))
                return node
            if is_g(n, "("):
                body = Parser(n["t"])
                inner = body.block()
                self.i += 2
                sep = None
                if isinstance(self.peek(), dict) and "p" in self.peek() and not is_p(self.peek(), "*"):
                    sep = self.peek()["p"]
                    self.i += 1
                if is_p(self.peek(), "*"):
                    self.i += 1
                nodes = [s for s in inner[1]] + ([("expr", inner[2])] if inner[2] is not None else [])
                return ("rep", nodes, sep)
        if is_p(t, "&"):
            self.i += 1
            if is_i(self.peek(), "mut"):
                self.i += 1
            return ("ref", self.expr())
        if is_p(t, "*"):
            self.i += 1
            return ("deref", self.expr())
        if is_i(t, "move") or is_p(t, "|"):
            mv = False
            if is_i(t, "move"):
                mv = True
                self.i += 1
            # | params |
            self.i += 1
            params = []
            while not self.eof() and not is_p(self.peek(), "|"):
                params.append(self.peek())
                self.i += 1
            self.i += 1
            body = self.expr()
            return ("closure", mv, text(params), body)
        if is_g(t, "{"):
            self.i += 1
            return Parser(t["t"]).block()
        if is_g(t, "["):
            self.i += 1
            return ("array", Parser(t["t"]).comma_list())
        if is_g(t, "("):
            self.i += 1
            items = Parser(t["t"]).comma_list()
            return items[0] if len(items) == 1 and not (t["t"] and is_p(t["t"][-1], ",")) else ("tuple", items)
        if isinstance(t, dict) and "l" in t:
            self.i += 1
            return ("lit", t["l"])
        if is_i(t, "let"):
            return self.let()
        if is_i(t) or is_p(t, ":") or is_p(t, "<"):
            return self.path_expr()
        self.i += 1
        return ("unknown", text([t]))

    def path_expr(self):
        segs = []
        # leading ::
        while is_p(self.peek(), ":"):
            self.i += 1
        if is_p(self.peek(), "<"):
            # qualified path <T as Trait>::x : take as text
            depth = 0
            start = self.i
            while not self.eof():
                if is_p(self.peek(), "<"):
                    depth += 1
                elif is_p(self.peek(), ">"):
                    depth -= 1
                    if depth == 0:
                        self.i += 1
                        break
                self.i += 1
            segs.append(text(self.t[start : self.i]))
        while not self.eof():
            t = self.peek()
            if is_i(t):
                segs.append(t["i"])
                self.i += 1
            elif is_p(t, "#") and is_i(self.peek(1)) and (not segs or True):
                segs.append("#" + self.peek(1)["i"])
                self.i += 2
            else:
                break
            # ::
            if is_p(self.peek(), ":") and is_p(self.peek(1), ":"):
                self.i += 2
                if is_p(self.peek(), "<"):
                    depth = 0
                    while not self.eof():
                        if is_p(self.peek(), "<"):
                            depth += 1
                        elif is_p(self.peek(), ">"):
                            depth -= 1
                            if depth == 0:
                                self.i += 1
                                break
                        self.i += 1
                    if is_p(self.peek(), ":") and is_p(self.peek(1), ":"):
                        self.i += 2
                        continue
                    break
                continue
            break
        node = ("path", "::".join(segs))
        if len(segs) == 1 and segs[0].startswith("#"):
            node = ("interp", segs[0][1:])
        t = self.peek()
        if is_p(t, "!") and is_g(self.peek(1)):
            g = self.peek(1)
            self.i += 2
            return ("macro", "::".join(segs), Parser(g["t"]).comma_list())
        if is_g(t, "("):
            self.i += 1
            return ("call", node, Parser(t["t"]).comma_list())
        if is_g(t, "{") and segs and (segs[-1][:1].isupper() or segs[-1].startswith("#")) and _looks_like_fields(t["t"]):
            self.i += 1
            return ("struct", node, _fields(t["t"]))
        return node


def _looks_like_fields(toks):
    if not toks:
        return True
    # ident ':' ... or #( .. ),*  or #ident
    if is_i(toks[0]) and len(toks) > 1 and is_p(toks[1], ":") and not (len(toks) > 2 and is_p(toks[2], ":")):
        return True
    if is_p(toks[0], "#"):
        return True
    return False


def _fields(toks):
    p = Parser(toks)
    out = []
    while not p.eof():
        t = p.peek()
        if is_p(t, ","):
            p.i += 1
            continue
        if is_i(t) and is_p(p.peek(1), ":"):
            name = t["i"]
            p.i += 2
            out.append((name, p.expr()))
        else:
            out.append((None, p.expr()))
    return out


def parse(toks):
    """Parse a template's token list as a block (statements + tail) or a single expression."""
    p = Parser(toks)
    b = p.block()
    if not b[1] and b[2] is not None:
        return b[2]
    return b


# ----------------------------------------------------------------------
# items inside templates (generated impls / structs): located structurally, bodies parsed as blocks
def fns_in(toks, ctx=()):
    """Yield (context, fn_name, signature_tokens, body_tokens) for every `fn` in a token list,
    descending into `mod`, `impl` and `trait` bodies. context = tuple of header texts."""
    i = 0
    n = len(toks)
    while i < n:
        t = toks[i]
        if is_i(t, "fn") and i + 1 < n and (is_i(toks[i + 1]) or is_p(toks[i + 1], "#")):
            name = toks[i + 1]["i"] if is_i(toks[i + 1]) else "#" + toks[i + 2].get("i", "?")
            j = i + 2
            while j < n and not is_g(toks[j], "{") and not is_p(toks[j], ";"):
                j += 1
            if j < n and is_g(toks[j], "{"):
                yield (ctx, name, toks[i + 2 : j], toks[j]["t"])
            i = j + 1
            continue
        if is_i(t) and t["i"] in ("impl", "mod", "trait"):
            j = i + 1
            while j < n and not is_g(toks[j], "{") and not is_p(toks[j], ";"):
                j += 1
            if j < n and is_g(toks[j], "{"):
                yield from fns_in(toks[j]["t"], ctx + (text(toks[i:j]),))
            i = j + 1
            continue
        i += 1


def structs_in(toks, ctx=()):
    """Yield (context, name_text, body_tokens, delimiter) for every `struct` definition with a body."""
    i = 0
    n = len(toks)
    while i < n:
        t = toks[i]
        if is_i(t, "struct"):
            j = i + 1
            while j < n and not is_g(toks[j], "{") and not is_g(toks[j], "(") and not is_p(toks[j], ";"):
                j += 1
            if j < n and is_g(toks[j]):
                yield (ctx, text(toks[i + 1 : j]), toks[j]["t"], toks[j]["g"])
            i = j + 1
            continue
        if is_i(t) and t["i"] in ("mod",):
            j = i + 1
            while j < n and not is_g(toks[j], "{") and not is_p(toks[j], ";"):
                j += 1
            if j < n and is_g(toks[j], "{"):
                yield from structs_in(toks[j]["t"], ctx + (text(toks[i:j]),))
            i = j + 1
            continue
        i += 1


def impl_header(h):
    """'impl <generics> Trait for Type ...' -> (trait_last_segment | None, self_text)."""
    words = h.split()
    if not words or words[0] != "impl":
        return (None, h)
    if "for" in words:
        k = len(words) - 1 - words[::-1].index("for")
        before = [w for w in words[1:k]]
        after = words[k + 1 :]
        # trait = last identifier-like word before `for` that is not an interpolation marker
        idents = [w for i, w in enumerate(before) if w[0].isalpha() or w[0] == "_"]
        # drop interpolated names (`# impl_generics`, `# type_generics`)
        plain = []
        for i, w in enumerate(before):
            if (w[0].isalpha() or w[0] == "_") and not (i > 0 and before[i - 1] == "#"):
                plain.append(w)
        trait = None
        for w in plain:
            if w[0].isupper():
                trait = w if trait is None or True else trait
        # first capitalised plain word after the generics is the trait's last segment before any `<`
        trait = None
        depth = 0
        for i, w in enumerate(before):
            if w == "<":
                depth += 1
            elif w == ">":
                depth -= 1
            elif depth == 0 and (w[0].isalpha() or w[0] == "_") and not (i > 0 and before[i - 1] == "#"):
                trait = w
        return (trait, " ".join(after))
    return (None, " ".join(words[1:]))


# ----------------------------------------------------------------------
def walk(n):
    if isinstance(n, tuple):
        yield n
        for x in n[1:]:
            yield from walk(x)
    elif isinstance(n, list):
        for x in n:
            yield from walk(x)


def calls(n, path_suffix=None):
    for x in walk(n):
        if isinstance(x, tuple) and x and x[0] == "call" and isinstance(x[1], tuple) and x[1][0] in ("path", "interp"):
            p = x[1][1]
            if path_suffix is None or p == path_suffix or p.endswith("::" + path_suffix):
                yield x


def interps(n):
    return [x[1] for x in walk(n) if isinstance(x, tuple) and x and x[0] == "interp"]


def show(n, depth=0):
    if depth > 10:
        return "..."
    if isinstance(n, list):
        return "[" + ", ".join(show(x, depth + 1) for x in n) + "]"
    if not isinstance(n, tuple) or not n:
        return str(n)
    k = n[0]
    s = lambda x: show(x, depth + 1)
    if k == "interp":
        return "#" + n[1]
    if k == "rep":
        return "#(%s)%s*" % ("; ".join(s(x) for x in n[1]), n[2] or "")
    if k == "path":
        return n[1].split("::")[-1] if depth > 3 else n[1]
    if k == "call":
        return "%s(%s)" % (s(n[1]), ", ".join(s(a) for a in n[2]))
    if k == "macro":
        return "%s!(%s)" % (n[1], ", ".join(s(a) for a in n[2]))
    if k == "ref":
        return "&" + s(n[1])
    if k == "array":
        return "[" + ", ".join(s(a) for a in n[1]) + "]"
    if k == "tuple":
        return "(" + ", ".join(s(a) for a in n[1]) + ")"
    if k == "closure":
        return "%s|%s| %s" % ("move " if n[1] else "", n[2], s(n[3]))
    if k == "block":
        return "{%s%s}" % ("".join(s(x) + "; " for x in n[1]), s(n[2]) if n[2] is not None else "")
    if k == "let":
        return "let %s = %s" % (n[1], s(n[4]) if n[4] is not None else "_")
    if k == "expr":
        return s(n[1])
    if k == "item":
        return "<item %s>" % n[1]
    if k == "struct":
        return "%s{%s}" % (s(n[1]), ", ".join("%s: %s" % (f, s(v)) for f, v in n[2]))
    if k == "method":
        return "%s.%s(%s)" % (s(n[1]), n[2], ", ".join(s(a) for a in n[3]))
    if k == "field":
        return "%s.%s" % (s(n[1]), n[2])
    if k == "lit":
        return n[1]
    return "%s(..)" % k


class Templates:
    def __init__(self, data):
        self.data = data
        self.templates = data["templates"]
        self.enums = {e["name"]: e["variants"] for e in data["enums"]}

    def find(self, owner=None, fn=None, arm=None, macro="quote"):
        out = []
        for t in self.templates:
            if macro and t["macro"] != macro:
                continue
            if owner and not (t["owner"] == owner or t["owner"].replace(" ", "") == owner.replace(" ", "")):
                continue
            if fn and t["fn"] != fn:
                continue
            if arm and not any(arm in a.replace(" ", "") for a in t["arms"]):
                continue
            out.append(t)
        return out

    def tree(self, t):
        if "_tree" not in t:
            t["_tree"] = parse(t["tokens"])
        return t["_tree"]

    def site(self, t):
        return "macros/src/lib.rs:%d" % t["line"]
