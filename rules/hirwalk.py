"""Raw walks over the typed-HIR JSON (call sites, field accesses, struct literals, unsafe blocks)."""
from facts import norm


def nodes(n):
    """All dict nodes of a HIR tree (pre-order)."""
    stack = [n]
    while stack:
        x = stack.pop()
        if isinstance(x, dict):
            yield x
            for v in x.values():
                if isinstance(v, (dict, list)):
                    stack.append(v)
        elif isinstance(x, list):
            stack.extend(x)


def calls(fn):
    """(callee, resolved, node) for every Call / MethodCall / operator call in the function (closures included)."""
    for n in nodes(fn.get("hir")):
        k = n.get("k")
        if k in ("Call", "MethodCall", "Binary", "Unary", "Index") and "callee" in n:
            yield norm(n["callee"]), norm(n.get("resolved")), n


def field_nodes(fn, field):
    for n in nodes(fn.get("hir")):
        if n.get("k") == "Field" and n.get("field") == field:
            yield n


def callers_of(crate, suffix, include_tests=False):
    """dict fn-path -> [nodes] of functions that call something whose path ends with `suffix`."""
    out = {}
    for p, fn in crate.fns.items():
        if "hir" not in fn or (fn.get("in_test_mod") and not include_tests):
            continue
        for c, r, n in calls(fn):
            for x in (c, r):
                if x and (x == suffix or x.endswith("::" + suffix)):
                    out.setdefault(p, []).append(n)
                    break
    return out


def fns_nontest(crate, derive=False):
    import sym

    skip = {p for p, f in crate.fns.items() if sym.new_helper(crate, p, f)} if (sym.CANON and "helpers" in sym.MODE) else set()
    for p, fn in sorted(crate.fns.items()):
        if "hir" not in fn or fn.get("in_test_mod"):
            continue
        if not derive and fn["span"].endswith("!"):
            continue
        if p in skip:
            continue  # normal-form mode: a private single-call-site helper is read as part of its caller
        yield p, fn
