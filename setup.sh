#!/bin/sh
# Build the analysis engines from files on disk only (offline).
set -e
cd "$(dirname "$0")"
export CARGO_NET_OFFLINE=true
(cd engine/pvfacts && cargo build --release --offline)
if [ -d engine/pvtmpl ]; then (cd engine/pvtmpl && cargo build --release --offline); fi
echo setup ok
